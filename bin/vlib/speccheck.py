"""Checks of the log-specification family: C02 (filtering), C05 (run-time reconfiguration, push/pop),
C12 (concurrent reconfiguration), C17 (text forms). Same flow as flwcheck.run:
(1) TLC model-checks spec/LogSpec.tla / spec/SpecText.tla (ideal configuration; a violation there is a tool error),
(2) TLC generates behaviours / enumerates inputs -> scenarios (+ seeded random scenarios, + regression scenarios),
(3) `flv spec` executes them on the real code, (4) the TLA+ monitor Mon<Cxx>.tla judges every trace line,
(5) triage against known_findings.json, (6) evidence.
TLC is the judge; Rust executes and observes; this file only orchestrates and generates inputs."""
import json
import os
import random
import shutil
import time

from . import common as C

SUB = "spec"
A_SPEC = [
    "TLC 1.8 and the CommunityModules JSON reader are correct",
    "the harness joins letter sequences to strings faithfully (prefix-free alphabet {a,b,c,::,info,...}), so that "
    "'module name is a prefix of the target' is IsPrefix on sequences",
    "records are pushed through Log::log / Log::enabled of the Box<dyn Log> returned by Logger::build(); the log "
    "macros' own `level <= max_level()` test is represented by comparing with log::max_level()",
    "text filters are literal patterns (match = substring); regex semantics beyond that is the regex crate's",
    "exhaustive statements hold within the constants of the named MC*.cfg only",
]

PLAIN_MODS = [["a"], ["a", "b"], ["a", "::", "b"], ["a", "::", "b", "::", "c"], ["a", "b", "c"], ["b"], ["b", "a"],
              ["info"], ["info", "::", "a"], ["c"], []]
PLAIN_T = [{"w": False, "d": True, "m": m} for m in PLAIN_MODS]
BRACE_T = [{"w": True, "d": False, "m": ["a"]}, {"w": True, "d": True, "m": ["a"]},
           {"w": True, "d": True, "m": ["a", "b", "c"]}, {"w": True, "d": True, "m": ["c"]}]
MSGS = [["x", "a", "b"], ["b", "a"]]
NAMES5 = [["a"], ["a", "b"], ["a", "::", "b"], ["b"], ["info"]]
LEVEL_WORDS = ["off", "error", "warn", "info", "debug", "trace"]
NO_WRITER = {"on": False, "c": 0}
NO_LF = {"on": False, "drop": 0}


# --------------------------------------------------------------------------- input helpers (tokens, rendering)
def W(s):
    return {"k": "w", "s": s, "v": -1}


def L(s):
    return {"k": "lvl", "s": s, "v": LEVEL_WORDS.index(s.lower())}


EQ = {"k": "eq", "s": "=", "v": -1}
COMMA = {"k": "comma", "s": ",", "v": -1}
SLASH = {"k": "slash", "s": "/", "v": -1}
WS = {"k": "ws", "s": " ", "v": -1}


def letter_tok(x):
    return L(x) if x in LEVEL_WORDS else W(x)


def render(spec, rng=None):
    """Token rendering of a specification (the Display layout, plus the text filter); with rng: random blanks."""
    parts = []
    if spec["d"] >= 0:
        parts.append([L(LEVEL_WORDS[spec["d"]])])
    for f in spec["f"]:
        p = [letter_tok(x) for x in f["n"]]
        style = rng.choice(["=", " = ", "bare"]) if rng else " = "
        if style == "bare" and f["l"] == 5 and not (len(f["n"]) == 1 and f["n"][0] in LEVEL_WORDS):
            pass  # a name without level means trace (a bare level word would be read as the default level)
        elif style == "=":
            p += [EQ, L(LEVEL_WORDS[f["l"]])]
        else:
            p += [WS, EQ, WS, L(LEVEL_WORDS[f["l"]])]
        parts.append(p)
    if rng:
        rng.shuffle(parts)
    out = []
    for i, p in enumerate(parts):
        if i:
            out += [COMMA, WS] if not rng or rng.random() < 0.7 else [COMMA]
        out += p
    if spec["hasre"]:
        out += [SLASH] + [W(x) for x in spec["re"]]
    return out


def rand_spec(rng, names=NAMES5, p_re=0.25):
    f = []
    for n in names:
        if rng.random() < 0.5:
            f.append({"n": n, "l": rng.randint(0, 5)})
    rng.shuffle(f)
    hasre = rng.random() < p_re
    return {"f": f, "d": rng.choice([-1, -1, 0, 1, 2, 3, 4, 5]), "hasre": hasre,
            "re": rng.choice([["a", "b"], ["a"], ["b", "a"], []]) if hasre else []}


def spec_key(s):
    return json.dumps(s, sort_keys=True)


# --------------------------------------------------------------------------- plumbing
def _prepare():
    """Build the harness (or use the binary named by VERIF_FLV, e.g. a not yet integrated build)."""
    if os.environ.get("VERIF_KF"):      # e.g. proposed entries that are not yet in known_findings.json
        C.KF_FILE = os.environ["VERIF_KF"]
    alt = os.environ.get("VERIF_FLV")
    if alt:
        C.FLV = alt
        return 0.0
    return C.build_harness()


def _cleanup(wd):
    if not os.environ.get("VERIF_KEEP"):      # debugging aid: keep scenarios, traces and TLC output
        shutil.rmtree(wd, ignore_errors=True)


def _model_check(pid, wd, runs, stats):
    """runs: [(module, cfg, workers, timeout)]; invariants must hold (ideal configuration)."""
    for (module, cfg, workers, timeout) in runs:
        r = C.run_tlc(module, os.path.join(C.SPEC, cfg), os.path.join(wd, "mc-" + cfg), workers=workers, timeout=timeout)
        if r["violated"] or r["deadlock"]:
            C.log("\n".join(r["out"].splitlines()[-60:]))
            raise C.ToolError(f"specification {module}/{cfg} violates {r['violated']}: the model or the property "
                              f"formalisation is wrong (this is a tool error, not a verdict about /repo)")
        stats["mc"].append({"module": module, "cfg": cfg, "states": r["states"], "transitions": r["transitions"],
                            "depth": r["depth"], "wall_s": r["wall_s"]})
        stats["states"] += r["states"]
        stats["transitions"] += r["transitions"]
        C.log(f"[{pid}] TLC {cfg}: {r['states']} distinct states, {r['transitions']} transitions, {r['wall_s']}s "
              f"- invariants hold")


def _as_coded(pid, wd, module, cfg, stats, workers=4, timeout=600):
    """The model with the deviations as coded: a violation is expected while a deviation is open. Never a verdict:
    returns the counterexamples TLC printed as scenarios (replayed on the real code and judged there)."""
    r = C.run_tlc(module, os.path.join(C.SPEC, cfg), os.path.join(wd, "asis-" + cfg), workers=workers, timeout=timeout)
    reps = C.replay_lines(r)
    stats["as_coded"].append({"cfg": cfg, "violated": r["violated"], "states": r["states"],
                              "counterexamples_printed": len(reps)})
    stats["states"] += r["states"]
    stats["transitions"] += r["transitions"]
    C.log(f"[{pid}] TLC {cfg} (deviations as coded): "
          + (f"violates {r['violated']} (expected while the deviation is open; replayed on the code below)"
             if r["violated"] else "no violation"))
    return reps


def _generate(pid, wd, module, cfg, stats, workers=4, timeout=900):
    r = C.run_tlc(module, os.path.join(C.SPEC, cfg), os.path.join(wd, "gen-" + cfg), workers=workers, timeout=timeout)
    if r["violated"]:
        raise C.ToolError(f"generator {cfg} reports {r['violated']}")
    # the set of emitted cases is fixed by the model; their order depends on TLC's worker scheduling
    reps = sorted(C.replay_lines(r), key=lambda x: json.dumps(x, sort_keys=True))
    stats["gen"].append({"cfg": cfg, "states": r["states"], "emitted": len(reps), "wall_s": r["wall_s"]})
    stats["states"] += r["states"]
    stats["transitions"] += r["transitions"]
    return reps


def _regress(name):
    p = os.path.join(C.SPEC, "regress", name)
    out = []
    if os.path.exists(p):
        for line in open(p):
            if line.strip():
                out.append(json.loads(line))
    return out


def _number(scens):
    """sc first (triage looks for it at the start of the scenario line), numbered 1.."""
    out = []
    for i, s in enumerate(scens):
        d = {"sc": i + 1}
        d.update({k: v for k, v in s.items() if k != "sc"})
        out.append(d)
    return out


def _compact(e):
    c = {"ev": e["ev"]}
    for k in ("ret", "how", "via", "text", "t", "st", "at", "sched", "origin"):
        if k in e:
            c[k] = e[k]
    if "spec" in e:
        c["spec"] = e["spec"]
    if "filters" in e:
        c["filters"] = e["filters"]
    p = e.get("p")
    if p and p.get("en"):
        c["gate"] = p["gate"]
        c["enabled_levels_per_target"] = [sum(1 for x in row if x) for row in p["en"]]
        if p.get("dl"):
            c["delivered_per_message"] = [sum(sum(r) for r in m) for m in p["dl"]]
    if "g1" in e and e["g1"]:
        c["levels_per_target_before_after"] = [[sum(1 for x in r if x) for r in e["g0"]],
                                               [sum(1 for x in r if x) for r in e["g1"]]]
    return c


def _samples(traces, k=3, maxev=8):
    out = []
    for tf in traces[:k]:
        cur = []
        for line in open(tf):
            e = json.loads(line)
            if e["ev"] == "Begin" and cur:
                break
            cur.append(_compact(e))
            if len(cur) >= maxev:
                break
        if cur:
            out.append(cur)
    return out


def _finish(pid, tier, seed, t0, build_s, stats, scens, res, mon, rule, assumptions, distinct, extra_facts=None,
            tool_preds=(), extra_cov=None):
    tool = [b for b in res["bads"] if b[2] in tool_preds]
    if tool:
        raise C.ToolError(f"binding sanity predicate failed: {tool[:3]} (harness lexer and model tokens disagree)")
    viols, known = C.triage(pid, res["bads"], res["traces"], res["scen_files"], extra_facts=extra_facts)
    for fnd, cnt in known:
        C.log(f"KNOWN-FINDING: property={pid} {fnd['id']}: {fnd['what']} ({cnt} occurrences)")
    for v in viols[:10]:
        C.log(f"VIOLATION property={pid} replay={v['replay']}")
        C.log(f"   predicate {v['pred']} failed at scenario {v['sc']} event {v['n']}; facts {v['facts']}")
    if len(viols) > 10:
        C.log(f"   ... and {len(viols) - 10} more (scenario, predicate) pairs")
    origins = {}
    for s in scens:
        o = str(s.get("origin", "?")).split(":")[0]
        origins[o] = origins.get(o, 0) + 1
    cov = {
        "states": stats["states"], "transitions": stats["transitions"],
        "traces_validated_against_impl": res["scenarios"],
        "events_judged": res["events"],
        "evaluations": res["events"], "distinct_nontrivial": distinct,
        "rule": rule,
        "samples": _samples(res["traces"]),
        "model_checking_runs": stats["mc"], "as_coded_model_runs": stats["as_coded"],
        "scenario_generation_runs": stats["gen"], "scenarios_by_origin": origins,
        "monitor": mon + ".tla", "monitor_counters": res["counts"],
        "predicate_failures": len(res["bads"]),
        "failed_predicates": sorted({b[2] for b in res["bads"]}),
        "known_findings_hit": [{"id": f["id"], "count": c} for f, c in known],
        "exhaustive": False,
        "harness_build_s": round(build_s, 1),
    }
    if extra_cov:
        cov.update(extra_cov)
    C.write_evidence(pid, tier, seed, "model_checking", cov, assumptions, time.time() - t0, len(viols))
    return 1 if viols else 0


def _run(pid, mon, scens, wd):
    """execute + judge (common.run_sharded); the monitors also write their counters to <trace>.counts because TLC
    wraps long tuples over several lines"""
    res = C.run_sharded(pid, mon, scens, wd, sub=SUB)
    tot = []
    for tf in res["traces"]:
        cf = tf + ".counts"
        if os.path.exists(cf):
            cs = json.loads(open(cf).readline())["counts"]
            tot = [a + b for a, b in zip(tot, cs)] if tot else list(cs)
    if tot:
        res["counts"] = tot
    return res


def _new_stats():
    return {"mc": [], "as_coded": [], "gen": [], "states": 0, "transitions": 0}


def _ops(steps, origin, targets=PLAIN_T, writer=NO_WRITER, lf=NO_LF, tag=None, refs=False):
    s = {"kind": "ops", "origin": origin, "targets": targets, "msgs": MSGS, "writer": writer, "lf": lf,
         "probe": "full", "refs": refs, "steps": steps}
    if tag:
        s["tag"] = tag
    return s


# =========================================================================== C02
def C02(tier, seed):
    pid, mon = "C02", "MonC02"
    t0 = time.time()
    wd = C.workdir(pid)
    try:
        build_s = _prepare()
        st = _new_stats()
        quick = tier == "quick"
        _model_check(pid, wd, [("MCLogSpec.tla", "MCLogSpec_C02q.cfg" if quick else "MCLogSpec_C02t.cfg", 8, 3000),
                               ("MCLogSpec.tla", "MCLogSpec_C02w.cfg", 8, 600)], st)
        _as_coded(pid, wd, "MCLogSpec.tla", "MCLogSpec_C02w_asis.cfg", st)
        reps = _generate(pid, wd, "MCLogSpec.tla", "MCLogSpec_C02gen.cfg" if quick else "MCLogSpec_C02gent.cfg", st,
                         timeout=3000)
        builds = [r["steps"][0] for r in reps if r["steps"] and r["steps"][0]["op"] == "Build"]
        n_enum = len(builds)
        rng = random.Random(seed)
        cap = 6000 if quick else 60000
        if n_enum > cap:
            # too many for one run: seeded sample, the rest is reached with other seeds
            builds = [builds[i] for i in sorted(rng.sample(range(n_enum), cap))]
        C.log(f"[{pid}] TLC enumerated {n_enum} specifications, {len(builds)} of them replayed")
        perm = list(range(len(builds)))
        rng.shuffle(perm)
        scens = []
        hows = ["mf", "builder"]
        for i, b in enumerate(builds):
            other = builds[perm[i]]["spec"]
            # every specification built twice (programmatically, from its text) and once installed at run time
            scens.append(_ops([{"op": "Build", "spec": b["spec"], "how": hows[i % 2], "rtoks": []},
                               {"op": "Build", "spec": b["spec"], "how": "parse", "rtoks": b["rtoks"]},
                               {"op": "Set", "spec": other, "how": hows[(i + 1) % 2]}], "tlc:enum"))
        # user-supplied line filter; one additional writer of each ceiling, brace targets
        n_lf = 400 if quick else 6000
        for i in rng.sample(range(len(builds)), min(n_lf, len(builds))):
            scens.append(_ops([{"op": "Build", "spec": builds[i]["spec"], "how": "mf", "rtoks": []}], "tlc:enum+linefilter",
                              lf={"on": True, "drop": rng.randint(1, 5)}))
        n_w = 600 if quick else 8000
        for i in rng.sample(range(len(builds)), min(n_w, len(builds))):
            scens.append(_ops([{"op": "Build", "spec": builds[i]["spec"], "how": "builder", "rtoks": []},
                               {"op": "Set", "spec": builds[perm[i]]["spec"], "how": "mf"}], "tlc:enum+writer",
                              targets=PLAIN_T + BRACE_T, writer={"on": True, "c": rng.choice([0, 1, 3, 5])}))
        # brace targets although NO additional writer is registered ({W,_Default}: W is unknown and reported, the record
        # goes to the default channel filtered by its module; {W}: nowhere)
        for i in rng.sample(range(len(builds)), min(300 if quick else 4000, len(builds))):
            scens.append(_ops([{"op": "Build", "spec": builds[i]["spec"], "how": "builder", "rtoks": []},
                               {"op": "Set", "spec": builds[perm[i]]["spec"], "how": "mf"}], "tlc:enum+braces-no-writer",
                              targets=PLAIN_T + BRACE_T))
        # seeded random specifications over the larger name set, random text layout
        for i in range(1500 if quick else 20000):
            s1, s2 = rand_spec(rng), rand_spec(rng)
            scens.append(_ops([{"op": "Build", "spec": s1, "how": "parse", "rtoks": render(s1, rng)},
                               {"op": "Set", "spec": s2, "how": hows[i % 2]}], "rand"))
        # changes that touch ONLY the text filter (same module filters): added, replaced, removed
        res_ = [[], ["a"], ["b", "a"], ["a", "b"]]
        for i in range(400 if quick else 5000):
            s1 = rand_spec(rng, p_re=0.0)
            chain = [dict(s1, hasre=bool(r_), re=list(r_)) for r_ in rng.sample(res_, 3)]
            scens.append(_ops([{"op": "Build", "spec": chain[0], "how": "parse", "rtoks": render(chain[0], rng)},
                               {"op": "Set", "spec": chain[1], "how": "mf"},
                               {"op": "Set", "spec": chain[2], "how": "mf"}], "rand:regex-only-change"))
        scens += [dict(s, origin="regress:" + str(s.get("origin", ""))) for s in _regress("C02.ndjson")]
        scens = _number(scens)
        res = _run(pid, mon, scens, wd)
        C.log(f"[{pid}] executed {res['scenarios']} scenarios / {res['events']} events on the real code; judged by "
              f"{mon}.tla in {res['wall_s']}s; {len(res['bads'])} predicate failures; counters {res['counts']}")
        # "the global max-level shortcut never hides a record that the specification enables" also while the specification
        # is being replaced from two threads: it holds because the gate is written while the specification lock is held.
        # Probe that atomicity (as C12 does); only if it is NOT implemented, replay the interleavings of the as-coded model
        # and judge the final gate with MonC12.
        sc0 = len(scens)
        probe = [dict(_conc([[{"op": "Set", "spec": CS[0]}], [{"op": "Set", "spec": CS[1]}]],
                            [{"t": 1, "st": "prep"}, {"t": 2, "st": "prep"}, {"t": 1, "st": "spec"},
                             {"t": 2, "st": "spec"}, {"t": 1, "st": "gate"}, {"t": 2, "st": "gate"}], "probe"),
                      sc=sc0 + 1, block_ms=1000)]
        pf, ptf = os.path.join(wd, "probe.ndjson"), os.path.join(wd, "probe-trace.ndjson")
        open(pf, "w").write(json.dumps(probe[0]) + "\n")
        C.exec_flw(pf, ptf, sub=SUB)
        locked = any(json.loads(x).get("ret") == "blocked" for x in open(ptf))
        C.log(f"[{pid}] atomicity probe: the gate is written "
              + ("while the specification lock is held" if locked else "after the specification lock is released"))
        if not locked:
            cs = []
            for r in _generate(pid, wd, "MCLogSpec.tla", "MCLogSpec_C12gen2.cfg", st):
                cs.append(_conc(r["cfg"]["progs"], [s_ for s_ in r["steps"] if "t" in s_], "tlc:MCLogSpec_C12gen2.cfg",
                                init=r["steps"][0]["spec"]))
            cs = [dict(c_, sc=sc0 + 2 + k) for k, c_ in enumerate(cs)]
            cs = [dict([("sc", c_["sc"])] + [(k_, v_) for k_, v_ in c_.items() if k_ != "sc"]) for c_ in cs]
            res2 = _run(pid, "MonC12", cs, wd)
            C.log(f"[{pid}] {res2['scenarios']} interleavings of two concurrent set_new_spec calls replayed; judged by MonC12.tla; "
                  f"{len(res2['bads'])} predicate failures")
            res["bads"] += res2["bads"]
            res["traces"] += res2["traces"]
            res["scen_files"] += res2["scen_files"]
            res["scenarios"] += res2["scenarios"]
            res["events"] += res2["events"]
        distinct = len({json.dumps([s["steps"], s["writer"], s["lf"]], sort_keys=True) for s in scens
                        if any(x["spec"]["f"] or x["spec"]["d"] >= 0 for x in s["steps"])})
        return _finish(pid, tier, seed, t0, build_s, st, scens, res, mon,
                       rule="(a) every specification of the bounded universe enumerated by TLC (names {a, ab, info} "
                            "(quick) / {a, ab, a::b, b, info} (thorough), each absent or one of the 6 level filters, default "
                            "likewise, with/without a literal text filter), built programmatically and from its rendered "
                            "text and installed at run time with set_new_spec; probed with 11 targets (exact, extended, "
                            "sibling with common prefix, unrelated, empty) x 5 levels x 2 messages; samples with a "
                            "LogLineFilter and with an additional writer of ceiling off/error/info/trace and brace targets; "
                            "(b) seeded random specifications over 5 names with random text layout. distinct = distinct "
                            "(steps, writer, line filter) triples whose specifications are not all empty",
                       assumptions=A_SPEC + ["the additional writer honours its own max_log_level (C13 covers writers that "
                                             "do not)", "specifications name each module at most once (the property's domain)"],
                       distinct=distinct)
    finally:
        _cleanup(wd)


# =========================================================================== C05
BAD_TEXTS = [
    [W("b"), EQ, L("trace"), COMMA, W("a"), WS, W("b")],           # "b=trace,a b"   salvageable
    [L("trace"), SLASH, W("a"), SLASH, W("b")],                    # "trace/a/b"     broken structure
    [L("debug"), SLASH, W("(")],                                   # "debug/("       broken regex
    [W("a"), EQ, W("b"), EQ, L("info")],                           # "a=b=info"
    [W("a"), EQ, W("verbose")],                                    # unknown level
    [L("info"), COMMA, W("a"), WS, EQ, WS, L("debug"), COMMA, W("x"), WS, W("y"), EQ, L("warn")],
]


def _rand_c05(rng, tier):
    out = []
    n = 300 if tier == "quick" else 6000
    hows = ["mf", "builder"]
    for i in range(n):
        pool = [rand_spec(rng) for _ in range(4)]
        if i % 3 == 1:
            # specifications that differ ONLY in the text filter (same module filters): added, replaced, removed
            base = rand_spec(rng, p_re=0.0)
            pool = [dict(base, hasre=bool(r_), re=list(r_)) for r_ in ([], ["a"], ["b", "a"], ["a", "b"])]
            rng.shuffle(pool)
        s0 = pool[0]
        steps = [{"op": "Build", "spec": s0, "how": rng.choice(["mf", "builder", "parse"]), "rtoks": render(s0)}]
        depth = 0
        for _ in range(rng.choice([6, 12, 25])):
            x = rng.random()
            if x < 0.15:
                steps.append({"op": "Set", "spec": rng.choice(pool), "how": rng.choice(hows)})
            elif x < 0.3:
                s = rng.choice(pool)
                steps.append({"op": "ParseNew", "toks": render(s, rng) if rng.random() < 0.6 else rng.choice(BAD_TEXTS)})
            elif x < 0.5:
                steps.append({"op": "Push", "spec": rng.choice(pool), "how": rng.choice(hows)})
                depth += 1
            elif x < 0.75:
                s = rng.choice(pool)
                steps.append({"op": "ParsePush", "toks": render(s, rng) if rng.random() < 0.5 else rng.choice(BAD_TEXTS)})
                depth += 1
            else:
                steps.append({"op": "Pop"})
                depth -= 1
        for _ in range(max(0, depth) + 1 if rng.random() < 0.5 else 0):
            steps.append({"op": "Pop"})
        out.append(_ops(steps, "rand", refs=True))
    return out


def _facts_c05(begin, ev, sl, pred):
    before = [e for e in sl if ev is not None and e.get("n", 0) < ev.get("n", 0)]
    return {"rejected_parse_push_before": any(e.get("ev") == "ParsePush" and e.get("ret") == "err" for e in before),
            "rejected_parse_new_before": any(e.get("ev") == "ParseNew" and e.get("ret") == "err" for e in before)}


def C05(tier, seed):
    pid, mon = "C05", "MonC05"
    t0 = time.time()
    wd = C.workdir(pid)
    try:
        build_s = _prepare()
        st = _new_stats()
        quick = tier == "quick"
        _model_check(pid, wd, [("MCLogSpec.tla", "MCLogSpec_C05q.cfg" if quick else "MCLogSpec_C05t.cfg", 8, 3000)], st)
        cex = _as_coded(pid, wd, "MCLogSpec.tla", "MCLogSpec_C05asis.cfg", st, workers=1)
        # one worker: which of several shortest paths reaches a state first then does not depend on scheduling
        reps = _generate(pid, wd, "MCLogSpec.tla", "MCLogSpec_C05gen.cfg" if quick else "MCLogSpec_C05gent.cfg", st,
                         workers=1)
        for r in reps:
            r["cfg"] = {}
        reps = C.drop_prefixes(reps)
        nall = len(reps)
        rng = random.Random(seed)
        limit = 6000 if quick else 40000
        if nall > limit:
            rng.shuffle(reps)
            reps = reps[:limit]
        hows = ["mf", "builder", "parse"]

        def conv(r, origin):
            steps = []
            for k, s in enumerate(r["steps"]):
                s = dict(s)
                if s["op"] == "Build":
                    s["how"] = hows[(len(r["steps"]) + k) % 3]
                elif s["op"] in ("Set", "Push"):
                    s["how"] = hows[k % 2]
                steps.append(s)
            return _ops(steps, origin, refs=True)

        scens = [conv(r, "tlc:path") for r in reps]
        scens += [conv(r, "tlc:cex") for r in cex[:4]]
        n_model = len(scens)
        scens += _rand_c05(rng, tier)
        scens += [dict(s, origin="regress:" + str(s.get("origin", ""))) for s in _regress("C05.ndjson")]
        scens = _number(scens)
        res = _run(pid, mon, scens, wd)
        C.log(f"[{pid}] executed {res['scenarios']} scenarios / {res['events']} events on the real code ({n_model} from "
              f"TLC out of {nall} maximal behaviours); judged by {mon}.tla in {res['wall_s']}s; "
              f"{len(res['bads'])} predicate failures; counters {res['counts']}")
        distinct = len({json.dumps(s["steps"], sort_keys=True) for s in scens if len(s["steps"]) >= 2})
        return _finish(pid, tier, seed, t0, build_s, st, scens, res, mon,
                       rule="(a) one maximal behaviour per distinct (state, last call) of the bounded LogSpec model: all "
                            "sequences of set_new_spec / parse_new_spec / push_temp_spec / parse_and_push_temp_spec / "
                            "pop_temp_spec over 3 distinguishable specifications (one with text filter), their 3 rendered "
                            "strings and 2-3 malformed strings (salvageable part, broken '/' structure, broken regex), "
                            "pops on the empty stack, up to 5 (quick) / 6 (thorough) calls; plus TLC's counterexample of "
                            "the as-coded model; (b) seeded random histories of 6-25 calls over random specifications and "
                            "a catalogue of malformed strings, nested pushes. After every call: enabled() grid, one record "
                            "per (message, target, level) into a recording writer, log::max_level(). distinct = distinct "
                            "step lists with at least one call after the build",
                       assumptions=A_SPEC + ["one LoggerHandle, single thread (concurrent changes: C12)"],
                       distinct=distinct, extra_facts=_facts_c05)
    finally:
        _cleanup(wd)


# =========================================================================== C17
UNI_PIECES = ["info", "INFO", "Info", "iNfO", "warn", "WARN", "error", "Error", "debug", "trace", "TRACE", "off", "OFF",
              "Off", "a", "b", "a::b", "crate_1::mod", "x", "1", "5", "0", "-1", "=", "=", "=", ",", ",", ",", "/", " ",
              " ", "  ", "\t", "\n", " ", " ", "　", "​", "İnfo", "ınfo", "warń",
              "K", "ẞ", "ﬁ", "\U0001f600", "\u0000", "(", ")", "[", "]", "*", "+", "?", "\\", "|", "^", "$",
              ".", "{", "}", "'", "\"", "#", "‮", "﻿", "é", "é", "中文", "퟿", ""]


def _rand_strings(rng, n):
    out = []
    for _ in range(n):
        k = rng.choice([1, 2, 3, 5, 8, 12, 20])
        parts = []
        for _ in range(k):
            if rng.random() < 0.85:
                parts.append(rng.choice(UNI_PIECES))
            else:
                cp = rng.choice([rng.randint(0x20, 0x7e), rng.randint(0xa0, 0x2fff), rng.randint(0x10000, 0x1ffff),
                                 rng.randint(1, 0x1f)])
                parts.append(chr(cp))
        out.append("".join(parts))
    return out


def C17(tier, seed):
    pid, mon = "C17", "MonC17"
    t0 = time.time()
    wd = C.workdir(pid)
    try:
        build_s = _prepare()
        st = _new_stats()
        quick = tier == "quick"
        if quick:
            mc = [("MCSpecText.tla", "MCSpecText_toksq.cfg", 8, 600), ("MCSpecText.tla", "MCSpecText_specsq.cfg", 8, 600)]
            gens_t, gens_s = ["MCSpecText_toksqgen.cfg"], "MCSpecText_specsqgen.cfg"
        else:
            mc = [("MCSpecText.tla", "MCSpecText_tokst.cfg", 8, 3000), ("MCSpecText.tla", "MCSpecText_toks7.cfg", 8, 3000),
                  ("MCSpecText.tla", "MCSpecText_specst.cfg", 8, 3000)]
            gens_t, gens_s = ["MCSpecText_tokstgen.cfg", "MCSpecText_toks7gen.cfg"], "MCSpecText_specstgen.cfg"
        _model_check(pid, wd, mc, st)
        rng = random.Random(seed)
        steps = []
        seen = set()
        for g in gens_t:
            for r in _generate(pid, wd, "MCSpecText.tla", g, st, timeout=3000):
                key = "\x00".join(t["s"] for t in r["toks"]) + "|" + str(len(r["toks"]))
                if key in seen:
                    continue
                seen.add(key)
                steps.append({"op": "Parse", "toks": r["toks"]})
        n_tok = len(steps)
        specs = _generate(pid, wd, "MCSpecText.tla", gens_s, st, timeout=3000)
        for i, r in enumerate(specs):
            # the model's own rendering, parsed by the code
            steps.append({"op": "Parse", "toks": r["rtoks"]})
            for via in ("display", "toml"):
                for how in ("mf", "builder"):
                    steps.append({"op": "RoundTrip", "spec": r["spec"], "via": via, "how": how})
        # specfile round trips create inotify watchers (limited per user): all in ONE scenario, hence one process
        sf_steps = [{"op": "RoundTrip", "spec": specs[i]["spec"], "via": "specfile", "how": "mf"}
                    for i in rng.sample(range(len(specs)), min(40 if quick else 300, len(specs)))]
        for i in range(300 if quick else 5000):
            s = rand_spec(rng, p_re=0)
            steps.append({"op": "RoundTrip", "spec": s, "via": rng.choice(["display", "toml"]), "how": rng.choice(["mf", "builder"])})
            steps.append({"op": "Parse", "toks": render(s, rng)})
        n_model = len(steps)
        rs = _rand_strings(rng, 4000 if quick else 150000)
        steps += [{"op": "Parse", "text": s} for s in rs]
        C.log(f"[{pid}] {n_tok} token strings and {len(specs)} specifications from TLC, {len(rs)} random Unicode strings")
        batch = 50
        scens = [{"kind": "text", "origin": "tlc+rand", "targets": PLAIN_MODS, "steps": steps[i:i + batch]}
                 for i in range(0, len(steps), batch)]
        scens.append({"kind": "text", "origin": "tlc:specfile", "targets": PLAIN_MODS, "steps": sf_steps})
        scens += [dict(s, origin="regress:" + str(s.get("origin", ""))) for s in _regress("C17.ndjson")]
        scens = _number(scens)
        res = _run(pid, mon, scens, wd)
        C.log(f"[{pid}] executed {res['scenarios']} scenarios / {res['events']} events on the real code; judged by "
              f"{mon}.tla in {res['wall_s']}s; {len(res['bads'])} predicate failures; counters {res['counts']}")
        distinct = len({json.dumps(x, sort_keys=True) for s in scens for x in s["steps"]
                        if x.get("toks") or x.get("text") or x.get("spec", {}).get("f")})
        return _finish(pid, tier, seed, t0, build_s, st, scens, res, mon,
                       rule="(a) every token string up to length 5 over {a, info, Warn, '=', ',', '/', blank, '('} (quick); "
                            "up to 5 over these plus {OFF, 1, ::} and up to 7 over {a, info, '=', ',', '/', blank} "
                            "(thorough), enumerated by TLC and parsed by the code; expected verdict and salvaged parts "
                            "from SpecText (operational Parse and declarative WellFormed/WfParts, checked against each "
                            "other by TLC); (b) every specification of the bounded universe: Display and TOML round trip "
                            "(built two ways), the model's rendering parsed by the code, specfile written and re-read by "
                            "build_with_specfile (sample); (c) seeded random Unicode strings (level words in odd case, "
                            "Unicode blanks, case-folding traps, regex metacharacters, control characters). One case = "
                            "one Parse / RoundTrip event; distinct = distinct non-empty inputs",
                       assumptions=A_SPEC + ["the harness lexer (split on '=' ',' '/' and Unicode white space, level word "
                                             "by lower-casing) is input preprocessing; it is cross-checked on every "
                                             "TLC-generated string (predicate ToolLexerAgrees)",
                                             "validity of the text behind '/' as a regular expression is an input fact taken "
                                             "from the regex crate",
                                             "the regex filter is not part of the Display / TOML round trip (property text)"],
                       distinct=distinct, tool_preds=("ToolLexerAgrees",))
    finally:
        _cleanup(wd)


# =========================================================================== C12
S0 = {"f": [], "d": 3, "hasre": False, "re": []}
CS = [{"f": [{"n": ["a"], "l": 5}], "d": -1, "hasre": False, "re": []},
      {"f": [], "d": 1, "hasre": False, "re": []},
      {"f": [{"n": ["b"], "l": 3}], "d": 2, "hasre": True, "re": ["a", "b"]},
      {"f": [{"n": ["a", "b"], "l": 4}, {"n": ["info"], "l": 0}], "d": 0, "hasre": False, "re": []}]


def _conc(progs, steps, origin, init=S0, tag=None, writer=None):
    s = {"kind": "conc", "origin": origin, "init": init, "targets": PLAIN_T, "msgs": MSGS, "progs": progs,
         "steps": steps}
    if tag:
        s["tag"] = tag
    if writer:
        s["writer"] = writer
    return s


def _race_c12(rng, tier):
    """free-running races (no schedule): all threads are released at once and run uncontrolled; reaches windows that lie
    between the hook points. Pairs/triples of specifications with equal and with different maximum levels."""
    hi = [{"f": [{"n": ["a"], "l": 5}], "d": -1, "hasre": False, "re": []},
          {"f": [{"n": ["b"], "l": 5}], "d": 2, "hasre": False, "re": []},
          {"f": [], "d": 5, "hasre": False, "re": []}]
    lo = [{"f": [], "d": 1, "hasre": False, "re": []}, {"f": [{"n": ["a"], "l": 1}], "d": 0, "hasre": False, "re": []}]
    out = []
    for i in range(3000 if tier == "quick" else 40000):
        if i % 2 == 0:
            # one call keeps the maximum level of the active specification, a concurrent one lowers it
            init = rng.choice(hi)
            progs = [[{"op": "Set", "spec": rng.choice([x for x in hi if x != init])}], [{"op": "Set", "spec": rng.choice(lo)}]]
            if rng.random() < 0.3:
                progs.append([{"op": "Set", "spec": rng.choice(hi + lo)}])
            rng.shuffle(progs)
        else:
            init = rng.choice(hi + lo + CS)
            nt = rng.choice([2, 2, 3])
            progs = []
            for t in range(nt):
                pool = hi if (t + i) % 2 == 0 else lo
                progs.append([{"op": "Set", "spec": rng.choice(pool + CS)} for _ in range(rng.choice([1, 1, 2]))])
        push = i % 3 == 1
        if push:
            # push_temp_spec instead of set_new_spec in one of the racing calls (same duty: specification and gate
            # must change together); with an additional writer, whose max_log_level() is foreign code inside the
            # gate computation and takes a seeded random time in race scenarios
            pr = rng.choice(progs)
            pr[rng.randrange(len(pr))]["op"] = "Push"
        out.append(_conc(progs, [], "race", init=init,
                         writer=({"on": True, "c": rng.choice([1, 3])} if (i % 3 == 0 or (push and i % 2 == 0)) else None)))
    return out


def _watch_c12(rng, tier):
    """The specfile watcher as a further source of concurrent changes: the logger is started with a specification
    file; one thread rewrites the file (1-2 edits) while 1-2 others call set_new_spec on handle clones - at once and
    around the instant at which the watcher thread applies the edit through WritersHandle::set_new_spec (its debounce
    time, about 1 s, after the edit). Judged after that. Specifications without regex (the TOML form does not carry it)."""
    pool = [x for x in CS if not x["hasre"]] + [
        {"f": [{"n": ["a"], "l": 5}], "d": -1, "hasre": False, "re": []},
        {"f": [{"n": ["b"], "l": 5}], "d": 2, "hasre": False, "re": []},
        {"f": [], "d": 5, "hasre": False, "re": []}, {"f": [], "d": 1, "hasre": False, "re": []},
        {"f": [{"n": ["a"], "l": 1}], "d": 0, "hasre": False, "re": []}]
    out = []
    for i in range(16 if tier == "quick" else 320):
        init = rng.choice(pool)
        progs = [[{"op": "File", "spec": rng.choice([x for x in pool if x != init])} for _ in range(rng.choice([1, 2]))]]
        for _ in range(rng.choice([1, 1, 2])):
            prog = [{"op": "Set", "spec": rng.choice(pool)}, {"op": "Sleep", "ms": rng.randint(850, 1000)}]
            for _ in range(rng.choice([4, 8, 12])):
                prog += [{"op": "Set", "spec": rng.choice(pool)}, {"op": "Sleep", "ms": rng.choice([1, 5, 20, 40])}]
            progs.append(prog)
        rng.shuffle(progs)
        s_ = _conc(progs, [], "watch", init=init, writer=({"on": True, "c": rng.choice([1, 3])} if i % 3 == 0 else None))
        s_["specfile"] = True
        out.append(s_)
    return out


def _rand_c12(rng, tier):
    """random interleavings of longer programs (valid for the as-coded atomicity: no lock across the gate write)"""
    out = []
    for _ in range(150 if tier == "quick" else 4000):
        nt = rng.choice([2, 3, 3])
        progs, seqs = [], []
        for t in range(nt):
            prog = []
            depth = 0
            for _ in range(rng.choice([1, 2, 3])):
                x = rng.random()
                if x < 0.5:
                    prog.append({"op": "Set", "spec": rng.choice(CS)})
                elif x < 0.8 or depth == 0:
                    prog.append({"op": "Push", "spec": rng.choice(CS)})
                    depth += 1
                else:
                    prog.append({"op": "Pop", "spec": S0})
                    depth -= 1
            progs.append(prog)
            seqs.append([{"t": t + 1, "st": st} for _ in prog for st in ("prep", "spec", "gate")])
        steps = []
        while any(seqs):
            q = rng.choice([s for s in seqs if s])
            steps.append(q.pop(0))
        out.append(_conc(progs, steps, "rand"))
    return out


def _facts_c12(begin, ev, sl, pred):
    """The final specification is the one of the call whose specification write came last, the final gate the one of
    the call whose gate write came last: are these two different calls?"""
    calls = {}
    last_spec = last_gate = None
    for e in sl:
        if e.get("ev") != "Step" or e.get("ret") != "ok":
            continue
        t = e.get("t")
        if e.get("st") == "spec":
            last_spec = (t, calls.get(t, 0))
        elif e.get("st") == "gate":
            last_gate = (t, calls.get(t, 0))
            calls[t] = calls.get(t, 0) + 1
    return {"gate_write_overtaken": last_spec is not None and last_spec != last_gate,
            "sched": ev.get("sched") if ev else None}


def C12(tier, seed):
    pid, mon = "C12", "MonC12"
    t0 = time.time()
    wd = C.workdir(pid)
    try:
        build_s = _prepare()
        st = _new_stats()
        quick = tier == "quick"
        # which atomicity does the code implement? thread 1 parked between specification and gate update:
        # can thread 2 replace the specification?
        probe = _number([_conc([[{"op": "Set", "spec": CS[0]}], [{"op": "Set", "spec": CS[1]}]],
                               [{"t": 1, "st": "prep"}, {"t": 2, "st": "prep"}, {"t": 1, "st": "spec"},
                                {"t": 2, "st": "spec"}, {"t": 1, "st": "gate"}, {"t": 2, "st": "gate"}], "probe")])
        probe[0]["block_ms"] = 1000
        pf, ptf = os.path.join(wd, "probe.ndjson"), os.path.join(wd, "probe-trace.ndjson")
        open(pf, "w").write(json.dumps(probe[0]) + "\n")
        C.exec_flw(pf, ptf, sub=SUB)
        locked = any(json.loads(x).get("ret") == "blocked" for x in open(ptf))
        C.log(f"[{pid}] atomicity probe: the gate is written "
              + ("while the specification lock is held" if locked else "after the specification lock is released"))
        sfx = "L" if locked else ""
        _model_check(pid, wd, [("MCLogSpec.tla", "MCLogSpec_C12ideal.cfg", 4, 600)], st)
        # the model with the atomicity the unrepaired code has (gate written after the lock is released)
        cex = [] if locked else _as_coded(pid, wd, "MCLogSpec.tla", "MCLogSpec_C12asis.cfg", st, workers=1)
        gens = [f"MCLogSpec_C12gen2{sfx}.cfg", (f"MCLogSpec_C12gen3{sfx}.cfg" if quick else f"MCLogSpec_C12gen3t{sfx}.cfg")]
        scens = []
        for g in gens:
            for r in _generate(pid, wd, "MCLogSpec.tla", g, st):
                scens.append(_conc(r["cfg"]["progs"], [s for s in r["steps"] if "t" in s], "tlc:" + g,
                                   init=r["steps"][0]["spec"]))
        if not locked:
            # TLC's counterexample of the as-coded atomicity is executable on this code
            for r in cex[:2]:
                scens.append(_conc(r["cfg"]["progs"], [s for s in r["steps"] if "t" in s], "tlc:cex",
                                   init=r["steps"][0]["spec"]))
        n_model = len(scens)
        rng = random.Random(seed)
        if not locked:
            scens += _rand_c12(rng, tier)
            scens += [dict(s, origin="regress:" + str(s.get("origin", ""))) for s in _regress("C12.ndjson")]
        # the same with an additional writer registered (its max level takes part in the gate computation): own probe,
        # own model variant
        wr = {"on": True, "c": 1}
        probe_w = _number([dict(probe[0], writer=wr)])
        open(pf, "w").write(json.dumps(probe_w[0]) + "\n")
        C.exec_flw(pf, ptf, sub=SUB)
        locked_w = any(json.loads(x).get("ret") == "blocked" for x in open(ptf))
        C.log(f"[{pid}] atomicity probe with an additional writer: the gate is written "
              + ("while the specification lock is held" if locked_w else "after the specification lock is released"))
        sfx_w = "L" if locked_w else ""
        for r in _generate(pid, wd, "MCLogSpec.tla", f"MCLogSpec_C12gen2{sfx_w}.cfg", st):
            scens.append(_conc(r["cfg"]["progs"], [s_ for s_ in r["steps"] if "t" in s_], "tlc:gen2+writer",
                               init=r["steps"][0]["spec"], writer=wr))
        scens += _race_c12(rng, tier)
        # (slow: each waits for the watcher's debounce time; first in the list = spread evenly over the shards)
        scens = _watch_c12(rng, tier) + scens
        scens = _number(scens)
        res = _run(pid, mon, scens, wd)
        C.log(f"[{pid}] executed {res['scenarios']} schedules / {res['events']} events on the real code ({n_model} from "
              f"TLC); judged by {mon}.tla in {res['wall_s']}s; {len(res['bads'])} predicate failures; "
              f"counters {res['counts']}")
        distinct = len({json.dumps([s["progs"], s["steps"]], sort_keys=True) for s in scens})
        return _finish(pid, tier, seed, t0, build_s, st, scens, res, mon,
                       rule="every interleaving of the three steps (up to sc:sns_enter / specification replaced under the "
                            "lock / gate written) of 2 concurrent calls for all ordered pairs of 3 specifications with "
                            "different maximum levels and module sets, push/pop nesting against set, two calls in a row; "
                            "3 threads: one behaviour per distinct model state (quick) / every interleaving (thorough); "
                            "TLC's counterexample of the as-coded atomicity; seeded random interleavings of 2-3 threads x "
                            "1-3 calls. Each schedule is replayed deterministically by parking the threads at the sc:sns_* "
                            "points; judged on the observation after all threads have been joined. distinct = distinct "
                            "(programs, schedule) pairs; every schedule has at least two racing calls",
                       assumptions=A_SPEC + ["the three hook points sc:sns_enter / sc:sns_updated / sc:sns_exit delimit all "
                                             "accesses of set_new_spec to shared state; races at other points are not "
                                             "explored", "specfile watcher: edits of the file race with set_new_spec calls "
                                             "on handle clones (16 quick / 320 thorough free-running scenarios, judged once "
                                             "the watcher has applied the last edit); its steps are not scheduled"],
                       distinct=distinct, extra_facts=_facts_c12,
                       extra_cov={"gate_written_under_lock": locked})
    finally:
        _cleanup(wd)
