"""bin/check replay <file>: re-execute the scenario of a replay file on the real code and judge it again."""
import json
import os
import shutil

from . import common as C

MON = {}


def run(path):
    r = json.load(open(path))
    pid = r["property"]
    from . import checks
    mon = r.get("monitor") or checks.MONITOR.get(pid, "Mon" + pid)
    sub = r.get("executor") or checks.EXECUTOR.get(pid, "flw")
    C.build_harness()
    wd = C.workdir("replay")
    try:
        sf = os.path.join(wd, "scen.ndjson")
        tf = os.path.join(wd, "trace.ndjson")
        sc = r["scenario"]
        open(sf, "w").write(json.dumps(sc) + "\n")
        tz = ((r.get("trace") or [{}])[0] or {}).get("tz")
        C.exec_flw(sf, tf, sub=sub, env={"TZ": tz} if tz else None)
        bads, counts, consumed, n = C.judge(mon, tf, os.path.join(wd, "meta"))
        for line in open(tf):
            e = json.loads(line)
            files = [(f["name"], [x[0] for x in f.get("recs", [])]) for f in e.get("obs", {}).get("files", [])]
            C.log(f"  {e.get('n')} {e.get('ev')} ret={e.get('ret')} t={e.get('t')} {files}")
        for b in bads:
            C.log(f"  predicate {b[2]} fails at event {b[1]}")
        again = any(b[2] == r["predicate"] for b in bads)
        if again:
            C.log(f"VIOLATION property={pid} replay={path}")
            return 1
        C.log(f"[replay] predicate {r['predicate']} holds on the current tree")
        return 0
    finally:
        shutil.rmtree(wd, ignore_errors=True)
