"""Shared plumbing for bin/check: paths, harness build, TLC runners, sharded execution,
triage against known_findings.json, evidence writing. No third-party packages."""
import fcntl
import json
import os
import re
import shutil
import subprocess
import sys
import time
from concurrent.futures import ThreadPoolExecutor

VERIF = os.path.dirname(os.path.dirname(os.path.dirname(os.path.abspath(__file__))))
SPEC = os.path.join(VERIF, "spec")
# the three overrides below exist for bin/seedtest only (checks against a scratch copy of the repository)
HARNESS = os.environ.get("VERIF_HARNESS") or os.path.join(VERIF, "harness")
FLV = os.path.join(HARNESS, "target", "release", "flv")
EVID = os.environ.get("VERIF_EVID") or os.path.join(VERIF, "evidence")
REPLAYS = os.environ.get("VERIF_REPLAYS") or os.path.join(VERIF, "replays")
KF_FILE = os.path.join(VERIF, "known_findings.json")
TLA_CP = "/opt/veriftools/tla/tla2tools.jar:/opt/veriftools/tla/CommunityModules-deps.jar"
NCPU = os.cpu_count() or 4


class ToolError(Exception):
    pass


def log(*a):
    print(*a, flush=True)


def workdir(pid):
    d = os.path.join(VERIF, "work", f"{pid}-{os.getpid()}")
    shutil.rmtree(d, ignore_errors=True)
    os.makedirs(d, exist_ok=True)
    return d


def env_offline():
    e = dict(os.environ)
    e.setdefault("CARGO_NET_OFFLINE", "true")
    return e


def build_harness():
    """cargo build --release of the harness; rebuilds flexi_logger from /repo's working tree."""
    os.makedirs(os.path.join(VERIF, "work"), exist_ok=True)
    lock = open(os.path.join(VERIF, "work", ".build.lock"), "w")
    fcntl.flock(lock, fcntl.LOCK_EX)
    try:
        t = time.time()
        p = subprocess.run(
            ["cargo", "build", "--release", "--offline"],
            cwd=HARNESS, env=env_offline(), stdout=subprocess.PIPE, stderr=subprocess.STDOUT, text=True)
        if p.returncode != 0:
            sys.stdout.write(p.stdout[-6000:])
            raise ToolError("harness build failed (does /repo still compile with --cfg flexi_logger_verif?)")
        return time.time() - t
    finally:
        fcntl.flock(lock, fcntl.LOCK_UN)
        lock.close()


# --------------------------------------------------------------------------- TLC
def _java(xmx, extra=()):
    return ["java", "-XX:+UseParallelGC", f"-Xmx{xmx}", "-Xss256m", *extra, "-cp", TLA_CP, "tlc2.TLC"]


_tuple_re = re.compile(r'^<<"(REPLAY|BAD|COUNTS|CONSUMED|NOTE|STAT|REACHED)",\s*(.*)>>\s*$')


def run_tlc(module, cfg, metadir, workers=4, timeout=600, env=None, xmx="6g", extra_args=(), simulate=None):
    """Runs TLC; returns dict(out, rc, states, distinct, depth, violated, printed).
    `printed` = list of (tag, rest-of-line) for the tagged PrintT tuples."""
    os.makedirs(metadir, exist_ok=True)
    cmd = _java(xmx) + ["-workers", str(workers), "-metadir", metadir, "-cleanup", "-noGenerateSpecTE",
                        "-config", cfg, *extra_args]
    if simulate:
        cmd += ["-simulate", simulate]
    cmd.append(module)
    e = dict(os.environ)
    if env:
        e.update(env)
    t = time.time()
    try:
        p = subprocess.run(cmd, cwd=SPEC, env=e, stdout=subprocess.PIPE, stderr=subprocess.STDOUT, text=True,
                           timeout=timeout)
    except subprocess.TimeoutExpired as ex:
        raise ToolError(f"TLC timeout after {timeout}s: {module} {cfg}") from ex
    out = p.stdout
    res = {"out": out, "rc": p.returncode, "wall_s": round(time.time() - t, 2), "cmd": " ".join(cmd[-8:])}
    m = re.search(r"(\d+) states generated, (\d+) distinct states found", out)
    res["states"] = int(m.group(2)) if m else 0
    res["transitions"] = int(m.group(1)) if m else 0
    m = re.search(r"depth of the complete state graph search is (\d+)", out)
    res["depth"] = int(m.group(1)) if m else 0
    res["violated"] = re.findall(r"Error: Invariant (\S+) is violated", out) + \
        re.findall(r"Error: Action property (\S+) is violated", out) + \
        (["<temporal>"] if "Temporal properties were violated" in out else [])
    res["deadlock"] = "Deadlock reached" in out
    printed = []
    for line in out.splitlines():
        mm = _tuple_re.match(line)
        if mm:
            printed.append((mm.group(1), mm.group(2)))
    res["printed"] = printed
    ok_rc = p.returncode in (0, 12, 13)  # 12 = safety violation, 13 = liveness violation
    if not ok_rc or ("Error:" in out and not res["violated"] and not res["deadlock"]):
        tail = "\n".join(out.splitlines()[-40:])
        raise ToolError(f"TLC failed rc={p.returncode} for {module} {cfg}:\n{tail}")
    return res


def replay_lines(res):
    """JSON payloads of the REPLAY tuples of a TLC run."""
    outl = []
    for tag, rest in res["printed"]:
        if tag == "REPLAY":
            s = rest.strip()
            # rest is a TLA+ string literal: "…" with \" and \\ escapes
            outl.append(json.loads(json.loads(s)))
    # TLC's workers print in a nondeterministic order: a canonical order makes every seeded sample reproducible
    outl.sort(key=lambda x: json.dumps(x, sort_keys=True))
    return outl


def drop_prefixes(scens):
    """Keep only scenarios whose step list is not a proper prefix of another scenario with the same cfg."""
    by = {}
    for s in scens:
        key = json.dumps(s["cfg"], sort_keys=True)
        by.setdefault(key, []).append(s)
    keep = []
    for key, lst in by.items():
        items = sorted(((tuple(json.dumps(st, sort_keys=True) for st in s["steps"]), s) for s in lst),
                       key=lambda x: x[0])
        for i, (steps, s) in enumerate(items):
            if i + 1 < len(items):
                nxt = items[i + 1][0]
                if len(nxt) > len(steps) and nxt[:len(steps)] == steps:
                    continue
            keep.append(s)
    return keep


# --------------------------------------------------------------------------- execution + judging
def shard(lst, n):
    n = max(1, min(n, len(lst)))
    return [lst[i::n] for i in range(n)]


def _thorough():
    return os.environ.get("VERIF_TIER", "quick") != "quick"


def exec_flw(scen_file, trace_file, timeout=None, sub="flw", extra=(), env=None):
    if timeout is None:
        timeout = 5400 if _thorough() else 900
    e = dict(os.environ)
    e.setdefault("TZ", "UTC")
    if env:
        e.update(env)
    p = subprocess.run([FLV, sub, scen_file, trace_file, *extra], stdout=subprocess.PIPE, stderr=subprocess.PIPE,
                       text=True, timeout=timeout, env=e)
    if p.returncode != 0:
        raise ToolError(f"flv {sub} failed rc={p.returncode}: {p.stderr[-2000:]}")
    m = re.search(r"scenarios=(\d+) events=(\d+)", p.stdout)
    return (int(m.group(1)), int(m.group(2))) if m else (0, 0)


def judge(mon, trace_file, metadir, timeout=None, env=None):
    """Runs a monitor module over a trace; returns (bads, counts, consumed, nlines)."""
    if timeout is None:
        timeout = 900 if os.environ.get("VERIF_TIER", "quick") == "quick" else 5400
    nlines = sum(1 for _ in open(trace_file))
    if nlines == 0:
        return [], [], 0, 0
    e = {"TRACE": trace_file}
    if env:
        e.update(env)
    res = run_tlc(f"{mon}.tla", os.path.join(SPEC, "Mon.cfg"), metadir, workers=1, timeout=timeout, env=e, xmx="3g")
    bads, counts, consumed = [], [], 0
    for tag, rest in res["printed"]:
        if tag == "BAD":
            m = re.match(r'\s*(-?\d+),\s*(-?\d+),\s*"([^"]*)"', rest)
            if not m:
                raise ToolError(f"unparsable BAD line: {rest}")
            bads.append((int(m.group(1)), int(m.group(2)), m.group(3)))
        elif tag == "COUNTS":
            counts = [int(x) for x in re.findall(r"-?\d+", rest)]
        elif tag == "CONSUMED":
            consumed = int(re.findall(r"\d+", rest)[0])
    if consumed != nlines:
        tail = "\n".join(res["out"].splitlines()[-30:])
        raise ToolError(f"monitor {mon} consumed {consumed} of {nlines} trace lines ({trace_file})\n{tail}")
    return bads, counts, consumed, nlines


def run_sharded(pid, mon, scens, wd, sub="flw", nshards=None, mon_env=None, exec_extra=(), shard_env=None):
    """Write scenarios into shards, execute them on the real code, judge every shard trace with TLC.
    Returns dict(bads=[(sc,n,pred)], counts=[...], events, traces=[files])."""
    par = min(12, NCPU - 2 if NCPU > 4 else NCPU)
    # thorough: three times as many (smaller) shards, executed and judged in waves of `par`
    nshards = nshards or (par * 3 if _thorough() else par)
    if scens and "grp" in scens[0]:
        # scenarios of one group are compared with each other: keep them together and in order
        groups = {}
        for s in scens:
            groups.setdefault(s["grp"], []).append(s)
        gl = list(groups.values())
        shards = [[s for g in part for s in g] for part in shard(gl, nshards)]
    else:
        shards = shard(scens, nshards)
    files = []
    for i, sh in enumerate(shards):
        sf = os.path.join(wd, f"{mon}-scen-{i}.ndjson")
        with open(sf, "w") as f:
            for s in sh:
                f.write(json.dumps(s) + "\n")
        files.append((sf, os.path.join(wd, f"{mon}-trace-{i}.ndjson"), os.path.join(wd, f"{mon}-meta-{i}"),
                      shard_env(i) if shard_env else None))

    def one(t):
        sf, tf, md, senv = t
        nsc, nev = exec_flw(sf, tf, sub=sub, extra=exec_extra, env=senv)
        bads, counts, consumed, nlines = judge(mon, tf, md, env=mon_env)
        return nsc, nev, bads, counts

    t = time.time()
    with ThreadPoolExecutor(max_workers=min(len(files), par)) as ex:
        results = list(ex.map(one, files))
    bads, counts, events, nsc = [], [], 0, 0
    for r in results:
        nsc += r[0]
        events += r[1]
        bads += r[2]
        if r[3]:
            counts = [a + b for a, b in zip(counts, r[3])] if counts else list(r[3])
    return {"bads": bads, "counts": counts, "events": events, "scenarios": nsc,
            "traces": [f[1] for f in files], "scen_files": [f[0] for f in files], "wall_s": round(time.time() - t, 2)}


# --------------------------------------------------------------------------- triage
def load_known():
    if not os.path.exists(KF_FILE):
        return []
    return json.load(open(KF_FILE)).get("findings", [])


def collect_slices(traces, scs):
    """One pass over the traces: {sc: [events]} for the scenarios in `scs`."""
    want = set(scs)
    out = {}
    rx = re.compile(r'"sc":(-?\d+)')
    for tf in traces:
        for line in open(tf):
            m = rx.search(line[-60:]) or rx.search(line)
            if not m or int(m.group(1)) not in want:
                continue
            e = json.loads(line)
            if e.get("sc") in want:
                out.setdefault(e["sc"], []).append(e)
    return out


def facts_of(begin, ev, sl):
    f = {}
    if begin:
        for k, v in (begin.get("norm") or {}).items():
            f[k] = v
        for k, v in (begin.get("tag") or {}).items():
            f["tag." + k] = v
    if ev:
        f["ev"] = ev.get("ev")
        f["ret"] = (ev.get("ret") or "").split(":")[0]
    # append flag of the run in which the event happened, number of runs so far
    runs = 0
    for e in sl:
        if e.get("ev") == "Start":
            runs += 1
            f["append"] = e.get("append")
        if ev is not None and e.get("n") == ev.get("n"):
            break
    f["runs"] = runs
    f["suffix_dot"] = "." in str(f.get("suffix", ""))
    f["multi_run"] = runs > 1
    return f


def matches(finding, pid, pred, facts):
    if finding.get("property") != pid or finding.get("status") != "open":
        return False
    preds = finding.get("preds")
    if preds and pred not in preds:
        return False
    for k, v in (finding.get("match") or {}).items():
        fv = facts.get(k)
        if isinstance(v, list):
            if fv not in v:
                return False
        elif fv != v:
            return False
    return True


def triage(pid, bads, traces, scen_files, extra_facts=None, executor=None, monitor=None):
    """Splits monitor failures into known findings and violations; writes replay files for violations.
    Returns (violations=[dict], known=[(finding, count)])."""
    known = load_known()
    kf_hits = {}
    viols = []
    seen_sc = set()
    slices = collect_slices(traces, {b[0] for b in bads})
    for (sc, n, pred) in sorted(bads):
        sl = slices.get(sc, [])
        begin = sl[0] if sl and sl[0].get("ev") == "Begin" else None
        ev = next((e for e in sl if e.get("n") == n), None)
        facts = facts_of(begin, ev, sl)
        if extra_facts:
            facts.update(extra_facts(begin, ev, sl, pred) or {})
        hit = None
        for fnd in known:
            if matches(fnd, pid, pred, facts):
                hit = fnd
                break
        if hit:
            kf_hits.setdefault(hit["id"], [hit, 0])[1] += 1
            continue
        if (sc, pred) in seen_sc:
            continue
        seen_sc.add((sc, pred))
        viols.append({"sc": sc, "n": n, "pred": pred, "facts": facts, "slice": sl})
    # replay files (first few only)
    out = []
    os.makedirs(REPLAYS, exist_ok=True)
    wanted = {v["sc"] for v in viols[:10]}
    scen_by = {}
    for sf in scen_files:
        for line in open(sf):
            m = re.search(r'"sc": ?(-?\d+)', line[:40]) or re.search(r'"sc": ?(-?\d+)', line)
            if m and int(m.group(1)) in wanted:
                scen_by[int(m.group(1))] = json.loads(line)
    for v in viols[:10]:
        scen = scen_by.get(v["sc"])
        path = os.path.join(REPLAYS, f"{pid}-sc{v['sc']}-n{v['n']}-{v['pred']}.json")
        json.dump({"property": pid, "predicate": v["pred"], "at_event": v["n"], "facts": v["facts"],
                   "scenario": scen, "trace": v["slice"], "executor": executor, "monitor": monitor,
                   "rerun": f"bin/check replay {path}"}, open(path, "w"), indent=1)
        v["replay"] = path
        out.append(v)
    for v in viols[10:]:
        v["replay"] = out[0]["replay"] if out else ""
    return viols, list(kf_hits.values())


# --------------------------------------------------------------------------- evidence
def write_evidence(pid, tier, seed, level, coverage, assumptions, wall_s, violations):
    os.makedirs(EVID, exist_ok=True)
    ev = {"property_id": pid, "tier": tier, "seed": int(seed), "level": level, "coverage": coverage,
          "assumptions": assumptions, "wall_s": round(wall_s, 2), "violations": int(violations)}
    tmp = os.path.join(EVID, f".{pid}.json.tmp")
    json.dump(ev, open(tmp, "w"), indent=1)
    os.replace(tmp, os.path.join(EVID, f"{pid}.json"))


def sample_traces(traces, k=2, maxev=12):
    """A few actual scenario traces (compacted) for the evidence file."""
    out = []
    for tf in traces[:k]:
        cur = []
        for line in open(tf):
            e = json.loads(line)
            if e["ev"] == "Begin" and cur:
                break
            c = {"ev": e["ev"]}
            for key in ("len", "id", "ret", "append", "dt", "t"):
                if key in e:
                    c[key] = e[key]
            if e["ev"] == "Begin":
                c["cfg"] = e.get("cfg")
            if "obs" in e:
                c["files"] = [[f["name"], [r[0] for r in f["recs"]]] for f in e["obs"].get("files", [])]
            cur.append(c)
            if len(cur) >= maxev:
                break
        out.append(cur)
    return out


# --------------------------------------------------------------------------- conform mode (TraceFlw.tla)
CONF_OPS = {"Start", "Log", "Trigger", "Flush", "Stop", "Adv", "ExtRemove", "ExtRename", "Reopen", "Reset"}
CONF_FMTS = (None, "r%Y-%m-%d_%H-%M-%S", "r%Y-%m-%d_%H-%M", "r%Y%m%d-%H%M%S", "r%Y-%m-%d_%H", "r%Y-%m-%d")


def _conf_cfg(c, base=None):
    m = dict(base or {})
    m.update(c)
    if m.get("mode", "direct") not in ("direct", "buf") or m.get("crlf") or m.get("bg") or m.get("via", "logger") != "logger":
        return False
    if m.get("use_ts") or "." in str(m.get("suffix", "")) or m.get("addw") or m.get("link"):
        return False
    if m.get("naming") in ("TsC", "TsCD") and m.get("fmt") not in CONF_FMTS:
        return False
    return True


def conformable(s):
    """Is the scenario inside the domain of TraceFlw.tla, i.e. the part of the file writer that Flw.tla specifies
    step by step (synchronous write modes, the model's environment discipline: family files are removed only between
    runs; after the current file was renamed/removed under a live writer the next call is reopen_output)?"""
    c = s.get("cfg", {})
    if not _conf_cfg(c) or s.get("resume") or s.get("virt") is False:
        return False
    live = wrote = need = False
    for st in s.get("steps", []):
        op = st.get("op")
        if op not in CONF_OPS:
            return False
        if need and op in ("Reset", "ExtRename", "ExtRemove"):
            return False        # (the model's environment renames/removes the current file once per reopen)
        if op == "Log":
            if st.get("msg") is not None or st.get("target") is not None or st.get("lvl") or st.get("nomod"):
                return False
            wrote = live
        elif op == "Start":
            if live:
                return False
            live, wrote = True, False
        elif op == "Stop":
            live = wrote = need = False
        elif op == "Trigger":
            if c.get("rot", True) and wrote:
                need = False    # a rotation opens a file at a family path again
        elif op == "ExtRemove":
            if live and not (st.get("which", "cur") == "cur" and wrote):
                return False
            if live:
                need = True
        elif op == "ExtRename":
            if not (live and wrote and st.get("which", "cur") == "cur"):
                return False
            need = True
        elif op == "Reopen":
            if not live:
                return False
            need = False
        elif op == "Reset":
            rc = st.get("cfg", {})
            if not live or not _conf_cfg({k: v for k, v in rc.items() if k != "full"}, None if rc.get("full") else c):
                return False
            wrote = False
    return True


def conformable_faults(s):
    """Domain of TraceFlwF.tla (FlwF.tla): as conformable(), restricted to the effects FlwF models - no symlink - and to
    the calls whose error handling it transcribes."""
    c = s.get("cfg", {})
    if not _conf_cfg({k: v for k, v in c.items() if k != "link"}) or s.get("resume") or s.get("virt") is False:
        return False
    live = False
    for st in s.get("steps", []):
        op = st.get("op")
        if op not in ("Fault", "Start", "Log", "Trigger", "Flush", "Stop", "Adv"):
            return False
        if op == "Log" and (st.get("msg") is not None or st.get("target") is not None or st.get("lvl") or st.get("nomod")
                            or st.get("recursive")):
            return False
        if op == "Start":
            if live:
                return False
            live = True
        elif op == "Stop":
            live = False
    return True


def conform(traces, wd, max_rounds=6, module="TraceFlwMC.tla", cfg="TraceFlw.cfg"):
    """Runs TraceFlw over the traces: every event of a conformable scenario must be explained by the corresponding
    action of Flw.tla with equal projected state. Returns dict(scenarios, events, drifts=[(sc, n, ev)])."""
    import concurrent.futures
    cfgp = os.path.join(SPEC, cfg)

    def one(ix_tf):
        ix, tf = ix_tf
        drifts = []
        lines = open(tf).readlines()
        nsc = sum(1 for x in lines if '"ev":"Begin"' in x and '"conf":true' in x)
        nev = 0
        on = False
        for x in lines:
            if '"ev":"Begin"' in x:
                on = '"conf":true' in x
            elif on:
                nev += 1
        if nsc == 0:
            return 0, 0, []
        cur = tf
        for rnd in range(max_rounds):
            res = run_tlc(module, cfgp, os.path.join(wd, f"conf-meta-{ix}-{rnd}"), workers=1,
                          timeout=1200 if os.environ.get("VERIF_TIER", "quick") == "quick" else 3600,
                          env={"TRACE": cur}, xmx="3g")
            consumed = 0
            for tag, rest in res["printed"]:
                if tag == "CONSUMED":
                    consumed = int(re.findall(r"\d+", rest)[0])
            if consumed == len(lines):
                break
            bad = res["depth"]          # states = consumed lines + 1; line number `depth` is the unexplained one
            if bad < 1 or bad > len(lines):
                raise ToolError(f"conform mode: cannot locate the unexplained event ({tf}, depth {bad})")
            e = json.loads(lines[bad - 1])
            drifts.append((e.get("sc"), e.get("n"), e.get("ev")))
            # take the scenario out of the domain and go on
            for j in range(bad - 1, -1, -1):
                if '"ev":"Begin"' in lines[j]:
                    lines[j] = lines[j].replace('"conf":true', '"conf":false')
                    break
            cur = tf + f".conf{rnd}"
            open(cur, "w").writelines(lines)
        return nsc, nev, drifts

    with concurrent.futures.ThreadPoolExecutor(max_workers=max(1, min(12, len(traces)))) as ex:
        rs = list(ex.map(one, enumerate(traces)))
    return {"scenarios": sum(r[0] for r in rs), "events": sum(r[1] for r in rs), "drifts": [d for r in rs for d in r[2]]}


# --------------------------------------------------------------------------- conform mode for free-running threads
def conform_conc(traces, wd, max_rounds=4):
    """TraceFlwConc.tla over the recorded event lists of the traced stress runs of `flv conc`: every execution must be a
    behaviour of FlwConc.tla (one TLC run per shard and write-mode class, because the mode is a constant of FlwConc).
    Returns dict(scenarios, events, sends, drifts=[(sc, n, ev)])."""
    import concurrent.futures
    cfgp = os.path.join(SPEC, "TraceFlwConc.cfg")
    klass = {"direct": "direct", "buf": "buf", "bufflush": "buf", "async": "async"}
    jobs = []
    for ix, tf in enumerate(traces):
        per = {}
        cur = None
        for line in open(tf):
            if '"ev":"Begin"' in line:
                e = json.loads(line)
                cur = klass.get(e.get("cfg", {}).get("mode", "direct")) if e.get("conf") and e.get("nev", 0) > 0 else None
            if cur:
                per.setdefault(cur, []).append(line)
        for k, lines in per.items():
            jobs.append((ix, k, lines))

    def one(job):
        ix, k, lines = job
        nsc = sum(1 for x in lines if '"ev":"Begin"' in x)
        nev = len(lines) - nsc
        drifts = []
        states = 0
        for rnd in range(max_rounds):
            cur = os.path.join(wd, f"cconf-{ix}-{k}-{rnd}.ndjson")
            open(cur, "w").writelines(lines)
            res = run_tlc("TraceFlwConc.tla", cfgp, os.path.join(wd, f"cconf-meta-{ix}-{k}-{rnd}"), workers=1,
                          timeout=1200, env={"TRACE": cur, "MODE": k}, xmx="3g")
            states = max(states, res["states"])
            consumed = reached = 0
            for tag, rest in res["printed"]:
                if tag == "CONSUMED":
                    consumed = int(re.findall(r"\d+", rest)[0])
                if tag == "REACHED":
                    reached = int(re.findall(r"\d+", rest)[0])
            if consumed == len(lines):
                break
            bad = reached + 1           # the first line that no step of the specification explains
            if bad < 1 or bad > len(lines):
                raise ToolError(f"conform mode (threads): cannot locate the unexplained event ({cur}, reached {reached})")
            e = json.loads(lines[bad - 1])
            drifts.append((e.get("sc"), e.get("n"), e.get("ev")))
            # take that scenario out and go on with the others
            b0 = max(j for j in range(bad) if '"ev":"Begin"' in lines[j])
            b1 = next((j for j in range(bad, len(lines)) if '"ev":"Begin"' in lines[j]), len(lines))
            lines = lines[:b0] + lines[b1:]
            if not lines:
                break
        return nsc, nev, drifts, max(0, states - 1 - (len(lines) if not drifts else 0))

    if not jobs:
        return {"scenarios": 0, "events": 0, "sends": 0, "drifts": []}
    with concurrent.futures.ThreadPoolExecutor(max_workers=max(1, min(12, len(jobs)))) as ex:
        rs = list(ex.map(one, jobs))
    return {"scenarios": sum(r[0] for r in rs), "events": sum(r[1] for r in rs), "sends": sum(r[3] for r in rs),
            "drifts": [d for r in rs for d in r[2]]}


# --------------------------------------------------------------------------- Apalache (thorough tier)
def run_apalache_flwconc():
    """spec/apa/run.sh: the safety invariants of FlwConc.tla by an inductive invariant discharged with Apalache
    (records per producer and application operations unbounded; containers within the generator bounds).
    A failure is a tool error (it speaks about the model). Returns a dict for the evidence."""
    t = time.time()
    try:
        p = subprocess.run(["bash", os.path.join(SPEC, "apa", "run.sh")], stdout=subprocess.PIPE, stderr=subprocess.STDOUT,
                           text=True, timeout=3600)
    except subprocess.TimeoutExpired as ex:
        raise ToolError("Apalache run timed out") from ex
    steps = re.findall(r"^APALACHE (\S+) (\S+) (OK|FAIL|TIMEOUT) (\d+)", p.stdout, re.M)
    if p.returncode != 0 or "APALACHE ALL OK" not in p.stdout:
        raise ToolError("Apalache: the inductive invariant of FlwConc is not discharged:\n" + p.stdout[-1500:])
    return {"tool": "apalache-mc 0.58.0", "script": "spec/apa/run.sh", "module": "spec/apa/FlwConcApa.tla",
            "steps": [{"step": a, "mode": b, "result": c, "s": int(d)} for a, b, c, d in steps],
            "statement": "Init => IndInv, IndInv /\\ Next => IndInv', IndInv => C03_NoDuplicate /\\ C03_PerProducerOrder /\\ "
                         "C03_OnlyAccepted /\\ C03_AllArrive /\\ C04_AfterShutdown /\\ C04_AfterFlush /\\ C04_CloneDropKeepsWriter for "
                         "each write mode, up to 3 producers, PerProducer and MaxAppOps unbounded; sequences <= 5, sets <= 8 "
                         "elements in the symbolic pre-state", "wall_s": round(time.time() - t, 1)}
