"""Driver for the properties decided on routing / framing scenarios (Routing.tla + MonC13 / MonC20).

Same flow as flwcheck.run: (1) TLC model-checks Routing in the ideal configuration, (1b) TLC produces a
counterexample for every open deviation of the as-coded model, (2) TLC generates behaviours -> scenarios,
plus seeded random scenarios and committed regression scenarios, (3) `flv route` executes them on the real
code, (4) the TLA+ monitor judges every recorded event, (5) triage against known_findings.json,
(6) evidence. Python only orchestrates: it never compares an observation with an expectation."""
import json
import os
import random
import re
import shutil
import time

from . import common as C

A_ROUTE = [
    "TLC 1.8 and the CommunityModules JSON reader are correct",
    "the harness observation is correct: growth of the capture files of the child's stdout/stderr, of the "
    "FileLogWriter files and of the error-channel file between two calls; datagrams queued on the unix socket; "
    "hand-overs seen by the recording LogWriter",
    "records are pushed through log::Log::log of the Box<dyn Log> returned by Logger::build (what the log macros "
    "call after the global max-level gate, which belongs to C02)",
    "the module filter 'm' is matched by the module catalogue {m, m::sub} only (prefix match is C02's subject)",
    "exhaustive statements hold within the constants of the named MCRouting_*.cfg only",
]


# --------------------------------------------------------------------------- spec constants
def _fix_sets():
    """AllFixes / RepoFixes as written in MCRouting.tla (names of the deviations of the as-coded model)."""
    txt = open(os.path.join(C.SPEC, "MCRouting.tla")).read()

    def grab(name):
        m = re.search(r"^%s\s*==\s*\{([^}]*)\}" % name, txt, re.M)
        if not m:
            raise C.ToolError(f"{name} not found in MCRouting.tla")
        return set(re.findall(r'"([^"]+)"', m.group(1)))
    return grab("AllFixes"), grab("RepoFixes")


# --------------------------------------------------------------------------- behaviours -> scenarios
def _merge(reps, maxlog):
    """TLC emits one behaviour per distinct state: (Adapt|SetSpec|Log)* Log. Behaviours that share the
    configuration and everything before their last Log step are executed as ONE scenario whose tail is the
    list of those last Log steps: Log leaves <<spec, dupe, dupo>> unchanged, so the concatenation is again a
    behaviour of Routing. Behaviours that do not end in Log are prefixes of ones that do (or end in a
    reconfiguration nobody observes) and are dropped."""
    groups = {}
    for r in reps:
        st = r["steps"]
        if not st or st[-1]["op"] != "Log":
            continue
        key = (json.dumps(r["cfg"], sort_keys=True), json.dumps(st[:-1], sort_keys=True))
        groups.setdefault(key, (r["cfg"], st[:-1], []))[2].append(st[-1])
    out = []
    for _, (cfg, prefix, logs) in sorted(groups.items(), key=lambda kv: kv[0]):
        for i in range(0, len(logs), maxlog):
            out.append((cfg, prefix + logs[i:i + maxlog]))
    return out


# message catalogue: class -> concrete texts (the model enumerates the classes, the seed picks the text)
MSGS = {
    "plain": ["Task successfully read from conf.json", "x", "a b  c   d"],
    "empty": [""],
    "multiline": ["first line\nsecond line\n\nfourth", "trailing newline\n", "\nleading newline",
                  "crlf inside\r\nnext", "\n", "a\n\n\n"],
    "quotes": ['say "hi" and \'bye\'', '"', '""quoted""', "`back` 'single' \"double\""],
    "backslashes": ["C:\\dir\\file.txt", "\\", "ends with \\", "\\n is not a newline", '\\"', "\\\\server\\share"],
    "control": ["bell\x07 esc\x1b[31mred\x1b[0m nul\x00 tab\t cr\r del\x7f", "\x1b[0m", "\x00", "\x08\x0c\x0b",
                "\x1b[38;5;196mfake colour"],
    "nonascii": ["gr\u00fc\u00dfe \u2603 \u65e5\u672c\u8a9e \U0001F980", "\u00e9", "\ufeffbom first",
                 "rtl \u202eoverride\u202c nbsp\u00a0 ls\u2028ps\u2029 end", "\u0301combining first"],
    "braces": ["{}", "{braces} and }{ {{}}", "{k=v} looks like key-values", "[2031-01-01] INFO [m] fake line",
               "{\"json\": \"inside\"}", "{", "}"],
    "mixed": ["{\"a\":\"b\\n\"}\n\t\u00fc\x1b[0m\\ \"q\" }{", "\r\n", "{k=\"v\"} \\\"\n{", "T[main] ERROR [x:1] \u2603\n"],
}
FILES = ["src/main.rs", "src/my file \u00fc.rs", "C:\\proj\\src\\main.rs", "/abs/with:colon/lib.rs", "",
         "tests/\u65e5\u672c.rs"]
LINES = [0, 1, 42, 65535, 2147483647]
KVS = [
    [["k", "s", 'va "l" ue'], ["n", "i", 42]],
    [["a", "i", -1], ["b", "s", ""]],
    [["user", "s", "x, y} z"], ["id", "i", 9007199254740993]],
    [["z", "s", "line1\nline2\t\u00fc"], ["a", "s", "\\"]],
]
MODPATHS = ["m", "m::sub", "my_crate::deep::module", "\u00fcn\u00ef::c\u00f8d\u00e9", "m::<impl T>::f"]


def _concrete(step, rng, frame):
    """Model Log step -> harness step: message class, presence flags and kv count become concrete values."""
    if step["op"] != "Log":
        return dict(step)
    s = {k: step[k] for k in ("op", "brace", "toks", "plain", "lvl", "mod")}
    s["rec"] = bool(step.get("rec", False))
    if not frame:
        return s
    cls = step.get("cls", "plain")
    s["cls"] = cls
    s["msghex"] = rng.choice(MSGS.get(cls, MSGS["plain"])).encode("utf-8").hex()
    if step.get("hf"):
        s["file"] = rng.choice(FILES)
    if step.get("hl"):
        s["line"] = rng.choice(LINES)
    if step.get("kv", 0) > 0:
        s["kvs"] = rng.choice(KVS)
    if s["mod"] == "m":
        s["mod"] = rng.choice(MODPATHS)
    return s


def _scenarios(merged, rng, start_sc, origin, frame, tag=None):
    out = []
    for i, (cfg, steps) in enumerate(merged):
        sc = {"sc": start_sc + i, "cfg": cfg, "t0": 34560000 + 97 * ((start_sc + i) % 1000),
              "steps": [_concrete(st, rng, frame) for st in steps], "origin": origin}
        if tag:
            sc["tag"] = tag
        out.append(sc)
    return out


# --------------------------------------------------------------------------- random scenarios
def _wr(rng, extra=False):
    w = [{"name": "A", "kind": "rec", "ceil": rng.choice([0, 3, 5, 5])},
         {"name": "B", "kind": "flw", "ceil": rng.randint(0, 5)},
         {"name": "S", "kind": "syslog", "ceil": rng.randint(0, 5)}]
    if extra and rng.random() < 0.4:
        w.append({"name": "Alert", "kind": rng.choice(["rec", "flw"]), "ceil": rng.randint(0, 5)})
    if extra and rng.random() < 0.2:
        w.append({"name": "S2", "kind": "syslog", "ceil": rng.randint(0, 5)})
    if rng.random() < 0.3:
        # an additional writer with an I/O problem: every write() is recorded and then reported as failed; the other writers
        # of the list and the default channel are served nevertheless
        for x in w:
            if x["kind"] == "rec":
                x["fail"] = True
                break
    rng.shuffle(w)
    return w


def _base_cfg(kind, w, rng):
    return {"kind": kind, "writers": w,
            "primary": rng.choice(["file", "file", "both", "pw", "none", "stdout", "stderr"]),
            "dupe0": rng.randint(0, 6), "dupo0": rng.randint(0, 6),
            "spec0": {"dflt": rng.randint(0, 5), "m": rng.choice([-1, -1, 0, 2, 5])},
            "crlf": False, "mode": "direct", "thread": "", "tick": 0,
            "ffile": "id", "ferr": "id", "fout": "id", "fpw": "id", "fA": "id", "fB": "id"}


def _rand_c13(rng, tier, sc0):
    """Long histories beyond the model's bounds: lists up to length 6, more writers, unknown names of
    several shapes, many Adapt / SetSpec steps on one logger."""
    n = 150 if tier == "quick" else 3000
    out = []
    for i in range(n):
        w = _wr(rng, extra=True)
        cfg = _base_cfg("route", w, rng)
        names = [x["name"] for x in w]
        unknown = ["X", "Y", "a", "_default", " A", "A ", "Default", "AA", "B2"]
        pool = names * 3 + ["_Default"] * 3 + unknown
        steps = []
        for _ in range(rng.choice([20, 40, 80])):
            x = rng.random()
            if x < 0.08:
                steps.append({"op": "AdaptErr", "d": rng.randint(0, 6)})
            elif x < 0.16:
                steps.append({"op": "AdaptOut", "d": rng.randint(0, 6)})
            elif x < 0.22:
                steps.append({"op": "SetSpec", "dflt": rng.randint(0, 5), "m": rng.choice([-1, 0, 1, 3, 5])})
            elif x < 0.35:
                steps.append({"op": "Log", "brace": False, "toks": [], "plain": rng.choice(["m", "m::sub", "o"]),
                              "lvl": rng.randint(1, 5), "mod": rng.choice(["m", "m::sub", "o", ""]), "rec": False})
            else:
                k = rng.choice([0, 1, 1, 2, 2, 3, 3, 4, 6])
                steps.append({"op": "Log", "brace": True, "toks": [rng.choice(pool) for _ in range(k)], "plain": "",
                              "lvl": rng.randint(1, 5), "mod": rng.choice(["m", "m::sub", "o", ""]), "rec": False})
        out.append({"sc": sc0 + i, "cfg": cfg, "t0": 34560000, "steps": steps, "origin": "rand"})
    return out


FORMATS = ["default", "detailed", "opt", "thread", "cdefault", "cdetailed", "copt", "cthread", "json"]


def _rand_text(rng):
    """arbitrary text: code points from several ranges, including controls, quotes, backslashes, braces"""
    pools = [lambda: chr(rng.randint(0x20, 0x7e)), lambda: chr(rng.randint(0x00, 0x1f)),
             lambda: rng.choice('"\\\'{}[]:,= \n\r\t'), lambda: chr(rng.randint(0xa0, 0x24f)),
             lambda: chr(rng.randint(0x4e00, 0x4e80)), lambda: chr(rng.randint(0x1f600, 0x1f64f)),
             lambda: rng.choice(["\x1b[0m", "\x1b[38;5;196m", "\u2028", "\u202e", "\ufeff", "\x7f", "\u0085"])]
    weights = [6, 2, 5, 2, 1, 1, 1]
    return "".join(rng.choices(pools, weights)[0]() for _ in range(rng.choice([0, 1, 3, 12, 40, 200])))


def _rand_c20(rng, tier, sc0):
    n = 120 if tier == "quick" else 2500
    out = []
    for i in range(n):
        w = [{"name": "A", "kind": "rec", "ceil": 5}, {"name": "B", "kind": "flw", "ceil": rng.choice([2, 5, 5])},
             {"name": "S", "kind": "syslog", "ceil": 5}]
        cfg = _base_cfg("frame", w, rng)
        cfg.update({"crlf": rng.random() < 0.5, "mode": rng.choice(["direct", "buf", "async", "capture"]),
                    "thread": rng.choice(["", "worker-1", "th read \u00fc"]), "tick": rng.choice([1, 1, 7]),
                    "primary": rng.choice(["file", "both", "both", "pw", "stdout", "stderr"])})
        if cfg["primary"] in ("stdout", "stderr") and cfg["mode"] == "async":
            cfg["mode"] = "buf"          # an asynchronous standard stream cannot be observed per call
        for k in ("ffile", "ferr", "fout", "fpw", "fA", "fB"):
            cfg[k] = rng.choice(FORMATS)
        steps = []
        for _ in range(rng.choice([5, 15, 40])):
            x = rng.random()
            if x < 0.05:
                steps.append({"op": "AdaptErr", "d": rng.randint(0, 6)})
                continue
            if x < 0.10:
                steps.append({"op": "AdaptOut", "d": rng.randint(0, 6)})
                continue
            brace = rng.random() < 0.5
            s = {"op": "Log", "brace": brace,
                 "toks": rng.choice([["A", "B", "S", "_Default"], ["_Default", "A"], ["B"], ["A", "_Default", "B"]]) if brace else [],
                 "plain": "" if brace else rng.choice(["m", "o"]),
                 "lvl": rng.randint(1, 5), "mod": rng.choice(["m", "m::sub", "o", ""]), "rec": False, "cls": "random",
                 "msghex": (_rand_text(rng) if rng.random() < 0.8
                            else rng.choice(rng.choice(list(MSGS.values())))).encode("utf-8").hex()}
            if rng.random() < 0.6:
                s["file"] = rng.choice(FILES)
            if rng.random() < 0.6:
                s["line"] = rng.choice(LINES)
            if rng.random() < 0.4:
                s["kvs"] = rng.choice(KVS) if rng.random() < 0.5 else \
                    [["k1", "s", _rand_text(rng)], ["k0", "i", rng.randint(-2 ** 40, 2 ** 40)]]
            if cfg["mode"] != "async" and rng.random() < 0.08:
                # recursive record: its Display implementation logs an inner record (plain target, or a brace
                # list naming additional writers). Two combinations deadlock on the unchanged tree and are
                # exercised once per run by spec/regress/C20.ndjson instead of at random (each costs the 5 s
                # hang detection): buffered stdout/stderr as default channel, and an inner record addressed
                # to a SyslogWriter that is formatting the outer one.
                std_buf = False   # both deadlocks are repaired in /repo (7408e36, 6ca5627): no exclusion any more
                if not std_buf:
                    s["rec"] = True
                    if brace:
                        s["toks"] = rng.choice([["A", "_Default"], ["B"], ["A", "B"], ["_Default"]])
                    if rng.random() < 0.5:
                        s["ibrace"] = True
                        s["itoks"] = rng.choice([["A"], ["B"], ["A", "_Default"], ["B", "_Default"], ["X"]])
                        s["iplain"] = ""
            steps.append(s)
        out.append({"sc": sc0 + i, "cfg": cfg, "t0": 34560000 + 86400 * rng.randint(0, 700) + rng.randint(0, 86399),
                    "steps": steps, "origin": "rand"})
    return out


# --------------------------------------------------------------------------- facts for triage, samples
def _facts_c13(begin, ev, sl, pred):
    f = {}
    if not begin or not ev or ev.get("ev") != "Log":
        return f
    W = {w["name"]: w for w in (begin.get("norm") or {}).get("writers", [])}
    toks = ev.get("toks", [])
    lvl = ev.get("lvl", 0)
    got = ev.get("got", {})
    f["brace"] = bool(ev.get("brace"))
    f["ntoks"] = len(toks)
    # kinds of the writers that emitted the record although it is above their ceiling
    over = sorted({W[n]["kind"] for n in W if W[n]["kind"] != "rec" and lvl > W[n]["ceil"] and got.get(n, 0) > 0})
    f["over_ceiling_got"] = "+".join(over)
    # writers whose count differs from "once", and whether each of them is named repeatedly in the list and
    # received exactly as many copies as it is named
    off = [n for n in W if n in toks and (W[n]["kind"] == "rec" or lvl <= W[n]["ceil"]) and got.get(n, 0) != 1]
    f["repeated_name"] = any(toks.count(n) > 1 for n in W)
    f["miscount_only_repeated"] = bool(off) and all(toks.count(n) > 1 and got.get(n, 0) == toks.count(n) for n in off)
    return f


def _facts_c20(begin, ev, sl, pred):
    f = {}
    if ev and ev.get("ev") == "Crash":
        st = ev.get("step") or {}
        f["hang_step_rec"] = bool(st.get("rec"))
        sysl = {w["name"] for w in ((begin or {}).get("norm") or {}).get("writers", []) if w["kind"] == "syslog"}
        f["hang_syslog_in_outer_and_inner"] = bool(sysl & set(st.get("toks", [])) & set(st.get("itoks", [])))
    if ev and ev.get("ev") == "Log":
        ne = [x["sink"] + ":" + x["fmt"] for x in ev.get("outs", []) if x.get("exp") and x.get("hex") != x.get("exp")]
        f["sinks_differing"] = ",".join(ne)
        f["rec"] = bool(ev.get("rec"))
    return f


def _target_text(e):
    return "{" + ",".join(e.get("toks", [])) + "}" if e.get("brace") else e.get("plain", "")


def _samples(traces, frame, k=2, maxev=8):
    """A few executed scenarios (compacted) for the evidence file: per trace the first one with >= 4 steps."""
    out = []
    for tf in traces[:k]:
        cands = []
        cur = None
        for line in open(tf):
            e = json.loads(line)
            if e["ev"] == "Begin":
                if cur is not None and (len(cur["events"]) >= 4 or len(cands) >= 30):
                    break
                n = e["norm"]
                cur = {"origin": e.get("origin", ""), "writers": n["writers"], "primary": n["primary"],
                       "dupe": n["dupe"], "dupo": n["dupo"], "spec": n["spec"], "mode": n["mode"],
                       "formats": n["fmts"] if frame else "id", "events": []}
                cands.append(cur)
            elif cur is not None and len(cur["events"]) < maxev:
                if e["ev"] == "Log":
                    x = {"ev": "Log", "target": _target_text(e), "lvl": e["lvl"], "mod": e["mod"], "ret": e["ret"]}
                    if frame:
                        x["message"] = bytes.fromhex(e.get("msghex", "")).decode("utf-8", "replace")[:60]
                        x["outputs"] = [[o["sink"], o["fmt"], bytes.fromhex(o["hex"]).decode("utf-8", "replace")[:90]]
                                        for o in e.get("outs", []) if o["hex"]][:3]
                    else:
                        x["received"] = e.get("got")
                        x["reported_unknown"] = e.get("errs")
                    cur["events"].append(x)
                elif e["ev"] != "Final":
                    cur["events"].append({k2: e[k2] for k2 in ("ev", "d", "dflt", "m", "ret") if k2 in e})
        if cands:
            out.append(max(cands, key=lambda c: min(len(c["events"]), 4)))
    return out


def _distinct_calls(scens):
    """distinct Log evaluations = distinct (configuration, current spec / dup levels, call arguments)."""
    seen = set()
    nontrivial = 0
    for s in scens:
        c = s["cfg"]
        base = json.dumps({k: c[k] for k in c if k not in ("dupe0", "dupo0", "spec0")}, sort_keys=True)
        de, do, sp = c["dupe0"], c["dupo0"], json.dumps(c["spec0"], sort_keys=True)
        for st in s["steps"]:
            if st["op"] == "AdaptErr":
                de = st["d"]
            elif st["op"] == "AdaptOut":
                do = st["d"]
            elif st["op"] == "SetSpec":
                sp = json.dumps({"dflt": st["dflt"], "m": st["m"]}, sort_keys=True)
            elif st["op"] == "Log":
                key = (base, de, do, sp, json.dumps(st, sort_keys=True))
                if key not in seen:
                    seen.add(key)
                    if (not st["brace"]) or st["toks"]:
                        nontrivial += 1
    return len(seen), nontrivial


# --------------------------------------------------------------------------- the flow
def _run(pid, tier, seed, *, mc, cex_cfg, gen, rand_fn, mon, frame, maxlog, assumptions, rule, level, regress,
         extra_facts):
    t0 = time.time()
    wd = C.workdir(pid)
    try:
        build_s = C.build_harness()
        states = transitions = 0
        mc_stats = []
        # 1. the ideal design satisfies the property (all deviations repaired)
        for (cfg, workers, timeout) in mc:
            r = C.run_tlc("MCRouting.tla", os.path.join(C.SPEC, cfg), os.path.join(wd, "mc-" + cfg), workers=workers,
                          timeout=timeout)
            if r["violated"] or r["deadlock"]:
                C.log("\n".join(r["out"].splitlines()[-60:]))
                raise C.ToolError(f"specification MCRouting/{cfg} violates {r['violated']}: the model or the property "
                                  f"formalisation is wrong (this is a tool error, not a verdict about /repo)")
            mc_stats.append({"cfg": cfg, "states": r["states"], "transitions": r["transitions"], "depth": r["depth"],
                             "wall_s": r["wall_s"]})
            states += r["states"]
            transitions += r["transitions"]
            C.log(f"[{pid}] TLC {cfg}: {r['states']} distinct states, {r['transitions']} transitions, "
                  f"{r['wall_s']}s - invariants hold")
        rng = random.Random(seed)
        scens = []
        # 1b. as-coded model: one counterexample per open deviation, to be replayed on the real code
        cex_of = {}
        if cex_cfg:
            allf, repo = _fix_sets()
            for d in sorted(allf - repo):
                r = C.run_tlc("MCRouting.tla", os.path.join(C.SPEC, cex_cfg), os.path.join(wd, "cex-" + d), workers=1,
                              timeout=300, env={"DEV": d})
                reps = C.replay_lines(r)
                if not r["violated"] or not reps:
                    raise C.ToolError(f"deviation {d} is listed as open but the as-coded model satisfies the property "
                                      f"without its repair: model and deviation list disagree")
                new = _scenarios([(reps[0]["cfg"], reps[0]["steps"])], rng, len(scens) + 1, "tlc-cex:" + d, frame,
                                 tag={"cex": d})
                cex_of[new[0]["sc"]] = d
                scens += new
                states += r["states"]
                transitions += r["transitions"]
                C.log(f"[{pid}] TLC {cex_cfg} without the repair of '{d}': counterexample "
                      f"{json.dumps(reps[0]['steps'])[:160]}")
        # 2. behaviours of the specification -> scenarios
        gen_stats = []
        for cfg in gen:
            r = C.run_tlc("MCRouting.tla", os.path.join(C.SPEC, cfg), os.path.join(wd, "gen-" + cfg), workers=4,
                          timeout=900)
            if r["violated"]:
                raise C.ToolError(f"generator config {cfg} reports a violation: {r['violated']}")
            reps = C.replay_lines(r)
            merged = _merge(reps, maxlog)
            new = _scenarios(merged, rng, len(scens) + 1, "tlc:" + cfg, frame)
            scens += new
            nlogs = sum(1 for s in new for st in s["steps"] if st["op"] == "Log")
            gen_stats.append({"cfg": cfg, "states": r["states"], "behaviours": len(reps), "scenarios": len(new),
                              "log_calls": nlogs})
            states += r["states"]
            transitions += r["transitions"]
            C.log(f"[{pid}] TLC {cfg}: {r['states']} states -> {len(reps)} behaviours -> {len(new)} scenarios "
                  f"({nlogs} Log calls)")
        n_model = len(scens)
        rnd = rand_fn(rng, tier, len(scens) + 1) if rand_fn else []
        scens += rnd
        nreg = 0
        for rf in regress:
            p = os.path.join(C.SPEC, "regress", rf)
            if os.path.exists(p):
                for line in open(p):
                    if line.strip():
                        s = json.loads(line)
                        s["sc"] = len(scens) + 1
                        s.setdefault("origin", "regress:" + rf)
                        scens.append(s)
                        nreg += 1
        # 3. execute on the real code, 4. judge with the TLA+ monitor
        res = C.run_sharded(pid, mon, scens, wd, sub="route")
        C.log(f"[{pid}] executed {res['scenarios']} scenarios / {res['events']} events on the real code "
              f"({n_model} from TLC, {len(rnd)} random, {nreg} regression); judged by {mon}.tla in {res['wall_s']}s; "
              f"{len(res['bads'])} predicate failures; counters {res['counts']}")
        # every counterexample of the as-coded model must reproduce on the real code
        bad_scs = {b[0] for b in res["bads"]}
        for sc, d in cex_of.items():
            if sc in bad_scs:
                C.log(f"[{pid}] deviation '{d}': TLC counterexample reproduced on the real code (genuine defect)")
            else:
                C.log(f"NOTE conformance-drift: deviation '{d}' of Routing.tla did not reproduce on the real code - "
                      f"if /repo was repaired, add it to RepoFixes in spec/MCRouting.tla")
        # 5. triage
        viols, known = C.triage(pid, res["bads"], res["traces"], res["scen_files"], extra_facts=extra_facts)
        for fnd, cnt in known:
            C.log(f"KNOWN-FINDING: property={pid} {fnd['id']}: {fnd['what']} ({cnt} occurrences)")
        for v in viols[:10]:
            C.log(f"VIOLATION property={pid} replay={v['replay']}")
            C.log(f"   predicate {v['pred']} failed at scenario {v['sc']} event {v['n']}; facts {v['facts']}")
        if len(viols) > 10:
            C.log(f"   ... and {len(viols) - 10} more (scenario, predicate) pairs")
        ncalls, nontriv = _distinct_calls(scens)
        nlog_steps = sum(1 for s in scens for st in s["steps"] if st["op"] == "Log")
        cnt = res["counts"]
        cov = {
            "states": states, "transitions": transitions,
            "traces_validated_against_impl": res["scenarios"],
            "events_judged": res["events"],
            "evaluations": cnt[0] if cnt else nlog_steps, "distinct_nontrivial": nontriv,
            "distinct_calls": ncalls,
            "rule": rule,
            "samples": _samples(res["traces"], frame),
            "model_checking_runs": mc_stats, "scenario_generation_runs": gen_stats,
            "counterexamples_of_open_deviations": sorted(cex_of.values()),
            "scenarios_from_spec": n_model, "scenarios_random": len(rnd), "scenarios_regression": nreg,
            "monitor": mon + ".tla", "monitor_counters": cnt,
            "predicate_failures": len(res["bads"]),
            "violating_scenario_predicate_pairs": len(viols),
            "known_findings_hit": [{"id": f["id"], "count": c} for f, c in known],
            "exhaustive": False,
            "harness_build_s": round(build_s, 1),
        }
        C.write_evidence(pid, tier, seed, level, cov, assumptions, time.time() - t0, len(viols))
        return 1 if viols else 0
    finally:
        shutil.rmtree(wd, ignore_errors=True)


def C13(tier, seed):
    q = tier == "quick"
    return _run(
        "C13", tier, seed,
        mc=[("MCRouting_C13q.cfg" if q else "MCRouting_C13t.cfg", 8, 2400)],
        cex_cfg="MCRouting_C13cex.cfg",
        gen=["MCRouting_C13gen.cfg", "MCRouting_C13dup.cfg", "MCRouting_C13hist.cfg"] if q else
            ["MCRouting_C13gent.cfg", "MCRouting_C13dup.cfg", "MCRouting_C13dupt.cfg", "MCRouting_C13hist.cfg"],
        rand_fn=_rand_c13, mon="MonC13", frame=False, maxlog=80,
        assumptions=A_ROUTE + ["duplication is a function of the default channel: a record is duplicated iff it "
                               "reaches the default channel and its level is at or above the current level "
                               "(MultiWriter); brace lists without _Default are never duplicated",
                               "a recording LogWriter shows every hand-over (its declared ceiling is not applied by "
                               "the harness); FileLogWriter and SyslogWriter are observed by what they emit"],
        rule="(a) every Log call of the bounded Routing model, executed on the real code: all brace lists of length "
             "<= 3 over {A, B, S, _Default, X(unknown)} (156) and 3 plain targets x 5 levels x modules {m, o, absent} "
             "x specifications {off, error, info, m=trace} x writer kinds {recording LogWriter, FileLogWriter "
             "max_level, SyslogWriter max_log_level on a unix datagram socket} x ceilings x default channel {file, "
             "writer, both, stdout, stderr}; all 7 x 7 Duplicate pairs through the builder and through adapt_duplication_to_* (one and two "
             "changes), records before and after a change, set_new_spec between records; the TLC counterexample of "
             "every open deviation; (b) seeded random histories of 20-80 steps with lists up to length 6, further "
             "writers and unknown-name shapes. evaluations = Log calls judged; distinct_nontrivial = distinct "
             "(configuration, current specification and duplication levels, call arguments) tuples whose target is "
             "not the empty list {}",
        level="model_checking", regress=("C13.ndjson",), extra_facts=_facts_c13)


def C20(tier, seed):
    q = tier == "quick"
    return _run(
        "C20", tier, seed,
        mc=[("MCRouting_C20mc.cfg", 8, 1200)],
        cex_cfg=None,
        gen=["MCRouting_C20gen.cfg" if q else "MCRouting_C20gent.cfg"],
        rand_fn=_rand_c20, mon="MonC20", frame=True, maxlog=40,
        assumptions=A_ROUTE + [
            "expected bytes = the public format function called by the harness with the same record at the same "
            "(frozen) virtual instant, plus the configured line ending; LF for stdout/stderr, none for LogWriter "
            "implementations and datagrams",
            "the harness decoders (one small parser per provided format, serde_json for JSON, ANSI prefix/suffix "
            "taken from flexi_logger::style) are in the trusted base; text formats render absent fields as "
            "'<unnamed>' / 0 and key-values as key=Debug(value)",
            "auto-tick virtual clock: every clock read advances the clock, so a second read for one record would "
            "show as a different timestamp; recursive records use a frozen clock",
            "process-global settings (palette, UTC latch) at their defaults"],
        rule="(a) TLC enumerates the bounded fan-out model: 9 rotations putting the 9 provided format functions "
             "(default, detailed, opt, with_thread, 4 coloured variants, json) on the 6 formatting outputs (file, "
             "stderr, stdout, primary writer, additional LogWriter, additional FileLogWriter) x LF/CRLF x write "
             "modes {direct, buffered, async, support-capture} x message classes {plain, empty, multi-line, quotes, "
             "backslashes, control, non-ASCII, braces, mixed} x presence of module path / file / line x key-values "
             "x levels x {plain target, brace list to all writers + _Default} + recursive records; the seed picks "
             "the concrete text per class; (b) seeded random scenarios: random code-point strings up to 200 chars, "
             "random formats per output, restrictive specifications and duplication levels, adapt steps. "
             "evaluations = Log calls judged (each compared on up to 7 outputs); distinct_nontrivial = distinct "
             "(configuration, settings, record) tuples",
        level="exploration", regress=("C20.ndjson",), extra_facts=_facts_c20)
