"""Registry: one function per property id. Each returns the process exit code (0 / 1); ToolError -> 2."""
from . import flwcheck as F
from . import flwgen as G

A_COMMON = [
    "TLC 1.8 and the CommunityModules JSON reader are correct",
    "the harness projection (own file-name parser, record decoder, gz decoding via flate2) is correct",
    "the verif_hooks virtual clock / creation-time table stand in faithfully for the wall clock and file birth times",
    "log directory on a local POSIX file system (tmpfs under /dev/shm)",
    "exhaustive statements hold within the constants of the named MC*.cfg only",
]


def _rand_c01(rng, tier, sc0):
    n = 150 if tier == "quick" else 3000
    out = []
    for i in range(n):
        c = G.rand_cfg(rng, parts=(i % 3 == 0))
        if i % 11 == 0:
            c = {"rot": False, "naming": "Num", "mode": c["mode"], "cap": c.get("cap", 64), "crlf": c["crlf"],
                 "flush_ms": c.get("flush_ms", 0)}
        nrec = rng.choice([5, 20, 60]) if tier == "quick" else rng.choice([5, 20, 60, 200])
        out.append({"sc": sc0 + i, "cfg": c, "t0": G.boundary_t0(rng), "steps": G.rand_history(rng, c, nrec),
                    "origin": "rand", "obs": "every" if nrec <= 20 else "sync"})
    return out


def C01(tier, seed):
    mc = [("MCFlw.tla", "MCFlw_C01q.cfg" if tier == "quick" else "MCFlw_C01t.cfg", 8, 1500)]
    gen = [("MCFlw.tla", "MCFlw_C01gen.cfg" if tier == "quick" else "MCFlw_C01gent.cfg", None, None)]
    return F.run("C01", tier, seed, mc=mc, gen=gen, rand_fn=_rand_c01, mon="MonC01",
                 assumptions=A_COMMON + ["single logging thread, synchronous write modes, no cleanup (domain of C01)"],
                 rule="(a) one maximal behaviour per distinct state of the bounded Flw model (TLC BFS, history hidden by "
                      "a VIEW), replayed on the real code; (b) seeded random histories with realistic magnitudes "
                      "(buffers up to 8 KiB, records up to 64 KiB, CRLF, name-part combinations, boundary instants). "
                      "distinct = distinct (cfg, step list) pairs; every scenario rotates or writes at least once")


def _rand_c08(rng, tier, sc0):
    n = 150 if tier == "quick" else 3000
    out = []
    for i in range(n):
        c = G.rand_cfg(rng, criteria=("size", "size", "both"), modes=("direct", "buf", "bufflush", "async"))
        if "age" in c:
            c["age"] = "d"
        if c["mode"] == "async":
            c["pool"] = rng.choice([1, 2, 50])
            c["mcapa"] = rng.choice([4, 32, 200])
            c["flush_ms"] = rng.choice([0, 1])
        if rng.random() < 0.15:
            c["size"] = rng.choice([100000, 1048576])
        steps = []
        nruns = rng.choice([1, 1, 2, 3])
        for r in range(nruns):
            c2 = dict(c)
            h = G.rand_history(rng, c2, rng.choice([3, 10, 40]), p_trigger=0.0, p_adv=0.0)
            h[0]["append"] = rng.random() < 0.6
            steps += h
        out.append({"sc": sc0 + i, "cfg": c, "t0": 40000000, "steps": steps, "origin": "rand", "obs": "sync"})
    return out


def C08(tier, seed):
    mc = [("MCFlw.tla", "MCFlw_C08q.cfg" if tier == "quick" else "MCFlw_C08t.cfg", 8, 1500)]
    gen = [("MCFlw.tla", "MCFlw_C08gen.cfg" if tier == "quick" else "MCFlw_C08gent.cfg", None, None)]
    return F.run("C08", tier, seed, mc=mc, gen=gen, rand_fn=_rand_c08, mon="MonC08",
                 assumptions=A_COMMON + ["no explicit rotation, reopen or reset inside the scenarios (outside C08's "
                                         "quantifier); age part of age-or-size inactive (clock frozen)"],
                 rule="(a) one maximal behaviour per distinct state of the bounded Flw model with size criterion, "
                      "N in {0,10}, lengths {2,10,11,31} (below/at/above N and 3N), fresh and append restarts; "
                      "(b) seeded random multi-run histories, N up to 1 MiB, all write modes incl. async. "
                      "distinct = distinct (cfg, step list) pairs")


def _rand_c06(rng, tier, sc0):
    n = 200 if tier == "quick" else 4000
    out = []
    for i in range(n):
        c = G.rand_cfg(rng, modes=("direct", "direct", "buf"), clean=(i % 3 == 0))
        c["suffix"] = rng.choice(["log", "log", "trc", "-"])
        if i % 13 == 0:
            c = {"rot": False, "naming": "Num", "mode": c["mode"], "cap": c.get("cap", 64)}
        c["crlf"] = False
        le = 1
        steps = []
        for r in range(rng.choice([2, 3, 4, 6])):
            h = [{"op": "Start", "append": rng.random() < 0.5}]
            for _ in range(rng.choice([0, 1, 2, 5, 12])):
                x = rng.random()
                if x < 0.1 and c.get("rot", True):
                    h.append({"op": "Trigger"})
                elif x < 0.3:
                    h.append({"op": "Adv", "dt": rng.choice([1, 1, 2, 60, 86400])})
                h.append({"op": "Log", "len": max(9, rng.choice([9, 10, 11, 21, 40, c.get("size", 10) + 1]))
                          if rng.random() < 0.9 else rng.randint(9, 300)})
            h.append({"op": "Stop"})
            if rng.random() < 0.25:
                h.append({"op": "ExtRemove", "which": rng.choice(["cur", "oldest", "newest"])})
            if rng.random() < 0.3:
                h.append({"op": "Adv", "dt": rng.choice([1, 2, 3600])})
            steps += h
        out.append({"sc": sc0 + i, "cfg": c, "t0": G.boundary_t0(rng), "steps": steps, "origin": "rand"})
    return out


def C06(tier, seed):
    mc = [("MCFlw.tla", "MCFlw_C06q.cfg" if tier == "quick" else "MCFlw_C06t.cfg", 8, 2400)]
    gen = [("MCFlw.tla", "MCFlw_C06gen.cfg" if tier == "quick" else "MCFlw_C06gent.cfg", None, None)]
    return F.run("C06", tier, seed, mc=mc, gen=gen, rand_fn=_rand_c06, mon="MonC06",
                 assumptions=A_COMMON + ["files are removed by the environment only while no logger runs"],
                 rule="(a) one maximal behaviour per distinct state of the bounded multi-run Flw model (up to 3 runs, "
                      "append flipped per run, forced rotations, restarts inside the same second and across seconds, "
                      "removal of any one family file between runs, with and without cleanup); (b) seeded random "
                      "multi-run histories (2-6 runs). distinct = distinct (cfg, step list) pairs",
                 regress=("C06.ndjson",))


def _rand_c07(rng, tier, sc0):
    n = 200 if tier == "quick" else 4000
    out = []
    for i in range(n):
        c = G.rand_cfg(rng, modes=("direct", "direct", "buf", "async"), clean=True)
        c["suffix"] = rng.choice(["log", "txt", "trc", "a", "z", "-", "log"])
        c["crlf"] = False
        c["bg"] = rng.random() < 0.3
        if c["mode"] == "async":
            c["pool"], c["mcapa"], c["flush_ms"] = rng.choice([1, 4]), rng.choice([8, 64]), 0
        steps = []
        for r in range(rng.choice([1, 1, 2, 3])):
            h = [{"op": "Start", "append": rng.random() < 0.5}]
            for _ in range(rng.choice([3, 8, 20, 40])):
                x = rng.random()
                if x < 0.15:
                    h.append({"op": "Trigger"})
                elif x < 0.3:
                    h.append({"op": "Adv", "dt": rng.choice([1, 1, 2, 60, 86400])})
                h.append({"op": "Log", "len": max(9, rng.choice([9, 10, 11, 21, 40, min(c.get("size", 10), 5000) + 1]))})
            h.append({"op": "Stop"})
            steps += h
        out.append({"sc": sc0 + i, "cfg": c, "t0": G.boundary_t0(rng), "steps": steps, "origin": "rand",
                    "obs": "sync" if (c["bg"] or c["mode"] == "async") else "every"})
    return out


def C07(tier, seed):
    mc = [("MCFlw.tla", "MCFlw_C07q.cfg" if tier == "quick" else "MCFlw_C07t.cfg", 8, 2400)]
    gen = [("MCFlw.tla", "MCFlw_C07gen.cfg" if tier == "quick" else "MCFlw_C07gent.cfg", None, None)]
    return F.run("C07", tier, seed, mc=mc, gen=gen, rand_fn=_rand_c07, mon="MonC07",
                 assumptions=A_COMMON + ["background cleanup thread / async writer: observations judged after "
                                         "Stop (shutdown joins the cleanup thread); interleavings of the cleanup "
                                         "thread with further rotations are explored by FlwConc (thorough)"],
                 rule="(a) one maximal behaviour per distinct state of the bounded Flw model with cleanup "
                      "(k in 0..1(2), m in 0..1, four namings, restarts, forced rotations); (b) seeded random histories "
                      "with k up to 5, m up to 4, suffix catalogue {log,txt,trc,a,z,none}, sync/background/async "
                      "cleanup. distinct = distinct (cfg, step list) pairs",
                 regress=("C07.ndjson",))


def _rand_c09(rng, tier, sc0):
    n = 250 if tier == "quick" else 5000
    out = []
    day = 86400
    for i in range(n):
        c = G.rand_cfg(rng, criteria=("age", "age", "both"), modes=("direct", "direct", "buf"))
        c["crlf"] = False
        if "size" in c:
            c["size"] = rng.choice([30, 100, 5000])
        steps = []
        for r in range(rng.choice([1, 1, 2, 3])):
            h = [{"op": "Start", "append": rng.random() < 0.6}]
            for _ in range(rng.choice([2, 6, 15])):
                x = rng.random()
                if x < 0.5:
                    h.append({"op": "Adv", "dt": rng.choice([1, 1, 2, 58, 59, 60, 61, 3599, 3600, day - 1, day, 31 * day,
                                                               365 * day, 28 * day, 7 * day, 3 * day + 7])})
                h.append({"op": "Log", "len": rng.choice([9, 12, 33])})
            h.append({"op": "Stop"})
            if rng.random() < 0.4:
                h.append({"op": "Adv", "dt": rng.choice([1, 60, 3600, day, 31 * day])})
            steps += h
        out.append({"sc": sc0 + i, "cfg": c, "t0": G.boundary_t0(rng), "steps": steps, "origin": "rand"})
    return out


def C09(tier, seed):
    mc = [("MCFlw.tla", "MCFlw_C09q.cfg" if tier == "quick" else "MCFlw_C09t.cfg", 8, 2400)]
    gen = [("MCFlw.tla", "MCFlw_C09gen.cfg" if tier == "quick" else "MCFlw_C09gent.cfg", None, None)]
    return F.run("C09", tier, seed, mc=mc, gen=gen, rand_fn=_rand_c09, mon="MonC09",
                 assumptions=A_COMMON + ["time zone of the harness process is UTC unless TZ is set (fixed-offset zones "
                                         "only; DST zones are outside the property)"],
                 rule="(a) one maximal behaviour per distinct state of the bounded Flw model with age criterion: "
                      "T0 = Jan 15 23:59:58, clock steps {1s, 1h, 1d, 31d, 365d} so that second/minute/hour/day/month/"
                      "year boundaries and same-day-of-month / same-date-next-year instants occur, append restarts; "
                      "(b) seeded random histories from a boundary catalogue. distinct = distinct (cfg, step list) pairs")


REGISTRY = {"C01": C01, "C06": C06, "C07": C07, "C08": C08, "C09": C09}
MONITOR = {}
EXECUTOR = {}
