"""Registry: one function per property id. Each returns the process exit code (0 / 1); ToolError -> 2."""
import json
import os

from . import flwcheck as F
from . import flwgen as G

A_COMMON = [
    "TLC 1.8 and the CommunityModules JSON reader are correct",
    "the harness projection (own file-name parser, record decoder, gz decoding via flate2) is correct",
    "the verif_hooks virtual clock / creation-time table stand in faithfully for the wall clock and file birth times",
    "log directory on a local POSIX file system (tmpfs under /dev/shm)",
    "exhaustive statements hold within the constants of the named MC*.cfg only",
]


def _rand_c01(rng, tier, sc0):
    n = 300 if tier == "quick" else 6000
    out = []
    for i in range(n):
        c = G.rand_cfg(rng, parts=(i % 3 == 0))
        if i % 11 == 0:
            c = {"rot": False, "naming": "Num", "mode": c["mode"], "cap": c.get("cap", 64), "crlf": c["crlf"],
                 "flush_ms": c.get("flush_ms", 0)}
        nrec = rng.choice([5, 20, 60]) if tier == "quick" else rng.choice([5, 20, 60, 200])
        steps = G.rand_history(rng, c, nrec)
        if i % 2 == 1:
            # the stream stays complete and ordered over restarts as well (with rotation or append nothing is truncated;
            # the documented truncation of a non-rotated file re-opened without append is part of the monitor's history)
            steps = []
            for _ in range(rng.choice([2, 3, 4])):
                h = G.rand_history(rng, c, rng.choice([3, 8, 20, 40]), p_adv=0.3)
                h[0]["append"] = rng.random() < 0.6
                steps += h
                if rng.random() < 0.8:
                    steps.append({"op": "Adv", "dt": rng.choice([1, 2, 61, 3600, 86400])})
        if i % 10 == 7:
            # timestamps as infix of the current file, appending restarts at different instants: the stream continues in
            # the newest file
            c = {"naming": rng.choice(["TsD", "TsCD"]), "rot": True, "size": rng.choice([10, 30, 64]),
                 "mode": rng.choice(["direct", "buf"]), "cap": 64, "crlf": False}
            if c["naming"] == "TsCD":
                c["fmt"] = rng.choice(["r%Y-%m-%d_%H-%M-%S", "r%Y%m%d-%H%M%S"])
            steps = []
            for r in range(rng.choice([2, 3, 4])):
                steps.append({"op": "Start", "append": r == 0 or rng.random() < 0.8})
                for _ in range(rng.choice([1, 2, 4])):
                    if rng.random() < 0.6:
                        steps.append({"op": "Adv", "dt": rng.choice([1, 2, 3, 61])})
                    steps.append({"op": "Log", "len": rng.choice([9, 12, 21, 40])})
                steps.append({"op": "Stop"})
                steps.append({"op": "Adv", "dt": rng.choice([1, 2, 5, 60])})
        if i % 4 == 2:
            # recursive logging: the message of a record logs another record while it is being formatted
            for st in steps:
                if st["op"] == "Log" and st["len"] >= 12 and rng.random() < 0.3:
                    st["recursive"] = rng.choice([1, 1, 2, 3])      # nesting depth
                    st["ilen"] = rng.choice([12, 12, 30, c.get("size", 10) + 12, c.get("cap", 64) + 1])
        if i % 25 == 13:
            # a directory occupies the name of the next file of the family (rotated file resp., with a direct naming, the next
            # current file): the rotation fails, the records go on into the file that is open - none is lost, none twice
            nm = rng.choice(["Num", "NumD"])
            c = {"naming": nm, "rot": True, "size": rng.choice([10, 30, 60]), "mode": rng.choice(["direct", "buf"]), "cap": 64,
                 "crlf": False}
            idx = rng.choice([0, 1]) + (1 if nm == "NumD" else 0)
            steps = [{"op": "Start", "append": False}, {"op": "ExtCreate", "name": f"app_r{idx:05d}.log", "dir": True, "content": ""}]
            steps += [{"op": "Log", "len": rng.choice([9, 12, 21, 40])} for _ in range(rng.choice([6, 10, 16]))]
            if rng.random() < 0.6:
                steps.append({"op": "ExtRemove", "which": f"app_r{idx:05d}.log"})
                steps += [{"op": "Log", "len": rng.choice([9, 12, 21, 40])} for _ in range(rng.choice([3, 6]))]
            steps += [{"op": "Flush"}, {"op": "Stop"}]
            nrec = 10
        out.append({"sc": sc0 + i, "cfg": c, "t0": G.boundary_t0(rng), "steps": steps,
                    "origin": "rand", "obs": "every" if nrec <= 20 else "sync"})
    return out


def C01(tier, seed):
    mc = [("MCFlw.tla", "MCFlw_C01q.cfg" if tier == "quick" else "MCFlw_C01t.cfg", 8, 1500)]
    gen = [("MCFlw.tla", "MCFlw_C01gen.cfg" if tier == "quick" else "MCFlw_C01gent.cfg", None, None)]
    return F.run("C01", tier, seed, mc=mc, gen=gen, rand_fn=_rand_c01, mon="MonC01",
                 assumptions=A_COMMON + ["single logging thread, synchronous write modes, no cleanup (domain of C01)"],
                 rule="(a) one maximal behaviour per distinct state of the bounded Flw model (TLC BFS, history hidden by "
                      "a VIEW), replayed on the real code; (b) seeded random histories with realistic magnitudes "
                      "(buffers up to 8 KiB, records up to 64 KiB, CRLF, name-part combinations, boundary instants). "
                      "distinct = distinct (cfg, step list) pairs; every scenario rotates or writes at least once")


def _rand_c08(rng, tier, sc0):
    n = 150 if tier == "quick" else 3000
    out = []
    for i in range(n):
        c = G.rand_cfg(rng, criteria=("size", "size", "both"), modes=("direct", "buf", "bufflush", "async"))
        if "age" in c:
            c["age"] = "d"
        if c["mode"] == "async":
            c["pool"] = rng.choice([1, 2, 50])
            c["mcapa"] = rng.choice([4, 32, 200])
            c["flush_ms"] = rng.choice([0, 1])
        if rng.random() < 0.15:
            c["size"] = rng.choice([100000, 1048576])
        steps = []
        nruns = rng.choice([1, 1, 2, 3])
        for r in range(nruns):
            c2 = dict(c)
            h = G.rand_history(rng, c2, rng.choice([3, 10, 40]), p_trigger=0.0, p_adv=0.0)
            h[0]["append"] = rng.random() < 0.6
            steps += h
        if i % 10 == 8:
            # reopen_output() on an untouched file: what the file holds keeps counting
            pos = [j for j, st in enumerate(steps) if st["op"] == "Log"]
            if len(pos) > 2:
                steps.insert(rng.choice(pos[1:]), {"op": "Reopen"})
        if i % 10 == 9:
            # a cleanup that fails at every rotation (a directory sits where the compressed file should go): the size
            # criterion is not affected by it
            c = {"naming": rng.choice(["Num", "NumD"]), "rot": True, "size": rng.choice([30, 60]), "mode": rng.choice(["direct", "buf"]),
                 "cap": 64, "m": 100000, "bg": False, "crlf": False}
            # (a limit that is out of reach: the stream stays complete, so that positions in it identify the records)
            first = "app_r00000.log.gz"
            steps = [{"op": "ExtCreate", "name": first, "dir": True, "content": ""}, {"op": "Start", "append": False}]
            steps += [{"op": "Log", "len": rng.choice([9, 12, 21, 31, 40])} for _ in range(rng.choice([8, 14, 20]))]
            steps.append({"op": "Stop"})
        out.append({"sc": sc0 + i, "cfg": c, "t0": 40000000, "steps": steps, "origin": "rand", "obs": "sync"})
    return out


def C08(tier, seed):
    mc = [("MCFlw.tla", "MCFlw_C08q.cfg" if tier == "quick" else "MCFlw_C08t.cfg", 8, 1500)]
    gen = [("MCFlw.tla", "MCFlw_C08gen.cfg" if tier == "quick" else "MCFlw_C08gent.cfg", None, None)]
    return F.run("C08", tier, seed, mc=mc, gen=gen, rand_fn=_rand_c08, mon="MonC08",
                 assumptions=A_COMMON + ["no explicit rotation, reopen or reset inside the scenarios (outside C08's "
                                         "quantifier); age part of age-or-size inactive (clock frozen)"],
                 rule="(a) one maximal behaviour per distinct state of the bounded Flw model with size criterion, "
                      "N in {0,10}, lengths {2,10,11,31} (below/at/above N and 3N), fresh and append restarts; "
                      "(b) seeded random multi-run histories, N up to 1 MiB, all write modes incl. async. "
                      "distinct = distinct (cfg, step list) pairs")


def _rand_c06(rng, tier, sc0):
    n = 200 if tier == "quick" else 4000
    out = []
    for i in range(n):
        c = G.rand_cfg(rng, modes=("direct", "direct", "buf"), clean=(i % 3 == 0), parts=(i % 2 == 0))
        c["suffix"] = rng.choice(["log", "log", "trc", "-"])
        if i % 13 == 0:
            c = {"rot": False, "naming": "Num", "mode": c["mode"], "cap": c.get("cap", 64)}
        c["crlf"] = False
        le = 1
        steps = []
        for r in range(rng.choice([2, 3, 4, 6])):
            h = [{"op": "Start", "append": rng.random() < 0.5}]
            for _ in range(rng.choice([0, 1, 2, 5, 12])):
                x = rng.random()
                if x < 0.1 and c.get("rot", True):
                    h.append({"op": "Trigger"})
                elif x < 0.3:
                    h.append({"op": "Adv", "dt": rng.choice([1, 1, 2, 60, 86400])})
                h.append({"op": "Log", "len": max(9, rng.choice([9, 10, 11, 21, 40, c.get("size", 10) + 1]))
                          if rng.random() < 0.9 else rng.randint(9, 300)})
            h.append({"op": "Stop"})
            if rng.random() < 0.25:
                h.append({"op": "ExtRemove", "which": rng.choice(["cur", "oldest", "newest"])})
            if rng.random() < 0.3:
                h.append({"op": "Adv", "dt": rng.choice([1, 2, 3600])})
            steps += h
        if c.get("naming") in ("TsC", "TsCD") and "k" not in c and "m" not in c and i % 2 == 0:
            # a legal custom format whose alphabetical order is not the chronological one (nothing in the documentation
            # asks for a sortable format; without cleanup nothing depends on the order of the names)
            c["fmt"] = rng.choice(["r%S-%M-%H_%d-%m-%Y", "r%d-%m-%Y_%H-%M-%S"])
        t0 = G.boundary_t0(rng)
        if i % 10 == 6:
            # timestamps as infix of the current file, a format whose name order flips at every minute, restarts with
            # append: "the newest file" must be the newest by date, not by name
            c = {"naming": "TsCD", "fmt": "r%S-%M-%H_%d-%m-%Y", "rot": True, "size": rng.choice([10, 30, 64]),
                 "mode": rng.choice(["direct", "buf"]), "cap": 64, "crlf": False}
            t0 = 58 + 60 * rng.randint(0, 5000)
            steps = []
            for r in range(rng.choice([2, 3, 4])):
                steps.append({"op": "Start", "append": rng.random() < 0.75})
                for _ in range(rng.choice([1, 2, 4])):
                    if rng.random() < 0.6:
                        steps.append({"op": "Adv", "dt": rng.choice([1, 2, 3, 61])})
                    steps.append({"op": "Log", "len": rng.choice([9, 12, 21, 40])})
                steps.append({"op": "Stop"})
                if rng.random() < 0.5:
                    steps.append({"op": "Adv", "dt": rng.choice([1, 2, 5, 60])})
        if i % 20 == 11:
            # the bare FileLogWriter with its own flusher thread (BufferAndFlush, long interval), no rotation, restarts with
            # append: the flusher thread of an earlier run outlives it - what that run accepted must be in the file when
            # its shutdown has returned, in front of what the next run writes
            c = {"rot": False, "naming": "Num", "mode": "bufflush", "cap": rng.choice([256, 8192]), "flush_ms": 1000, "crlf": False,
                 "via": "flw"}
            steps = []
            for r in range(rng.choice([2, 3])):
                steps.append({"op": "Start", "append": True})
                steps += [{"op": "Log", "len": rng.choice([9, 12, 21, 40])} for _ in range(rng.choice([1, 3, 5]))]
                steps.append({"op": "Stop"})
        if i % 5 == 4 and c.get("rot", True) and "use_ts" not in c:
            # FileLogWriter::builder().use_utc(): infixes rendered in UTC (the shards run under different zones)
            c["via"], c["utc"] = "flw", True
        out.append({"sc": sc0 + i, "cfg": c, "t0": t0, "steps": steps, "origin": "rand"})
    return out


ZONES = ["UTC", "IST-5:30", "VET4", "LINT-14", "DMO+07:59", "NPT-5:45"]


def C06(tier, seed):
    mc = [("MCFlw.tla", "MCFlw_C06q.cfg" if tier == "quick" else "MCFlw_C06t.cfg", 8, 2400)]
    gen = [("MCFlw.tla", "MCFlw_C06gen.cfg" if tier == "quick" else "MCFlw_C06gent.cfg", None, None)]
    return F.run("C06", tier, seed, mc=mc, gen=gen, rand_fn=_rand_c06, mon="MonC06",
                 shard_env=lambda i: {"TZ": ZONES[i % len(ZONES)]},
                 assumptions=A_COMMON + ["files are removed by the environment only while no logger runs"],
                 rule="(a) one maximal behaviour per distinct state of the bounded multi-run Flw model (up to 3 runs, "
                      "append flipped per run, forced rotations, restarts inside the same second and across seconds, "
                      "removal of any one family file between runs, with and without cleanup); (b) seeded random "
                      "multi-run histories (2-6 runs). distinct = distinct (cfg, step list) pairs",
                 regress=("C06.ndjson",))


def _rand_c07(rng, tier, sc0):
    n = 200 if tier == "quick" else 4000
    out = []
    for i in range(n):
        c = G.rand_cfg(rng, modes=("direct", "direct", "buf", "async"), clean=True, parts=(i % 2 == 0))
        c["suffix"] = rng.choice(["log", "txt", "trc", "a", "z", "-", "log"])
        c["crlf"] = False
        c["bg"] = rng.random() < 0.3
        if c["mode"] == "async":
            c["pool"], c["mcapa"], c["flush_ms"] = rng.choice([1, 4]), rng.choice([8, 64]), 0
        steps = []
        for r in range(rng.choice([1, 1, 2, 3])):
            h = [{"op": "Start", "append": rng.random() < 0.5}]
            for _ in range(rng.choice([3, 8, 20, 40])):
                x = rng.random()
                if x < 0.15:
                    h.append({"op": "Trigger"})
                elif x < 0.3:
                    h.append({"op": "Adv", "dt": rng.choice([1, 1, 2, 60, 86400])})
                h.append({"op": "Log", "len": max(9, rng.choice([9, 10, 11, 21, 40, min(c.get("size", 10), 5000) + 1]))})
            h.append({"op": "Stop"})
            steps += h
        out.append({"sc": sc0 + i, "cfg": c, "t0": G.boundary_t0(rng), "steps": steps, "origin": "rand",
                    "obs": "sync" if (c["bg"] or c["mode"] == "async") else "every"})
    return out


class _CleanQ:
    """FlwCleanQ.tla: the background cleanup thread, its channel and the limits at shutdown - model checked for every
    interleaving of the cleanup steps with further rotations, its behaviours stepped through the real code with the
    cleanup thread held at its hook points (TraceFlwCleanQ.tla: equal directory contents, predicted park points)."""
    KM = [(k, m, d) for d in (False, True) for (k, m) in [(1, 1), (0, 1), (2, 0), (0, 2), (1, 0), (1, 2)]]

    def before(self, wd, tier, seed, sc0):
        import random
        from . import common as C
        mc_stats, states, transitions = [], 0, 0
        t = "q" if tier == "quick" else "t"
        for (k, m, d) in self.KM:
            cfg = f"MCFlwCleanQ_{t}_{k}{m}{'d' if d else ''}.cfg"
            r = C.run_tlc("MCFlwCleanQ.tla", os.path.join(C.SPEC, cfg), os.path.join(wd, "mcq-" + cfg), workers=2, timeout=900)
            if r["violated"] or r["deadlock"]:
                raise C.ToolError(f"FlwCleanQ/{cfg} violates {r['violated']}: the model or the formalisation is wrong")
            mc_stats.append({"module": "FlwCleanQ", "cfg": cfg, "states": r["states"], "transitions": r["transitions"],
                             "depth": r["depth"], "wall_s": r["wall_s"]})
            states += r["states"]
            transitions += r["transitions"]
        for v, must in (("die_overrides", True), ("no_join", True), ("coalesce_acts", False)):
            r = C.run_tlc("MCFlwCleanQ.tla", os.path.join(C.SPEC, f"MCFlwCleanQ_{v}.cfg"), os.path.join(wd, "mcq-" + v), workers=1,
                          timeout=300)
            if must != ("C07_LimitsAtShutdown" in (r["violated"] or [])) or (not must and r["violated"]):
                raise C.ToolError(f"FlwCleanQ variant {v}: expected {'a violation of' if must else 'no violation of'} "
                                  f"C07_LimitsAtShutdown, got {r['violated']}")
        C.log(f"[C07] TLC FlwCleanQ.tla ({len(self.KM)} cleanup configurations (rCURRENT and direct naming) x {3 if tier == 'quick' else 5} rotations, every "
              f"interleaving of recv / listing / remove / compression steps with rotations and shutdown): {states} distinct states; "
              f"LimitsAtShutdown, NotRemovedEarly, NotCompressedEarly, OriginalUntilFinished, CurrentSafe and the liveness property ShutdownReturns "
              f"hold; the variants 'a Die overrides queued Acts' and 'shutdown does not join' violate LimitsAtShutdown, "
              f"'consecutive Acts coalesced' does not (sanity of the invariant)")
        # the same with failing effects inside the cleanup thread (FlwCleanQF.tla)
        fstates = 0
        self.KMF = [(k, m, d) for d in (False, True) for (k, m) in [(1, 1), (0, 1), (1, 2), (1, 0)]]
        for (k, m, d) in self.KMF:
            cfg = f"MCFlwCleanQF_{t}_{k}{m}{'d' if d else ''}.cfg"
            r = C.run_tlc("MCFlwCleanQF.tla", os.path.join(C.SPEC, cfg), os.path.join(wd, "mcqf-" + cfg), workers=2, timeout=900)
            if r["violated"] or r["deadlock"]:
                raise C.ToolError(f"FlwCleanQF/{cfg} violates {r['violated']}: the model or the formalisation is wrong")
            mc_stats.append({"module": "FlwCleanQF", "cfg": cfg, "states": r["states"], "transitions": r["transitions"],
                             "depth": r["depth"], "wall_s": r["wall_s"]})
            states += r["states"]
            transitions += r["transitions"]
            fstates += r["states"]
        C.log(f"[C07] TLC FlwCleanQF.tla (the same with up to {2 if tier == 'quick' else 3} failing effects inside the cleanup thread, "
              f"{len(self.KMF)} configurations): {fstates} distinct states; CleanupResumes (the limits hold exactly again as soon as one run "
              f"that listed after the last rotation completes), OnlyFinishedReplace, NotRemovedEarly, NotCompressedEarly, CurrentSafe "
              f"and the liveness property hold")
        scens = []
        rng = random.Random(seed * 31 + 7)
        self.nbeh = 0
        self.nf = 0
        for (k, m, d) in self.KMF:
            cfg = f"MCFlwCleanQF_gen_{k}{m}{'d' if d else ''}.cfg"
            r = C.run_tlc("MCFlwCleanQF.tla", os.path.join(C.SPEC, cfg), os.path.join(wd, "genqf-" + cfg), workers=1, timeout=600)
            reps = [x for x in C.replay_lines(r) if any(st["op"] == "CFail" for st in x["steps"])]
            states += r["states"]
            transitions += r["transitions"]
            if tier == "quick" and len(reps) > 40:
                rng.shuffle(reps)
                reps = reps[:40]
            for j, rp in enumerate(reps):
                steps = [{"op": "HoldCleaner"}, {"op": "Start", "append": False}]
                for st in rp["steps"]:
                    op = st["op"]
                    if op == "Rotate":
                        steps += [{"op": "Log", "len": rng.choice([9, 12, 40])}, {"op": "Trigger", "q": "Rotate"}]
                    elif op == "CRecv":
                        steps.append({"op": "CGo", "q": "CRecv", "exit": st["m"] == "Die"})
                    elif op in ("CList", "CStep"):
                        steps.append({"op": "CGo", "q": op})
                    elif op == "CFail":
                        # the very next file-system effect - the one the held thread is parked in front of - fails
                        steps += [{"op": "Fault", "name": "*", "from": 1, "burst": 1, "kind": "other"}, {"op": "CGo", "q": "CFail"}]
                    elif op == "Shutdown":
                        steps.append({"op": "ShutdownBegin"})
                    elif op == "Join":
                        steps.append({"op": "ShutdownEnd"})
                steps.append({"op": "Stop", "shutdown": False, "q": "cleanfail"})
                c = {"naming": "NumD" if d else "Num", "rot": True, "size": 1000000, "mode": ["direct", "buf"][j % 2],
                     "cap": 64, "bg": True, "crlf": False}
                if k or not m:
                    c["k"] = k
                if m:
                    c["m"] = m
                # (MonC07 judges limits at quiescence; after a cleanup that failed last they need not hold)
                scens.append({"sc": sc0 + len(scens), "cfg": c, "t0": 1000, "steps": steps, "origin": "tlc:FlwCleanQF",
                              "obs": "sync", "cq": {"k": k, "m": m, "d": d}, "tag": {"cleanfail": True}})
                self.nf += 1
        for (k, m, d) in self.KM:
            reps = []
            for g in (["gen"] if tier == "quick" else ["gen", "gent"]) + (["gent"] if tier == "quick" and (k, m) == (1, 1) else []):
                cfg = f"MCFlwCleanQ_{g}_{k}{m}{'d' if d else ''}.cfg"
                r = C.run_tlc("MCFlwCleanQ.tla", os.path.join(C.SPEC, cfg), os.path.join(wd, "genq-" + cfg), workers=1, timeout=600)
                rr = C.replay_lines(r)
                if g == "gent" and tier == "quick":
                    rng.shuffle(rr)
                    rr = rr[:60]
                reps += rr
                states += r["states"]
                transitions += r["transitions"]
            self.nbeh += len(reps)
            for j, rp in enumerate(reps):
                steps = [{"op": "HoldCleaner"}, {"op": "Start", "append": False}]
                for st in rp["steps"]:
                    op = st["op"]
                    if op == "Rotate":
                        steps += [{"op": "Log", "len": rng.choice([9, 12, 40])}, {"op": "Trigger", "q": "Rotate"}]
                    elif op == "CRecv":
                        steps.append({"op": "CGo", "q": "CRecv", "exit": st["m"] == "Die"})
                    elif op in ("CList", "CStep"):
                        steps.append({"op": "CGo", "q": op})
                    elif op == "Shutdown":
                        steps.append({"op": "ShutdownBegin"})
                    elif op == "Join":
                        steps.append({"op": "ShutdownEnd"})
                steps.append({"op": "Stop", "shutdown": False})
                c = {"naming": "NumD" if d else "Num", "rot": True, "size": 1000000, "mode": ["direct", "buf"][j % 2],
                     "cap": 64, "bg": True, "crlf": False}
                if k or not m:
                    c["k"] = k
                if m:
                    c["m"] = m
                scens.append({"sc": sc0 + len(scens), "cfg": c, "t0": 1000, "steps": steps, "origin": "tlc:FlwCleanQ",
                              "obs": "sync", "cq": {"k": k, "m": m, "d": d}})
        self.n = len(scens)
        return scens, mc_stats, states, transitions

    def after(self, res, wd):
        import concurrent.futures
        import re
        from . import common as C
        per = {}
        for tf in res["traces"]:
            cur = None
            for line in open(tf):
                if '"ev":"Begin"' in line:
                    cur = None
                    if '"origin":"tlc:FlwCleanQ"' in line or '"origin":"tlc:FlwCleanQF"' in line:
                        e = json.loads(line)
                        cur = (e["cfg"].get("k", 0), e["cfg"].get("m", 0), e["cfg"].get("naming") == "NumD",
                               e["origin"] == "tlc:FlwCleanQF")
                if cur is not None:
                    per.setdefault(cur, []).append(line)
        drifts = []

        def one(km):
            lines = per[km]
            out = []
            for rnd in range(4):
                mod = "TraceFlwCleanQF" if km[3] else "TraceFlwCleanQ"
                tf = os.path.join(wd, f"cq-{km[0]}{km[1]}{int(km[2])}{int(km[3])}-{rnd}.ndjson")
                open(tf, "w").writelines(lines)
                r = C.run_tlc(mod + ".tla", os.path.join(C.SPEC, mod + ".cfg"),
                              os.path.join(wd, f"cq-meta-{km[0]}{km[1]}{int(km[2])}{int(km[3])}-{rnd}"), workers=1, timeout=900,
                              env={"TRACE": tf, "K": str(km[0]), "M": str(km[1]), "DIRECT": "1" if km[2] else "0"}, xmx="2g")
                consumed = 0
                for tag, rest in r["printed"]:
                    if tag == "CONSUMED":
                        consumed = int(re.findall(r"\d+", rest)[0])
                if consumed == len(lines):
                    break
                bad = r["depth"]
                if bad < 1 or bad > len(lines):
                    raise C.ToolError(f"conform mode (cleanup thread): cannot locate the unexplained event ({tf}, depth {bad})")
                e = json.loads(lines[bad - 1])
                out.append((e.get("sc"), e.get("n"), e.get("ev") + ":" + str(e.get("q", ""))))
                b0 = max(j for j in range(bad) if '"ev":"Begin"' in lines[j])
                b1 = next((j for j in range(bad, len(lines)) if '"ev":"Begin"' in lines[j]), len(lines))
                lines = lines[:b0] + lines[b1:]
                if not lines:
                    break
            return out

        with concurrent.futures.ThreadPoolExecutor(max_workers=6) as ex:
            for d in ex.map(one, list(per)):
                drifts += d
        nev = sum(len(v) for v in per.values())
        C.log(f"[C07] FlwCleanQ.tla / FlwCleanQF.tla on the code: {self.n} behaviours ({self.nf} of them with a failing effect inside the "
              f"cleanup thread) stepped through the real cleanup thread "
              f"(held in front of every recv, at the start of every run and in front of every file-system effect), {nev} events; "
              f"conform mode (TraceFlwCleanQ.tla: every step is the specification's action, equal sets of plain / compressed files, "
              f"the thread parks where the specification predicts, limits when shutdown() has returned): "
              + ("all accepted" if not drifts else f"{len(drifts)} not accepted"))
        for (dsc, dn, dev) in drifts[:10]:
            C.log(f"NOTE conformance-drift: scenario {dsc} event {dn} ({dev}) is not a step of FlwCleanQ.tla - the code no longer "
                  f"follows the detailed model there (no property verdict; the monitor decides the property)")
        return {"conform_mode_cleanup_thread": {"spec": "TraceFlwCleanQ.tla", "behaviours_replayed": self.n, "events_checked": nev,
                                                "accepted": self.n - len({d[0] for d in drifts}),
                                                "drifts": [{"sc": d[0], "n": d[1], "ev": d[2]} for d in drifts[:20]]}}


def C07(tier, seed):
    mc = [("MCFlw.tla", "MCFlw_C07q.cfg" if tier == "quick" else "MCFlw_C07t.cfg", 8, 2400)]
    gen = [("MCFlw.tla", "MCFlw_C07gen.cfg" if tier == "quick" else "MCFlw_C07gent.cfg", None, None)]
    return F.run("C07", tier, seed, mc=mc, gen=gen, rand_fn=_rand_c07, mon="MonC07",
                 assumptions=A_COMMON + ["background cleanup thread / async writer: observations judged after "
                                         "Stop (shutdown joins the cleanup thread); interleavings of the cleanup "
                                         "thread with further rotations are explored by FlwConc (thorough)"],
                 rule="(a) one maximal behaviour per distinct state of the bounded Flw model with cleanup "
                      "(k in 0..1(2), m in 0..1, four namings, restarts, forced rotations); (b) seeded random histories "
                      "with k up to 5, m up to 4, suffix catalogue {log,txt,trc,a,z,none}, sync/background/async "
                      "cleanup. distinct = distinct (cfg, step list) pairs; (c) every behaviour of FlwCleanQ.tla with 2 "
                      "(quick; a sample with 3) / 3 (thorough) rotations replayed with the cleanup thread under schedule control",
                 regress=("C07.ndjson",), extra=_CleanQ())


def _rand_c09(rng, tier, sc0):
    n = 250 if tier == "quick" else 5000
    out = []
    day = 86400
    for i in range(n):
        c = G.rand_cfg(rng, criteria=("age", "age", "both"), modes=("direct", "direct", "buf"))
        c["crlf"] = False
        if "size" in c:
            c["size"] = rng.choice([30, 100, 5000])
        steps = []
        for r in range(rng.choice([1, 1, 2, 3])):
            h = [{"op": "Start", "append": rng.random() < 0.6}]
            for _ in range(rng.choice([2, 6, 15])):
                x = rng.random()
                if x < 0.5:
                    h.append({"op": "Adv", "dt": rng.choice([1, 1, 2, 58, 59, 60, 61, 3599, 3600, day - 1, day, 31 * day,
                                                               365 * day, 28 * day, 7 * day, 3 * day + 7])})
                h.append({"op": "Log", "len": rng.choice([9, 12, 33])})
            h.append({"op": "Stop"})
            if rng.random() < 0.4:
                h.append({"op": "Adv", "dt": rng.choice([1, 60, 3600, day, 31 * day])})
            steps += h
        if i % 4 == 3:
            # FileLogWriter::builder().use_utc(): periods by the local clock, names rendered in UTC
            c["via"], c["utc"] = "flw", True
        out.append({"sc": sc0 + i, "cfg": c, "t0": G.boundary_t0(rng), "steps": steps, "origin": "rand"})
    return out


def C09(tier, seed):
    mc = [("MCFlw.tla", "MCFlw_C09q.cfg" if tier == "quick" else "MCFlw_C09t.cfg", 8, 2400)]
    gen = [("MCFlw.tla", "MCFlw_C09gen.cfg" if tier == "quick" else "MCFlw_C09gent.cfg", None, None)]
    # one fixed-offset zone per shard (POSIX TZ strings need no tz database): UTC, +05:30, -04:00, +14:00, -07:59
    zones = ["UTC", "IST-5:30", "VET4", "LINT-14", "DMO+07:59", "NPT-5:45"]
    return F.run("C09", tier, seed, mc=mc, gen=gen, rand_fn=_rand_c09, mon="MonC09",
                 shard_env=lambda i: {"TZ": zones[i % len(zones)]},
                 assumptions=A_COMMON + ["harness shards run under the fixed-offset zones UTC, +05:30, -04:00, +14:00, "
                                         "-07:59, +05:45 (the virtual clock is civil local time); DST zones are outside "
                                         "the property"],
                 rule="(a) one maximal behaviour per distinct state of the bounded Flw model with age criterion: "
                      "T0 = Jan 15 23:59:58, clock steps {1s, 1h, 1d, 31d, 365d} so that second/minute/hour/day/month/"
                      "year boundaries and same-day-of-month / same-date-next-year instants occur, append restarts; "
                      "(b) seeded random histories from a boundary catalogue. distinct = distinct (cfg, step list) pairs")


def _post_c18(s):
    """Reset steps of the model carry a model cfg: convert, and give every new family its own directory."""
    nfam = 0
    mode = {k: s["cfg"][k] for k in ("mode", "cap") if k in s["cfg"]}
    for st in s["steps"]:
        if st["op"] == "Reset":
            nfam += 1
            c = G.model_cfg_to_harness(st["cfg"], {"subdir": f"fam{nfam}", "basename": f"app{nfam}", "full": True})
            c.update(mode)
            st["cfg"] = c
    return s


def _rand_c18(rng, tier, sc0):
    n = 200 if tier == "quick" else 4000
    out = []
    for i in range(n):
        c = G.rand_cfg(rng, modes=("direct", "buf", "bufflush"))
        c["crlf"] = False
        if i % 4 == 0:
            c = {"rot": False, "naming": "Num", "mode": c["mode"], "cap": c.get("cap", 64),
                 "flush_ms": c.get("flush_ms", 0)}
        c["fw"] = i % 3 == 2          # default channel = file and a writer (log_to_file_and_writer)
        if i % 5 == 4:
            c["fw"] = False
            c["asadd"] = True         # the file writer as additional writer, default channel stderr
        if "size" in c:
            c["size"] = rng.choice([20, 60, 500])
        steps = [{"op": "Start", "append": rng.random() < 0.3}]
        nfam = 0
        steps_cfg = [c]
        for _ in range(rng.choice([4, 10, 25])):
            x = rng.random()
            if x < 0.12:
                steps.append({"op": "ExtRename", "which": "cur"})
                if rng.random() < 0.3:
                    steps.append({"op": "Log", "len": rng.choice([9, 12, 30])})
                steps.append({"op": "Reopen"})
            elif x < 0.18:
                steps.append({"op": "ExtRemove", "which": "cur"})
                steps.append({"op": "Reopen"})
            elif x < 0.26:
                nfam += 1
                c2 = G.rand_cfg(rng, modes=(c["mode"],))
                c2["crlf"] = False
                for k in ("mode", "cap", "flush_ms"):
                    if k in c:
                        c2[k] = c[k]
                    else:
                        c2.pop(k, None)
                if rng.random() < 0.3:
                    c2 = {"rot": False, "naming": "Num", **{k: c[k] for k in ("mode", "cap", "flush_ms") if k in c}}
                c2.update({"subdir": f"fam{nfam}", "basename": f"app{nfam}", "full": True})
                if nfam == 1 and rng.random() < 0.5:
                    # (only as the first reset of a history, so that the families in one directory stay disjoint)
                    # same file spec, only the rotation settings change (families told apart by their names:
                    # no rotation <-> rotation, or number-direct <-> timestamp-direct infixes)
                    cur = steps_cfg[-1]
                    if not cur.get("rot", True):
                        c2.update({"rot": True, "naming": rng.choice(["Num", "TsD", "NumD"]), "size": rng.choice([20, 60])})
                        c2.pop("age", None)
                    elif cur.get("naming") == "NumD":
                        c2.update({"rot": True, "naming": "TsD", "size": 40})
                        c2.pop("age", None)
                    else:
                        c2 = {"rot": False, "naming": "Num", **{k: c[k] for k in ("mode", "cap", "flush_ms") if k in c},
                              "full": True}
                    c2["subdir"] = cur.get("subdir", "logs")
                    c2["basename"] = cur.get("basename", "app")
                    for k in ("discr", "suffix"):
                        if k in cur:
                            c2[k] = cur[k]
                        else:
                            c2.pop(k, None)
                    c2["crlf"] = False
                steps_cfg.append(c2)
                steps.append({"op": "Reset", "cfg": c2})
            elif x < 0.32:
                steps.append({"op": "Reopen"})
            elif x < 0.4:
                steps.append({"op": "Trigger"})
            elif x < 0.48:
                steps.append({"op": "Flush"})
            elif x < 0.55:
                steps.append({"op": "Adv", "dt": rng.choice([1, 60, 86400])})
            steps.append({"op": "Log", "len": rng.choice([9, 10, 12, 21, 40, 100])})
        steps.append({"op": "Stop"})
        out.append({"sc": sc0 + i, "cfg": c, "t0": G.boundary_t0(rng), "steps": steps, "origin": "rand"})
    return out


def C18(tier, seed):
    mc = [("MCFlw.tla", "MCFlw_C18q.cfg" if tier == "quick" else "MCFlw_C18t.cfg", 8, 2400)]
    gen = [("MCFlw.tla", "MCFlw_C18gen.cfg" if tier == "quick" else "MCFlw_C18gent.cfg", None, None)]
    return F.run("C18", tier, seed, mc=mc, gen=gen, rand_fn=_rand_c18, mon="MonC18", post_scen=_post_c18,
                 assumptions=A_COMMON + ["after an external rename/removal of the current file the application calls "
                                         "reopen_output() (records logged in between are attributed to the old file); "
                                         "reset_flw switches to a family in another directory; synchronous write modes"],
                 rule="(a) one maximal behaviour per distinct state of the bounded Flw model extended with ExtRenameCur/"
                      "ExtRemoveCur/Reopen/Reset (up to 2-3 switches, with/without rotation, direct/buffered); "
                      "(b) seeded random histories mixing writes, flushes, forced rotations with rename/remove+reopen "
                      "and resets to other families / rotation settings. distinct = distinct (cfg, step list) pairs")


SYM = {"a": "a", "b": "b", "n": "\n", "F": "F", "S": "S", "x": "x", "y": "y"}
C15_MODES = [
    {"mode": "direct"},
    {"mode": "buf", "cap": 4},
    {"mode": "buf", "cap": 64},
    {"mode": "bufflush", "cap": 4, "flush_ms": 1},
    {"mode": "async", "pool": 1, "mcapa": 2, "flush_ms": 0},
    {"mode": "async", "pool": 4, "mcapa": 64, "flush_ms": 1},
    # the writer thread is held at its hook point until the shutdown: everything that goes through the channel queues
    # up, so a path that bypasses the channel would overtake (histories without forced rotation only)
    {"mode": "async", "pool": 2, "mcapa": 64, "flush_ms": 0, "hold": True},
]


def _c15_group(grp, base_cfg, steps, origin, sc0, tag=None):
    out = []
    ctrl = any(st.get("op") == "Chunk" and st.get("hex") in ("46", "53") for st in steps)
    has_trigger = any(st.get("op") in ("Trigger", "HoldWriter") for st in steps)
    k = -1
    for m in C15_MODES:
        if m.get("hold") and has_trigger:
            continue
        k += 1
        j = k
        c = dict(base_cfg)
        c.update({x: y for x, y in m.items() if x != "hold"})
        if origin == "obstacle" and c["mode"] == "async":
            c["flush_ms"] = 0       # (no flusher thread: its Flush messages would be counted as steps of the writer thread)
        c["via"] = "flw"
        t = {"ctrl_chunk": ctrl}
        if tag:
            t.update(tag)
        sts = [dict(s) for s in steps]
        if m.get("hold"):
            sts.insert(1, {"op": "HoldWriter"})
        out.append({"sc": sc0 + j, "grp": grp, "cfg": c, "t0": 1000, "raw": True, "obs": "sync",
                    "steps": sts, "origin": origin, "tag": t})
    return out


def _c15_from_model(replays, sc0):
    scens = []
    grp = 0
    for r in replays:
        steps = [{"op": "Start", "append": False}]
        for st in r["steps"]:
            if st["op"] == "Chunk":
                txt = "".join(SYM[x] for x in st["m"])
                if len(txt) >= 2 and txt.endswith("\n"):
                    steps.append({"op": "Log", "msg": txt[:-1], "len": len(txt)})
                else:
                    steps.append({"op": "Chunk", "hex": txt.encode().hex()})
            elif st["op"] in ("Flush", "Trigger"):
                steps.append({"op": st["op"]})
            elif st["op"] == "Stop":
                steps += [{"op": "Shutdown"}, {"op": "Stop"}]
        if steps[-1]["op"] != "Stop":
            steps += [{"op": "Shutdown"}, {"op": "Stop"}]
        base = {"naming": "Num", "rot": r["cfg"]["size"] >= 0}
        if r["cfg"]["size"] >= 0:
            base["size"] = r["cfg"]["size"]
        grp += 1
        scens += _c15_group(grp, base, steps, "tlc:MCModes", sc0 + len(scens))
    return scens


def _rand_c15(rng, tier, sc0, grp0):
    n = 60 if tier == "quick" else 1500
    scens = []
    for i in range(n):
        base = {"naming": rng.choice(["Num", "NumD"]), "rot": rng.random() < 0.7}
        if base["rot"]:
            base["size"] = rng.choice([0, 3, 20, 100])
        # Windows line endings, and records whose message logs to the same writer while it is formatted (every third history)
        base["crlf"] = (i % 3 == 1) or rng.random() < 0.2
        nested = (i % 3 == 1)
        steps = [{"op": "Start", "append": False}]
        for _ in range(rng.choice([3, 8, 20])):
            x = rng.random()
            if x < 0.5:
                ln = rng.choice([1, 2, 5, 9, 30, 70, 300])
                st = {"op": "Log", "len": ln}
                if nested and rng.random() < 0.4:
                    st.update({"len": max(ln, 12), "recursive": rng.choice([1, 1, 2]), "ilen": rng.choice([12, 30, 250])})
                steps.append(st)
            elif x < 0.9:
                kind = rng.random()
                if kind < 0.25:
                    b = bytes([rng.randrange(256)])
                elif kind < 0.35:
                    b = b""
                elif kind < 0.45:
                    b = rng.choice([b"F", b"S", b"FS", b"F\n", b"SS"])
                elif kind < 0.6:
                    b = bytes(rng.randrange(256) for _ in range(rng.choice([2, 7, 65, 300])))
                else:
                    b = ("chunk%d" % rng.randrange(1000)).encode() + (b"\n" if rng.random() < 0.5 else b"")
                steps.append({"op": "Chunk", "hex": b.hex()})
            else:
                steps.append({"op": "Flush"})
        steps += [{"op": "Shutdown"}, {"op": "Stop"}]
        scens += _c15_group(grp0 + i, base, steps, "rand", sc0 + len(scens))
    return scens


def C15(tier, seed):
    import json
    import os
    import random
    import shutil
    import time
    from . import common as C
    t0 = time.time()
    pid = "C15"
    wd = C.workdir(pid)
    try:
        build_s = C.build_harness()
        states = transitions = 0
        mc_stats = []
        for cfg in (["MCModes_q.cfg", "MCModes_qnorot.cfg"] if tier == "quick" else ["MCModes_t.cfg", "MCModes_qnorot.cfg"]):
            r = C.run_tlc("MCModes.tla", os.path.join(C.SPEC, cfg), os.path.join(wd, "mc-" + cfg), workers=8, timeout=1800)
            if r["violated"]:
                raise C.ToolError(f"Modes/{cfg} violates {r['violated']} in the ideal configuration")
            mc_stats.append({"cfg": cfg, "states": r["states"], "transitions": r["transitions"], "wall_s": r["wall_s"]})
            states += r["states"]
            transitions += r["transitions"]
            C.log(f"[C15] TLC {cfg}: {r['states']} distinct states - ModeIndependent, SyncModesAgree, ShutdownCompletes hold "
                  f"(intended design)")
        # as-is configuration: every open deviation must show up as a counterexample (and is replayed below)
        r = C.run_tlc("MCModes.tla", os.path.join(C.SPEC, "MCModes_asis.cfg"), os.path.join(wd, "mc-asis"), workers=1, timeout=600)
        asis_violated = r["violated"]
        C.log(f"[C15] TLC MCModes_asis.cfg (as coded): violated invariants: {asis_violated or 'none'}")
        gcfg = "MCModes_gen.cfg" if tier == "quick" else "MCModes_gent.cfg"
        r = C.run_tlc("MCModes.tla", os.path.join(C.SPEC, gcfg), os.path.join(wd, "gen"), workers=4, timeout=900)
        reps = C.replay_lines(r)
        states += r["states"]
        transitions += r["transitions"]
        scens = _c15_from_model(reps, 1)
        n_model = len(scens)
        rng = random.Random(seed)
        scens += _rand_c15(rng, tier, len(scens) + 1, 1000000)
        # records that fail while a directory occupies the path of the log file, then the obstacle goes away and logging
        # goes on: the same records are lost under every write mode and nothing of them turns up later. In async mode the
        # writer thread is stepped through the queued messages (the Flush message behind them marks that they are done)
        grp0 = 2000000
        for i in range(6 if tier == "quick" else 60):
            rot = i % 2 == 1
            base_cfg = {"naming": "Num", "rot": rot, "crlf": False, "append": True}
            if rot:
                base_cfg["size"] = rng.choice([30, 100])
            obst = "app_rCURRENT.log" if rot else "app.log"
            nlost = rng.choice([1, 2, 3])
            steps = [{"op": "ExtCreate", "name": obst, "dir": True, "content": ""}, {"op": "Start", "append": True},
                     {"op": "HoldWriter"}]
            steps += [{"op": "Log", "len": rng.choice([9, 12, 40]), "q": "lost"} for _ in range(nlost)]
            steps.append({"op": "Flush"})
            steps += [{"op": "WStep"} for _ in range(nlost)]
            steps += [{"op": "ExtRemove", "which": obst}, {"op": "WFree"}]
            steps += [{"op": "Log", "len": rng.choice([9, 12, 40, 70])} for _ in range(rng.choice([2, 4, 7]))]
            steps += [{"op": "Shutdown"}, {"op": "Stop", "shutdown": False}]
            g = _c15_group(grp0 + i, base_cfg, steps, "obstacle", len(scens) + 1)
            scens += g
        res = C.run_sharded(pid, "MonC15", scens, wd)
        C.log(f"[C15] {len(reps)} histories from TLC + random, x {len(C15_MODES)} write modes = {res['scenarios']} executions / "
              f"{res['events']} events; judged by MonC15.tla in {res['wall_s']}s; {len(res['bads'])} predicate failures; "
              f"counters {res['counts']}")
        viols, known = C.triage(pid, res["bads"], res["traces"], res["scen_files"])
        for fnd, cnt in known:
            C.log(f"KNOWN-FINDING: property={pid} {fnd['id']}: {fnd['what']} ({cnt} occurrences)")
        for v in viols[:10]:
            C.log(f"VIOLATION property={pid} replay={v['replay']}")
            C.log(f"   predicate {v['pred']} failed at scenario {v['sc']} event {v['n']}; facts {v['facts']}")
        cov = {"states": states, "transitions": transitions, "traces_validated_against_impl": res["scenarios"],
               "events_judged": res["events"], "evaluations": res["scenarios"],
               "distinct_nontrivial": len({json.dumps([s["cfg"], s["steps"]], sort_keys=True) for s in scens}),
               "rule": "every history of <= 3 (quick) / 4 (thorough) operations over the message alphabet of MCModes.tla "
                       "(record lines, empty chunk, chunk without line ending, the single bytes F and S, a chunk longer "
                       "than the buffer; flush) with and without size rotation, plus seeded random histories with "
                       "single bytes of every value and chunks up to 300 bytes; each executed under "
                       f"{len(C15_MODES)} write modes and compared",
               "samples": C.sample_traces(res["traces"], k=2, maxev=8),
               "model_checking_runs": mc_stats, "asis_model_violations": asis_violated,
               "histories_from_spec": len(reps), "scenarios_from_spec": n_model, "monitor": "MonC15.tla",
               "monitor_counters": res["counts"], "predicate_failures": len(res["bads"]),
               "known_findings_hit": [{"id": f["id"], "count": c} for f, c in known], "exhaustive": False,
               "harness_build_s": round(build_s, 1)}
        C.write_evidence(pid, tier, seed, "model_checking", cov,
                         A_COMMON + ["forced rotations are outside C15's quantifier (in async mode trigger_rotation "
                                     "overtakes queued messages; Modes.tla documents this)"], time.time() - t0, len(viols))
        return 1 if viols else 0
    finally:
        if not os.environ.get("VERIF_KEEP"):
            shutil.rmtree(wd, ignore_errors=True)


def foreign_names(c):
    """Near-miss names derived from the family pattern of cfg c by mutation operators (all are outside the
    documented pattern [basename][_discriminant][_infix][.suffix][.gz])."""
    b = c.get("basename", "app")
    d = c.get("discr")
    sfx = c.get("suffix", "log")
    dot = "" if sfx == "-" else "." + sfx
    fixed = "_".join([x for x in [b, d] if x])
    sep = "_" if fixed else ""
    num = c["naming"] in ("Num", "NumD")
    inf = ["r00007", "r00000", "r00001"] if num else ["r2030-01-01_00-16-40", "r2029-12-31_23-59-59"]
    cur = c.get("cur") or ("rCURRENT" if c["naming"] in ("Num", "Ts") else "")
    out = []
    i0 = inf[0]
    if fixed:
        out += [f"{fixed}X{sep}{i0}{dot}",            # longer basename sharing the prefix
                f"{fixed}X{i0}{dot}",                 # ... without separator
                f"{fixed}{i0}{dot}",                  # separator missing
                f"{fixed}2{sep}{cur or i0}{dot}",
                f"{fixed[:-1]}{sep}{i0}{dot}" if len(fixed) > 1 else f"zz{sep}{i0}{dot}",   # shorter basename
                f"{fixed}_other{sep}{i0}{dot}",       # other discriminant
                f"{fixed}{sep}{dot}" if dot else f"{fixed}{sep}x",                          # empty infix
                f"{fixed}\u00e9{sep}{i0}{dot}",      # multi-byte character at the separator offset
                f"{fixed}{sep}\u00e9{i0[1:]}{dot}",  # multi-byte character at the infix offset
                ]
    out += [f"{fixed}{sep}{i0}.txt2",                 # other suffix
            f"{fixed}{sep}{i0}{dot}.bak",
            f"{fixed}{sep}{i0}{dot}.gz.tmp",
            f"{fixed}{sep}{inf[1]}.extra{dot}",       # extra dots
            f"{fixed}{sep}{inf[1]}.restart-1{dot}",   # malformed restart part
            f"{fixed}{sep}{inf[1]}.restart-000x{dot}",
            f"{fixed}{sep}r2d2{dot}",                 # infix-like fragments
            f"{fixed}{sep}rabbit{dot}",
            f"{fixed}{sep}{i0}x{dot}",
            f"{fixed}{sep}x{i0}{dot}",
            f"{fixed}{sep}{i0[:-1]}\u00e9{dot}",     # multi-byte character inside the infix
            f"{fixed}{sep}r2030-13-45_99-99-99{dot}" if not num else f"{fixed}{sep}r0000x{dot}",
            ]
    # compressed look-alikes: extra dots / extra parts in front of the suffix, non-ASCII digits
    out += [f"{fixed}{sep}{i0}.{dot}.gz" if dot else f"{fixed}{sep}{i0}..gz",
            f"{fixed}{sep}{inf[1]}.extra{dot}.gz",
            f"{fixed}{sep}{inf[1]}.{dot}" if dot else f"{fixed}{sep}{inf[1]}.",
            f"{fixed}{sep}{i0[:-1]}\uff17{dot}",          # full-width digit seven
            f"{fixed}{sep}{i0[:-1]}\u0663{dot}",          # arabic-indic digit three
            f"{fixed}{sep}{i0[:-1]}\uff17{dot}.gz",
            ]
    if cur:
        out += [f"{fixed}{sep}{cur}x{dot}", f"{fixed}{sep}{cur}{dot}.gz", f"{fixed}{sep}x{cur}{dot}"]
    if dot:
        out += [f"{fixed}{sep}{i0}"]                  # suffix missing
        # names that consist of the text of the suffix only, or are shorter than it (no dot in front of it)
        out += [sfx, sfx[1:] or "x", f"{fixed}{sep}{sfx}", f"{fixed}{sfx}"]
    if fixed and c.get("rot", True):
        out += [f"{fixed}{dot}"] if dot else []       # the non-rotating name
    # no duplicates, nothing that is a family name
    seen, res = set(), []
    for n in out:
        if n and n not in seen:
            seen.add(n)
            res.append(n)
    return res


def _c14_pair(grp, c, t0, steps, origin, sc0):
    """reference run (Nop instead of creating foreign files) + run with foreign files"""
    names = foreign_names(c)
    pre_ref = [{"op": "Nop"} for _ in names] + [{"op": "Nop"}]
    pre_for = [{"op": "ExtCreate", "name": n, "content": f"foreign {j}\n" * (j % 3 + 1)} for j, n in enumerate(names)]
    sub = c.get("basename", "app")
    far = (("_".join([x for x in [c.get("basename", "app"), c.get("discr")] if x]) + "_") if (c.get("basename", "app") or c.get("discr")) else "") \
        + ("r00099" if c["naming"] in ("Num", "NumD") else "r2001-01-01_00-00-00") + ("" if c.get("suffix", "log") == "-" else "." + c.get("suffix", "log"))
    pre_for.append({"op": "ExtCreate", "name": far, "dir": True})   # a sub-directory named like a rotated file
    a = {"sc": sc0, "grp": grp, "cfg": c, "t0": t0, "steps": pre_ref + steps, "origin": origin, "tag": {"role": "ref"}}
    b = {"sc": sc0 + 1, "grp": grp, "cfg": c, "t0": t0, "steps": pre_for + steps, "origin": origin,
         "tag": {"role": "foreign"}}
    return [a, b]


def _c14_steps(rng, c):
    steps = []
    sels = [{"plain": True}, {"plain": True, "cur": True, "gz": True}, {"plain": False, "gz": True},
            {"plain": False, "cur": True}]
    for r in range(rng.choice([1, 2, 3])):
        h = [{"op": "Start", "append": rng.random() < 0.5}]
        for _ in range(rng.choice([2, 6, 15])):
            x = rng.random()
            if x < 0.15:
                h.append({"op": "Trigger"})
            elif x < 0.3:
                h.append({"op": "Adv", "dt": rng.choice([1, 1, 60, 86400])})
            elif x < 0.4:
                h.append({"op": "Elf", "sel": rng.choice(sels)})
            h.append({"op": "Log", "len": max(9, rng.choice([9, 10, 11, 21, 40, min(c.get("size", 10), 500) + 1]))})
        h.append({"op": "Elf", "sel": rng.choice(sels)})
        h.append({"op": "Stop"})
        steps += h
    return steps


def C14(tier, seed):
    import json
    import os
    import random
    import shutil
    import time
    from . import common as C
    t0 = time.time()
    pid = "C14"
    wd = C.workdir(pid)
    try:
        build_s = C.build_harness()
        states = transitions = 0
        mc_stats = []
        for cfg in (["MCFlw_C07q.cfg"] if tier == "quick" else ["MCFlw_C07t.cfg", "MCFlw_C06q.cfg"]):
            r = C.run_tlc("MCFlw.tla", os.path.join(C.SPEC, cfg), os.path.join(wd, "mc-" + cfg), workers=8, timeout=2400)
            if r["violated"]:
                raise C.ToolError(f"Flw/{cfg} violates {r['violated']}")
            mc_stats.append({"cfg": cfg, "states": r["states"], "transitions": r["transitions"], "wall_s": r["wall_s"]})
            states += r["states"]
            transitions += r["transitions"]
            C.log(f"[C14] TLC {cfg}: {r['states']} distinct states; the model lists and cleans family names only "
                  f"(foreign names are outside `dir` by construction)")
        scens = []
        rng = random.Random(seed)
        grp = 0
        nmodel = 0
        for gcfg in (["MCFlw_C07gen.cfg", "MCFlw_C06gen.cfg"]):
            r = C.run_tlc("MCFlw.tla", os.path.join(C.SPEC, gcfg), os.path.join(wd, "gen-" + gcfg), workers=4, timeout=900)
            reps = C.drop_prefixes(C.replay_lines(r))
            states += r["states"]
            transitions += r["transitions"]
            random.Random(seed + 1).shuffle(reps)
            lim = 1500 if tier == "quick" else 20000
            for m in G.model_to_scenarios(reps[:lim], origin="tlc:" + gcfg):
                if any(st["op"] == "ExtRemove" for st in m["steps"]):
                    continue
                grp += 1
                scens += _c14_pair(grp, m["cfg"], m["t0"], m["steps"], m["origin"], len(scens) + 1)
                nmodel += 1
        nr = 150 if tier == "quick" else 3000
        for i in range(nr):
            c = G.rand_cfg(rng, modes=("direct", "direct", "buf"), clean=(i % 3 != 0), parts=(i % 2 == 0))
            c["crlf"] = False
            if c.get("suffix") == "log.1":
                c["suffix"] = "log"
            c["link"] = (i % 5 == 0)
            grp += 1
            scens += _c14_pair(grp, c, G.boundary_t0(rng), _c14_steps(rng, c), "rand", len(scens) + 1)
        res = C.run_sharded(pid, "MonC14", scens, wd)
        C.log(f"[C14] {grp} histories ({nmodel} from TLC, {nr} random), each executed without and with near-miss foreign "
              f"files: {res['scenarios']} executions / {res['events']} events; judged by MonC14.tla in {res['wall_s']}s; "
              f"{len(res['bads'])} predicate failures; counters {res['counts']}")
        viols, known = C.triage(pid, res["bads"], res["traces"], res["scen_files"])
        for fnd, cnt in known:
            C.log(f"KNOWN-FINDING: property={pid} {fnd['id']}: {fnd['what']} ({cnt} occurrences)")
        for v in viols[:10]:
            C.log(f"VIOLATION property={pid} replay={v['replay']}")
            C.log(f"   predicate {v['pred']} failed at scenario {v['sc']} event {v['n']}; facts {v['facts']}")
        cov = {"states": states, "transitions": transitions, "traces_validated_against_impl": res["scenarios"],
               "events_judged": res["events"], "evaluations": res["scenarios"], "distinct_nontrivial": grp,
               "rule": "histories = maximal behaviours of the bounded Flw model with cleanup / restarts (seeded sample) plus "
                       "seeded random histories with name-part combinations, existing_log_files queries and symlink; each "
                       "executed in a directory without and with ~25 near-miss foreign names derived from the family "
                       "pattern (longer/shorter basename, other discriminant/suffix, extra dots, missing infix or "
                       "separator, infix-like fragments, malformed restart parts, multi-byte characters at and inside the "
                       "infix offset, .gz/.tmp tails, a sub-directory named like a rotated file); distinct = histories",
               "samples": C.sample_traces(res["traces"], k=2, maxev=10) + [{"foreign_names_example": foreign_names({"naming": "Num"})}],
               "model_checking_runs": mc_stats, "monitor": "MonC14.tla", "monitor_counters": res["counts"],
               "predicate_failures": len(res["bads"]),
               "known_findings_hit": [{"id": f["id"], "count": c} for f, c in known], "exhaustive": False,
               "harness_build_s": round(build_s, 1)}
        C.write_evidence(pid, tier, seed, "model_checking", cov,
                         A_COMMON + ["a name is foreign iff the harness's own strict parser does not recognise it as "
                                     "[basename][_discriminant]_<infix of the active scheme>[.restart-NNNN][.suffix][.gz]"],
                         time.time() - t0, len(viols))
        return 1 if viols else 0
    finally:
        if not os.environ.get("VERIF_KEEP"):
            shutil.rmtree(wd, ignore_errors=True)


C16_PARTS = [
    {"basename": "app"}, {"basename": ""}, {"basename": "my.prog"}, {"basename": "a_r1", "discr": "d1"},
    {"basename": "", "discr": "only"}, {"basename": "app", "discr": "foo_bar", "suffix": "trc"},
    {"basename": "app", "suffix": "-"}, {"basename": "", "suffix": "-"}, {"basename": "x", "discr": "7", "suffix": "-"},
    # parts that end with the separator character: the separator is written nevertheless
    {"basename": "svc_"}, {"basename": "app", "discr": "d_"},
]
C16_SELS = [{"plain": True}, {"plain": True, "cur": True, "gz": True}, {"plain": False, "gz": True},
            {"plain": False, "cur": True}, {"plain": False}, {"plain": True, "custom": "rNOW"}]
C16_PATHS = [  # (path given to FileSpec::try_from, path of the file relative to the scenario root)
    ("bare.log", "bare.log"), ("./dot.log", "dot.log"), ("nested/dir/name.ext", "nested/dir/name.ext"),
    ("noext", "noext"), ("sub/noext", "sub/noext"), (".hidden", ".hidden"), ("d/.hidden.log", "d/.hidden.log"),
    ("several.dots.in.name.log", "several.dots.in.name.log"), ("a/b.c/d.e.f", "a/b.c/d.e.f"),
    ("ABS/abs/dir/file.log", "abs/dir/file.log"), ("ABS/top.txt", "top.txt"), ("sp ace/f g.log", "sp ace/f g.log"),
    ("uml\u00e4ut/\u00fc.log", "uml\u00e4ut/\u00fc.log"),
]


def _c16_decorate(s, j, rng):
    """name parts, symlink and existing_log_files queries for a history"""
    c = dict(s["cfg"])
    c.update(C16_PARTS[j % len(C16_PARTS)])
    c["link"] = (j % 3 == 0)
    if j % 7 == 0 and c.get("rot", True) is False:
        c["use_ts"] = True
    if c.get("rot", True) is False and not c.get("basename") and "discr" not in c and not c.get("use_ts"):
        c["basename"] = "plainfile"     # a file name must not be empty
    steps = []
    fixed = "_".join([x for x in [c.get("basename", "app"), c.get("discr")] if x])
    for st in s["steps"]:
        if st["op"] == "ExtCreate" and st["name"].startswith("PFX_"):
            st = dict(st)
            st["name"] = (fixed + "_" if fixed else "") + st["name"][4:]
            if c.get("suffix") == "-" and st["name"].endswith(".log"):
                st["name"] = st["name"][:-4]
            elif c.get("suffix") not in (None, "-", "log") and st["name"].endswith(".log"):
                st["name"] = st["name"][:-4] + "." + c["suffix"]
        steps.append(st)
        if st["op"] in ("Log", "Trigger", "Start", "Adv") and rng.random() < 0.5:
            steps.append({"op": "Elf", "sel": C16_SELS[rng.randrange(len(C16_SELS))]})
    s = dict(s)
    s["cfg"], s["steps"] = c, steps
    return s


def C16(tier, seed):
    import json
    import os
    import random
    import shutil
    import time
    from . import common as C
    t0 = time.time()
    pid = "C16"
    wd = C.workdir(pid)
    try:
        build_s = C.build_harness()
        states = transitions = 0
        mc_stats = []
        r = C.run_tlc("MCNames.tla", os.path.join(C.SPEC, "MCNames.cfg"), os.path.join(wd, "mc-names"), workers=1, timeout=300)
        if r["violated"]:
            raise C.ToolError(f"Names violates {r['violated']}")
        C.log("[C16] TLC MCNames.cfg: name pattern injective over 32 part combinations x 16 files x gz (design check)")
        mc_stats.append({"cfg": "MCNames.cfg", "states": r["states"], "note": "constant-level: 32 part combinations x 16 structural names x gz"})
        states += r["states"]
        transitions += r["transitions"]
        rng = random.Random(seed)
        scens = []
        nmodel = 0
        for gcfg in ["MCFlw_C07gen.cfg", "MCFlw_C09gen.cfg"]:
            r = C.run_tlc("MCFlw.tla", os.path.join(C.SPEC, gcfg), os.path.join(wd, "gen-" + gcfg), workers=4, timeout=900)
            reps = C.drop_prefixes(C.replay_lines(r))
            states += r["states"]
            transitions += r["transitions"]
            random.Random(seed + 3).shuffle(reps)
            lim = 2500 if tier == "quick" else 40000
            for j, m in enumerate(G.model_to_scenarios(reps[:lim], start_sc=len(scens) + 1, origin="tlc:" + gcfg)):
                scens.append(_c16_decorate(m, j, rng))
                nmodel += 1
        # non-rotating files (with and without start time), custom current infix, clock moving between creation and query
        for i in range(200 if tier == "quick" else 3000):
            c = G.rand_cfg(rng, modes=("direct", "buf"), clean=(i % 3 == 0))
            c["crlf"] = False
            if i % 4 == 0:
                c = {"rot": False, "naming": "Num", "mode": "direct", "use_ts": (i % 8 == 0)}
            steps = []
            if c.get("rot", True) and c["naming"] in ("Num", "NumD") and i % 3 == 0:
                # earlier runs left files with high indexes (the index is not limited to five digits)
                # (without cleanup: the order of files by name, which cleanup relies on, is documented to hold for
                # five-digit indexes only - DESIGN.md, limits)
                c.pop("k", None)
                c.pop("m", None)
                hi = rng.choice([99997, 99998, 123455])
                sfx = "" if c.get("suffix") == "-" else "." + c.get("suffix", "log")
                for q in range(2):
                    steps.append({"op": "ExtCreate", "name": f"PFX_r{hi + q:05d}{sfx}", "content": "0000001|xx\n"})
            if i % 10 == 7:
                # compressed files of a family without suffix whose names contain further dots (dotted basename, several
                # rotations inside one second): the .gz names are the names of the rotated files plus ".gz"
                c = {"naming": rng.choice(["Num", "Ts", "TsD"]), "rot": True, "size": 20, "mode": "direct", "crlf": False,
                     "suffix": "-", "basename": rng.choice(["my.app", "app", "a.b.c"]), "m": 3, "k": rng.choice([0, 1]), "bg": False}
                steps = []
            steps.append({"op": "Start", "append": False})
            for _ in range(rng.choice([2, 5, 12]) if i % 10 != 7 else 10):
                x = rng.random()
                if x < 0.2 and c.get("rot", True):
                    steps.append({"op": "Trigger"})
                elif x < 0.45 and i % 10 != 7:
                    steps.append({"op": "Adv", "dt": rng.choice([1, 2, 60, 3600, 86400])})
                steps.append({"op": "Log", "len": rng.choice([9, 12, 40])})
            steps.append({"op": "Stop"})
            if rng.random() < 0.4:
                steps += [{"op": "Adv", "dt": 5}, {"op": "Start", "append": True}, {"op": "Log", "len": 12}, {"op": "Stop"}]
            scens.append(_c16_decorate({"sc": len(scens) + 1, "cfg": c, "t0": G.boundary_t0(rng), "steps": steps,
                                        "origin": "rand"}, i, rng))
        npaths = 0
        for (pth, exp) in C16_PATHS:
            scens.append({"sc": len(scens) + 1, "cfg": {"rot": False, "naming": "Num"}, "t0": 1000, "origin": "path-catalogue",
                          "steps": [{"op": "FromPath", "path": pth, "expect": exp}], "tag": {"path": pth}})
            npaths += 1
        res = C.run_sharded(pid, "MonC16", scens, wd)
        C.log(f"[C16] executed {res['scenarios']} scenarios / {res['events']} events ({nmodel} from TLC, {npaths} try_from paths); "
              f"judged by MonC16.tla in {res['wall_s']}s; {len(res['bads'])} predicate failures; counters {res['counts']}")
        viols, known = C.triage(pid, res["bads"], res["traces"], res["scen_files"])
        for fnd, cnt in known:
            C.log(f"KNOWN-FINDING: property={pid} {fnd['id']}: {fnd['what']} ({cnt} occurrences)")
        for v in viols[:10]:
            C.log(f"VIOLATION property={pid} replay={v['replay']}")
            C.log(f"   predicate {v['pred']} failed at scenario {v['sc']} event {v['n']}; facts {v['facts']}")
        cov = {"states": states, "transitions": transitions, "traces_validated_against_impl": res["scenarios"],
               "events_judged": res["events"], "evaluations": res["scenarios"],
               "distinct_nontrivial": len({json.dumps([s["cfg"], s["steps"]], sort_keys=True) for s in scens}),
               "rule": "behaviours of the bounded Flw model (cleanup/compression/restarts; age rotation with a moving clock) "
                       "decorated with 11 name-part combinations (basename given/empty/dotted, discriminant, suffix "
                       "given/none), a symlink, and existing_log_files queries with 6 selectors after random steps; random "
                       "histories incl. non-rotating files with start time; FileSpec::try_from over a path catalogue "
                       "(bare name, ./x, nested, no extension, dot files, several dots, absolute, spaces, non-ASCII)",
               "samples": C.sample_traces(res["traces"], k=2, maxev=10),
               "model_checking_runs": mc_stats, "monitor": "MonC16.tla", "monitor_counters": res["counts"],
               "predicate_failures": len(res["bads"]),
               "known_findings_hit": [{"id": f["id"], "count": c} for f, c in known], "exhaustive": False,
               "harness_build_s": round(build_s, 1)}
        C.write_evidence(pid, tier, seed, "model_checking", cov,
                         A_COMMON + ["an empty discriminant and a suffix containing a dot are not covered",
                                     "expected names are constructed in TLA+ (Names.tla) from the configured parts and the "
                                     "harness's own rendering of the parsed instants"], time.time() - t0, len(viols))
        return 1 if viols else 0
    finally:
        if not os.environ.get("VERIF_KEEP"):
            shutil.rmtree(wd, ignore_errors=True)


def C19(tier, seed):
    """fault enumeration: for sampled behaviours of the model, inject a failure (single and bursts) at EVERY
    file-system effect the real code performs along the history (the hook points of a recording run)."""
    import json
    import os
    import random
    import shutil
    import time
    from . import common as C
    t0 = time.time()
    pid = "C19"
    wd = C.workdir(pid)
    try:
        build_s = C.build_harness()
        states = transitions = 0
        rng = random.Random(seed)
        base = []
        gens = [("MCFlw_C07gen.cfg", 60 if tier == "quick" else 1500), ("MCFlw_C01gen.cfg", 60 if tier == "quick" else 1500),
                ("MCFlw_C06gen.cfg", 40 if tier == "quick" else 800)]
        for gcfg, lim in gens:
            r = C.run_tlc("MCFlw.tla", os.path.join(C.SPEC, gcfg), os.path.join(wd, "gen-" + gcfg), workers=4, timeout=900)
            reps = C.drop_prefixes(C.replay_lines(r))
            states += r["states"]
            transitions += r["transitions"]
            random.Random(seed + 5).shuffle(reps)
            # longest behaviours first: they rotate and clean up
            reps = sorted(reps[:lim * 20], key=lambda x: -len(x["steps"]))[:lim]
            for m in G.model_to_scenarios(reps, start_sc=len(base) + 1, origin="tlc:" + gcfg):
                if any(st["op"] in ("ExtRemove",) for st in m["steps"]):
                    continue
                # lengths >= 9 so that every record carries its id
                for st in m["steps"]:
                    if st["op"] == "Log":
                        st["len"] = max(9, st["len"])
                m["cfg"]["link"] = (len(base) % 4 == 0)
                base.append(m)
        for i in range(30 if tier == "quick" else 600):
            c = G.rand_cfg(rng, criteria=("size", "size", "both"), modes=("direct", "direct", "buf"), clean=(i % 2 == 0))
            c["crlf"] = False
            # (every third history with a cleanup lets the cleanup thread do it: its failures are not reported, by
            # design, but it must go on cleaning up afterwards)
            c["bg"] = i % 6 == 0
            if "size" in c:
                c["size"] = rng.choice([10, 30, 60])
            steps = [{"op": "Start", "append": rng.random() < 0.3}]
            for _ in range(rng.choice([6, 12])):
                if rng.random() < 0.1:
                    steps.append({"op": "Trigger"})
                steps.append({"op": "Log", "len": rng.choice([9, 12, 21, 40])})
            steps.append({"op": "Stop"})
            base.append({"sc": len(base) + 1, "cfg": c, "t0": 1000, "steps": steps, "origin": "rand"})
        # directed histories (the sample above depends on the order in which TLC's workers print): rotations WITH a synchronous
        # cleanup, followed by enough records to see whether rotation goes on as it should once a failing cleanup step is over
        for (nm, cl) in (("Num", {"m": 1}), ("NumD", {"m": 1}), ("Num", {"k": 1}), ("NumD", {"k": 1}), ("Ts", {"k": 1, "m": 1})):
            c = {"naming": nm, "rot": True, "size": 30, "mode": "direct", "crlf": False, "bg": False, "append": False}
            c.update(cl)
            steps = [{"op": "Start", "append": False}] + [{"op": "Log", "len": 12} for _ in range(13)] + [{"op": "Stop"}]
            base.append({"sc": len(base) + 1, "cfg": c, "t0": 1000, "steps": steps, "origin": "directed"})
        # the property on the model: FlwF.tla = Flw.tla with failing effects, every fault plan x every history in the bounds
        fcfg = "MCFlwF_q.cfg" if tier == "quick" else "MCFlwF_t.cfg"
        r = C.run_tlc("MCFlwF.tla", os.path.join(C.SPEC, fcfg), os.path.join(wd, "mc-flwf"), workers=6, timeout=3000)
        if r["violated"] or r["deadlock"]:
            raise C.ToolError(f"FlwF/{fcfg} violates {r['violated']}")
        mc_stats = [{"cfg": fcfg, "states": r["states"], "transitions": r["transitions"], "wall_s": r["wall_s"]}]
        states += r["states"]
        transitions += r["transitions"]
        rc = C.run_tlc("MCFlwF.tla", os.path.join(C.SPEC, "MCFlwF_c.cfg"), os.path.join(wd, "mc-flwf-c"), workers=6, timeout=3000)
        if rc["violated"] or rc["deadlock"]:
            raise C.ToolError(f"FlwF/MCFlwF_c.cfg violates {rc['violated']}")
        mc_stats.append({"cfg": "MCFlwF_c.cfg", "states": rc["states"], "transitions": rc["transitions"], "wall_s": rc["wall_s"]})
        states += rc["states"]
        transitions += rc["transitions"]
        rage = C.run_tlc("MCFlwF.tla", os.path.join(C.SPEC, "MCFlwF_a.cfg"), os.path.join(wd, "mc-flwf-a"), workers=6, timeout=3000)
        if rage["violated"] or rage["deadlock"]:
            raise C.ToolError(f"FlwF/MCFlwF_a.cfg violates {rage['violated']}")
        mc_stats.append({"cfg": "MCFlwF_a.cfg", "states": rage["states"], "transitions": rage["transitions"], "wall_s": rage["wall_s"]})
        states += rage["states"]
        transitions += rage["transitions"]
        C.log(f"[C19] TLC MCFlwF_c.cfg: {rc['states']} distinct states; the same with synchronous cleanup (remove / compress; "
              f"failures at fs:remove, gz_create, gz_copy, gz_finish, remove_orig): additionally TwinsOnlyUnfinished; "
              f"MCFlwF_a.cfg: {rage['states']} distinct states with the age criterion (clock steps)")
        rmut = C.run_tlc("MCFlwF.tla", os.path.join(C.SPEC, "MCFlwF_mut.cfg"), os.path.join(wd, "mc-flwf-mut"), workers=2, timeout=600)
        if "C19_OnlyOwnFailureMissing" not in (rmut["violated"] or []):
            raise C.ToolError("FlwF: the variant that drops the record after a failed rotation must violate C19_OnlyOwnFailureMissing")
        C.log(f"[C19] TLC {fcfg}: {r['states']} distinct states; every fault plan (first failing effect 1..7/10, bursts) x every "
              f"history of the bounded model: OnlyOwnFailureMissing, NoDestruction, RotationResumes, WriterFileLinked hold; the "
              f"variant that drops the record after a failed rotation violates OnlyOwnFailureMissing (sanity of the invariant)")
        # phase 1: recording run -> number of file-system effects per history
        for b in base:
            b["points"] = True
        rec = C.run_sharded(pid, "MonC19", base, wd)
        if rec["bads"]:
            C.log(f"[C19] note: {len(rec['bads'])} predicate failures already without any injected fault")
        hits = {}
        ptnames = {}
        for tf in rec["traces"]:
            for line in open(tf):
                e = json.loads(line)
                if e["ev"] != "Begin":
                    hits[e["sc"]] = max(hits.get(e["sc"], 0), e.get("fshits", 0))
                    for pn in e.get("pts", []):
                        ptnames.setdefault(pn[0], 0)
                        ptnames[pn[0]] += 1
        # phase 2: one run per (history, effect index, burst length)
        scens = []
        bursts = [1, 2] if tier == "quick" else [1, 2, 3]
        for b in base:
            h = hits.get(b["sc"], 0)
            for k in range(1, h + 1):
                for bl in bursts:
                    v = dict(b)
                    v["sc"] = len(scens) + 1
                    v["points"] = False
                    v["steps"] = [{"op": "Fault", "name": "*", "from": k, "burst": bl, "kind": "other"}] + b["steps"]
                    v["tag"] = {"k": k, "burst": bl, "base": b["sc"]}
                    # conform mode with faults (TraceFlwF.tla): the effects of every call and the injected failures are
                    # recorded for the scenarios inside FlwF.tla's domain
                    v["conf"] = C.conformable_faults(v)
                    v["fxrec"] = v["conf"]
                    scens.append(v)
        limit = 9000 if tier == "quick" else 200000
        if len(scens) > limit:
            random.Random(seed + 9).shuffle(scens)
            scens = scens[:limit]
            for i, v in enumerate(scens):
                v["sc"] = i + 1
        # failures that the environment causes (nothing is injected): a directory occupies the name the next rotated file
        # would get, so that the rename fails for another reason than "not found"; later the obstacle goes away
        nobst = 40 if tier == "quick" else 800
        for i in range(nobst):
            c = {"naming": "Num", "rot": True, "size": rng.choice([10, 30, 60]), "mode": ["direct", "direct", "buf"][i % 3], "cap": 64,
                 "crlf": False, "append": False, "link": i % 4 == 0}
            idx = rng.choice([0, 0, 1, 2])
            steps = [{"op": "Start", "append": i % 5 == 4}]
            for _ in range(idx * 2):                             # rotations before the obstacle is reached
                steps += [{"op": "Log", "len": rng.choice([12, 21, 40])}, {"op": "Trigger"}] if rng.random() < 0.5 else \
                         [{"op": "Log", "len": c["size"] + 9}]
            steps.insert(1, {"op": "ExtCreate", "name": f"app_r{idx:05d}.log", "dir": True, "content": ""})
            steps += [{"op": "Log", "len": rng.choice([9, 12, 21, 40])} for _ in range(rng.choice([4, 7, 10]))]
            if i % 3 != 2:
                steps.append({"op": "ExtRemove", "which": f"app_r{idx:05d}.log"})
                steps += [{"op": "Log", "len": rng.choice([9, 12, 21, 40])} for _ in range(rng.choice([3, 6]))]
            if i % 7 == 3 and i % 3 != 2:
                # (a restart while the obstacle is still there cannot open its file: those records are lost with a report,
                # which the monitor can tell for injected failures only)
                steps += [{"op": "Stop"}, {"op": "Start", "append": i % 2 == 0}, {"op": "Log", "len": 12}, {"op": "Log", "len": 21}]
            steps.append({"op": "Stop"})
            scens.append({"sc": len(scens) + 1, "cfg": c, "t0": 1000, "steps": steps, "origin": "obstacle", "points": False,
                          "obs": "every", "tag": {"k": 0, "burst": 0, "base": 0, "obstacle": True}, "conf": False, "fxrec": False})
        res = C.run_sharded(pid, "MonC19", scens, wd)
        cf = C.conform(res["traces"], wd, module="TraceFlwFMC.tla", cfg="TraceFlwF.cfg")
        C.log(f"[C19] conform mode with faults (TraceFlwF.tla): {cf['scenarios']} fault runs / {cf['events']} events checked "
              f"against FlwF.tla (state after every call, order of the file-system effects, what is reported) - "
              + ("all accepted" if not cf["drifts"] else f"{len(cf['drifts'])} not accepted"))
        for (dsc, dn, dev) in cf["drifts"][:10]:
            C.log(f"NOTE conformance-drift: scenario {dsc} event {dn} ({dev}) is not a step of FlwF.tla - the code no longer "
                  f"follows the detailed model of the error handling there (no property verdict; the monitor decides)")
        allbads = rec["bads"] + res["bads"]
        C.log(f"[C19] {len(base)} histories with {sum(hits.values())} file-system effects ({ptnames}); {res['scenarios']} fault "
              f"runs (every effect index x bursts {bursts}; {nobst} of them with an obstacle in the directory instead of an "
              f"injected failure) / {res['events']} events; judged by MonC19.tla in {res['wall_s']}s; "
              f"{len(allbads)} predicate failures; counters {res['counts']}")
        def _facts_c19(begin, ev, sl, pred):
            """a rotation whose rename succeeded and whose open failed (the writer goes on with the renamed file): an
            injected fs:open failure in a call of a run that had written before"""
            wrote = hit = False
            for e_ in sl:
                if e_.get("ev") in ("Start", "Stop"):
                    wrote = False
                if e_.get("ev") == "Log" and e_.get("ret") == "ok" and not e_.get("inj"):
                    wrote = True
                if wrote and "fs:open" in (e_.get("injp") or []):
                    hit = True
            return {"open_failed_in_rotation": hit}

        viols, known = C.triage(pid, res["bads"], res["traces"], res["scen_files"], extra_facts=_facts_c19)
        v0, k0 = C.triage(pid, rec["bads"], rec["traces"], rec["scen_files"])
        viols += v0
        for fnd, cnt in known + k0:
            C.log(f"KNOWN-FINDING: property={pid} {fnd['id']}: {fnd['what']} ({cnt} occurrences)")
        for v in viols[:10]:
            C.log(f"VIOLATION property={pid} replay={v['replay']}")
            C.log(f"   predicate {v['pred']} failed at scenario {v['sc']} event {v['n']}; facts {v['facts']}")
        cov = {"evaluations": res["scenarios"] + rec["scenarios"],
               "distinct_nontrivial": len({json.dumps([s["cfg"], s["steps"]], sort_keys=True) for s in scens}),
               "rule": "histories = longest maximal behaviours of the bounded Flw model (cleanup/compression, restarts, "
                       "forced rotations, symlink) + random; a recording run counts the file-system effects (hook points "
                       "fs:open/write/rename/remove/gz_create/gz_copy/gz_finish/remove_orig/flush/symlink/unlink_link) of "
                       "each history; then one run per (history, effect index k, burst length) makes effects k..k+burst-1 "
                       "fail with an io::Error; non-trivial = a failure was actually injected",
               "samples": C.sample_traces(res["traces"], k=2, maxev=12),
               "histories": len(base), "effects_total": sum(hits.values()), "effects_by_hook": ptnames,
               "bursts": bursts, "events_judged": res["events"], "states": states, "transitions": transitions,
               "traces_validated_against_impl": res["scenarios"], "monitor": "MonC19.tla", "model_checking_runs": mc_stats,
               "conform_mode": {"spec": "TraceFlwF.tla", "traces_checked": cf["scenarios"], "events_checked": cf["events"],
                                "accepted": cf["scenarios"] - len({d[0] for d in cf["drifts"]}),
                                "drifts": [{"sc": d[0], "n": d[1], "ev": d[2]} for d in cf["drifts"][:20]]},
               "monitor_counters": res["counts"], "predicate_failures": len(allbads),
               "known_findings_hit": [{"id": f["id"], "count": c} for f, c in known + k0],
               "exhaustive": len(scens) < limit, "harness_build_s": round(build_s, 1)}
        C.write_evidence(pid, tier, seed, "model_checking", cov,
                         A_COMMON + ["a failure is injected before the effect (the call is skipped and an io::Error of kind "
                                     "Other returned); partially performed effects (short writes) are not produced",
                                     "failures inside the background cleanup thread are not reported by design (they keep "
                                     "no record from being written); it is required to resume (CleanupResumes)"], time.time() - t0, len(viols))
        return 1 if viols else 0
    finally:
        if not os.environ.get("VERIF_KEEP"):
            shutil.rmtree(wd, ignore_errors=True)


def C11(tier, seed):
    """crash enumeration: for sampled behaviours of the model, kill the process (abort) immediately before EVERY
    file-system effect the real code performs along the history, then start a new logger on the directory."""
    import json
    import os
    import random
    import shutil
    import subprocess
    import time
    from concurrent.futures import ThreadPoolExecutor
    from . import common as C
    t0 = time.time()
    pid = "C11"
    wd = C.workdir(pid)
    shm = os.path.join("/dev/shm" if os.path.isdir("/dev/shm") else wd, f"flv-c11-{os.getpid()}")
    try:
        build_s = C.build_harness()
        states = transitions = 0
        # the property on the model: FlwCrash.tla = FlwF.tla with a kill immediately before any numbered effect of any call,
        # then a new logger on the directory; TLC enumerates every kill point x history within the bounds
        kcfg = "MCFlwCrash_q.cfg" if tier == "quick" else "MCFlwCrash_t.cfg"
        rk = C.run_tlc("MCFlwCrash.tla", os.path.join(C.SPEC, kcfg), os.path.join(wd, "mc-crash"), workers=6, timeout=3000)
        if rk["violated"] or rk["deadlock"]:
            raise C.ToolError(f"FlwCrash/{kcfg} violates {rk['violated']}")
        mc_stats = [{"cfg": kcfg, "states": rk["states"], "transitions": rk["transitions"], "wall_s": rk["wall_s"]}]
        states += rk["states"]
        transitions += rk["transitions"]
        rkm = C.run_tlc("MCFlwCrash.tla", os.path.join(C.SPEC, "MCFlwCrash_mut.cfg"), os.path.join(wd, "mc-crash-mut"), workers=1,
                        timeout=300)
        if "C11_AckedPresentAnyMode" not in (rkm["violated"] or []):
            raise C.ToolError("FlwCrash: with a buffered writer a kill must lose acknowledged records (sanity of the kill model)")
        C.log(f"[C11] TLC {kcfg}: {rk['states']} distinct states; a kill before every numbered file-system effect of every call x every "
              f"history of the bounded model (direct mode, four namings, with/without cleanup and compression, symlink), then a "
              f"restart: AckedPresent, NoDestruction, KeptWhatLimitPermits, TwinsOnlyUnfinished hold; with a buffered writer "
              f"AckedPresent fails (sanity of the kill model)")
        rng = random.Random(seed)
        base = []
        gens = [("MCFlw_C07gen.cfg", 50 if tier == "quick" else 1200), ("MCFlw_C01gen.cfg", 25 if tier == "quick" else 600),
                ("MCFlw_C06gen.cfg", 25 if tier == "quick" else 600)]
        for gcfg, lim in gens:
            r = C.run_tlc("MCFlw.tla", os.path.join(C.SPEC, gcfg), os.path.join(wd, "gen-" + gcfg), workers=4, timeout=900)
            reps = C.drop_prefixes(C.replay_lines(r))
            states += r["states"]
            transitions += r["transitions"]
            random.Random(seed + 5).shuffle(reps)
            reps = sorted(reps[:lim * 20], key=lambda x: -len(x["steps"]))[:lim]
            for m in G.model_to_scenarios(reps, start_sc=len(base) + 1, origin="tlc:" + gcfg):
                if any(st["op"] in ("ExtRemove",) for st in m["steps"]):
                    continue
                for st in m["steps"]:
                    if st["op"] == "Log":
                        st["len"] = max(9, st["len"])
                m["cfg"]["mode"] = "direct" if len(base) % 5 else m["cfg"].get("mode", "direct")
                m["cfg"]["link"] = (len(base) % 4 == 0)
                base.append(m)
        for i in range(25 if tier == "quick" else 500):
            c = G.rand_cfg(rng, criteria=("size",), modes=("direct",), clean=(i % 3 != 2), parts=(i % 2 == 1))
            c["crlf"] = False
            c["bg"] = False
            c["size"] = rng.choice([10, 30, 60])
            c["suffix"] = rng.choice(["log", "txt", "-"])
            if i % 5 == 0:
                # number infixes behind a name part that itself contains "_r": the restarted logger must find the
                # highest existing index
                c["naming"] = rng.choice(["Num", "NumD"])
                c["basename"] = rng.choice(["log_reader", "r_r", "app_r00001"])
                c.pop("fmt", None)
                c.pop("cur", None)
            steps = [{"op": "Start", "append": rng.random() < 0.3}]
            for _ in range(rng.choice([6, 12])):
                if rng.random() < 0.1:
                    steps.append({"op": "Trigger"})
                steps.append({"op": "Log", "len": rng.choice([9, 12, 21, 40])})
            steps.append({"op": "Stop"})
            if i % 4 == 1:
                # reopen_output() (the logrotate protocol) somewhere in the history: the writer stays unbuffered
                # (a size limit out of reach, so that the re-opened writer is not replaced by a rotation at once)
                steps.insert(rng.randint(2, max(2, len(steps) - 3)), {"op": "Reopen"})
                c["size"] = 4000
            base.append({"sc": len(base) + 1, "cfg": c, "t0": 1000, "steps": steps, "origin": "rand"})
        # phase 1: recording run -> number of file-system effects (= crash points) per history
        for b in base:
            b["points"] = True
        rec = C.run_sharded(pid, "MonC01", base, wd)   # judged by nothing relevant here; only the point counts are used
        hits = {}
        ptnames = {}
        for tf in rec["traces"]:
            for line in open(tf):
                e = json.loads(line)
                if e["ev"] != "Begin":
                    hits[e["sc"]] = max(hits.get(e["sc"], 0), e.get("fshits", 0))
                    for pn in e.get("pts", []):
                        if pn[0].startswith("fs:"):
                            ptnames[pn[0]] = ptnames.get(pn[0], 0) + 1
        jobs = []
        for b in base:
            for k in range(1, hits.get(b["sc"], 0) + 1):
                jobs.append((b, k))
        limit = 2500 if tier == "quick" else 60000
        if len(jobs) > limit:
            random.Random(seed + 9).shuffle(jobs)
            jobs = jobs[:limit]
        os.makedirs(shm, exist_ok=True)
        tdir = os.path.join(wd, "crash")
        os.makedirs(tdir, exist_ok=True)

        def one(ix):
            b, k = jobs[ix]
            sc = ix + 1
            root = os.path.join(shm, f"r{ix}")
            a = dict(b)
            a.update({"sc": sc, "points": False, "keep": True, "tag": {"k": k, "base": b["sc"]}})
            # conform mode with kills (TraceFlwF.tla): histories inside the domain of FlwF.tla whose file names and rotation
            # criterion do not depend on creation times (the harness' virtual birth times do not survive the kill)
            kconf = (C.conformable_faults(a) and b["cfg"].get("naming") in ("Num", "NumD") and not b["cfg"].get("age")
                     and b["cfg"].get("mode", "direct") == "direct")
            a["conf"] = a["fxrec"] = kconf
            sa, ta = os.path.join(tdir, f"a{ix}.scen"), os.path.join(tdir, f"a{ix}.trace")
            note = os.path.join(tdir, f"a{ix}.note")
            open(sa, "w").write(json.dumps(a) + "\n")
            env = dict(os.environ)
            env.setdefault("TZ", "UTC")
            p = subprocess.run([C.FLV, "flw", sa, ta, "--root", root, "--flush-each", "--crash-at", str(k), "--note", note],
                               stdout=subprocess.PIPE, stderr=subprocess.PIPE, env=env, timeout=120)
            died = p.returncode != 0
            evs = [json.loads(x) for x in open(ta) if x.strip()] if os.path.exists(ta) else []
            if not died:
                shutil.rmtree(root, ignore_errors=True)
                return None   # the history never reached effect k (does not happen after the recording run)
            acked = [e["id"] for e in evs if e.get("ev") == "Log" and e.get("ret") == "ok" and e.get("id", 0) > 0]
            last = max(acked) if acked else 0
            at = open(note).read().strip() if os.path.exists(note) else ""
            bsteps = [{"op": "Start", "append": (k % 2 == 0)}, {"op": "Log", "len": 12}, {"op": "Log", "len": 12},
                      {"op": "Trigger"}, {"op": "Log", "len": 12}, {"op": "Stop"}]
            # the call that was running, and the number - within that call - of the effect it was killed in front of
            done_fx = sum(len(e.get("fx", [])) for e in evs)
            nsteps = sum(1 for e in evs if e.get("ev") != "Begin" and not e.get("inner"))
            infl = a["steps"][nsteps] if nsteps < len(a["steps"]) else {"op": "?"}
            # (the killed log call takes its record number with it: the record may be in a file)
            skip = 0 if (kconf and infl.get("op") != "Log") else 1
            bsc = {"sc": sc, "cfg": b["cfg"], "t0": b.get("t0", 1000) + 5, "steps": bsteps, "resume": True, "id0": last + skip,
                   "n0": len(evs), "crashed_at": at.split(" ")[0], "origin": b.get("origin", ""), "fxrec": kconf,
                   "inflight": {"op": infl.get("op", "?"), "len": infl.get("len", 0)}, "j": k - done_fx}
            sb, tb = os.path.join(tdir, f"b{ix}.scen"), os.path.join(tdir, f"b{ix}.trace")
            open(sb, "w").write(json.dumps(bsc) + "\n")
            p2 = subprocess.run([C.FLV, "flw", sb, tb, "--root", root], stdout=subprocess.PIPE, stderr=subprocess.PIPE,
                                env=env, timeout=120)
            shutil.rmtree(root, ignore_errors=True)
            lines = [x for x in open(ta) if x.strip()] + ([x for x in open(tb) if x.strip()] if os.path.exists(tb) else [])
            if p2.returncode != 0:
                # the restarted process itself died: recorded as data
                lines.append(json.dumps({"sc": sc, "n": len(lines) + 1, "ev": "RestartDied", "ret": "panic:process exit " + str(p2.returncode),
                                         "retk": "panic", "o": False, "errs": [], "inj": 0, "injp": [], "faultleft": 0, "t": 0}) + "\n")
            return (sc, at.split(" ")[0], lines, a)

        with ThreadPoolExecutor(max_workers=12) as ex:
            results = [r for r in ex.map(one, range(len(jobs))) if r]
        # judge: concatenate into a few trace files
        nsh = 8
        traces, scen_files, crash_by_hook = [], [], {}
        for i in range(nsh):
            tf = os.path.join(wd, f"MonC11-trace-{i}.ndjson")
            sf = os.path.join(wd, f"MonC11-scen-{i}.ndjson")
            with open(tf, "w") as f, open(sf, "w") as g:
                for (sc, at, lines, a) in results[i::nsh]:
                    f.writelines(lines)
                    g.write(json.dumps(a) + "\n")
            traces.append(tf)
            scen_files.append(sf)
        for (sc, at, lines, a) in results:
            crash_by_hook[at] = crash_by_hook.get(at, 0) + 1

        def j(i):
            return C.judge("MonC11", traces[i], os.path.join(wd, f"meta-{i}"))
        with ThreadPoolExecutor(max_workers=nsh) as ex:
            jr = list(ex.map(j, range(nsh)))
        bads, counts, events = [], [], 0
        for (b_, c_, consumed, nl) in jr:
            bads += b_
            events += nl
            if c_:
                counts = [x + y for x, y in zip(counts, c_)] if counts else list(c_)
        C.log(f"[C11] {len(base)} histories, {sum(hits.values())} crash points; {len(results)} kill+restart runs "
              f"(killed before: {crash_by_hook}) / {events} events; judged by MonC11.tla; {len(bads)} predicate failures; "
              f"counters {counts}")
        viols, known = C.triage(pid, bads, traces, scen_files)
        for fnd, cnt in known:
            C.log(f"KNOWN-FINDING: property={pid} {fnd['id']}: {fnd['what']} ({cnt} occurrences)")
        for v in viols[:10]:
            C.log(f"VIOLATION property={pid} replay={v['replay']}")
            C.log(f"   predicate {v['pred']} failed at scenario {v['sc']} event {v['n']}; facts {v['facts']}")
        # conform mode with kills: the recorded history up to the kill, the kill itself (FlwCrash.tla: CrashInWrite /
        # CrashInTrigger / CrashOther at the recorded effect number) and the restarted logger's calls must be a behaviour
        # of the specification with equal projected directory contents at every event
        try:
            cf = C.conform(traces, wd, module="TraceFlwFMC.tla", cfg="TraceFlwF.cfg")
        except C.ToolError as ex:      # (conform mode gives no verdict: the monitors above decide)
            C.log(f"NOTE: conform mode with kills did not complete: {ex}")
            cf = {"scenarios": 0, "events": 0, "drifts": []}
        C.log(f"[C11] conform mode with kills: {cf['scenarios']} kill+restart runs / {cf['events']} events explained step by step "
              f"by FlwCrash.tla (TraceFlwF.tla), {len(cf['drifts'])} drifts")
        for d in cf["drifts"][:10]:
            C.log(f"NOTE: conform mode: scenario {d[0]} event {d[1]} ({d[2]}) is not explained by the specification")
        cov = {"evaluations": len(results), "distinct_nontrivial": len({(id(b), k) for (b, k) in jobs}),
               "conform_mode": {"module": "TraceFlwF.tla (FlwCrash.tla)", "scenarios": cf["scenarios"], "events": cf["events"],
                                "drifts": [list(d) for d in cf["drifts"][:20]]},
               "rule": "histories = longest maximal behaviours of the bounded Flw model (cleanup/compression, restarts, forced "
                       "rotations, symlink) + random; a recording run counts the file-system effects of each history; then "
                       "one child process per (history, effect index k) aborts immediately before effect k (each completed "
                       "call was acknowledged by a flushed trace line); a second process observes the directory, starts a "
                       "new logger on it (append on/off alternating) and continues logging and rotating",
               "samples": C.sample_traces(traces, k=2, maxev=14), "histories": len(base),
               "crash_points_total": sum(hits.values()), "killed_before_hook": crash_by_hook, "effects_by_hook": ptnames,
               "events_judged": events, "states": states, "transitions": transitions,
               "traces_validated_against_impl": len(results), "monitor": "MonC11.tla", "monitor_counters": counts,
               "model_checking_runs": mc_stats,
               "predicate_failures": len(bads), "known_findings_hit": [{"id": f["id"], "count": c} for f, c in known],
               "exhaustive": len(jobs) < limit, "harness_build_s": round(build_s, 1)}
        C.write_evidence(pid, tier, seed, "model_checking", cov,
                         A_COMMON + ["process kill (abort), not power loss: data handed to the kernel survives",
                                     "kill points are the hook points before each file-system effect (plus none inside an "
                                     "effect); virtual birth times do not survive the kill (size criterion scenarios)"],
                         time.time() - t0, len(viols))
        return 1 if viols else 0
    finally:
        if not os.environ.get("VERIF_KEEP"):
            shutil.rmtree(wd, ignore_errors=True)
        shutil.rmtree(shm, ignore_errors=True)


REGISTRY = {"C01": C01, "C06": C06, "C07": C07, "C08": C08, "C09": C09, "C11": C11, "C14": C14, "C15": C15, "C16": C16,
            "C18": C18, "C19": C19}
MONITOR = {}
EXECUTOR = {}


def _c04_from_model(reps, mode, rng, sc0):
    out = []
    variants = {
        "direct": [{"mode": "direct"}, {"mode": "capture"}],
        "buf": [{"mode": "buf", "cap": 8}, {"mode": "buf", "cap": 64}, {"mode": "bufflush", "cap": 64, "flush_ms": 1}],
        "async": [{"mode": "async", "pool": 1, "mcapa": 8, "flush_ms": 0}, {"mode": "async", "pool": 4, "mcapa": 64, "flush_ms": 1}],
    }[mode]
    for j, r in enumerate(reps):
        steps = [{"op": "Start", "append": False}]
        for st in r["steps"]:
            if st["op"] in ("Write", "Send"):
                steps.append({"op": "Log", "len": 12 if j % 3 else 40})
            elif st["op"] in ("Flush", "Clone", "DropClone", "Shutdown"):
                steps.append({"op": st["op"]})
        steps.append({"op": "Stop", "shutdown": (j % 2 == 0)})
        c = dict(variants[j % len(variants)])
        c.update({"naming": ["Num", "TsD", "NumD", "Ts"][j % 4], "rot": (j % 5 != 0)})
        if c["rot"]:
            c["size"] = 20
            if j % 7 == 0:
                c.update({"k": 1, "m": 1, "bg": True})
        out.append({"sc": sc0 + len(out), "cfg": c, "t0": 1000, "steps": steps, "origin": "tlc:MCFlwConc_gen_" + mode,
                    "obs": "sync", "tag": {"clone_dropped": any(s["op"] == "DropClone" for s in steps)}})
    return out


def _rand_c04(rng, tier, sc0):
    out = []
    for i in range(300 if tier == "quick" else 6000):
        c = G.rand_cfg(rng, modes=("direct", "buf", "bufflush", "async", "async"), clean=(i % 4 == 0))
        c["crlf"] = False
        c["bg"] = (i % 3 == 0)
        if c["mode"] == "async":
            c.update({"pool": rng.choice([1, 4, 50]), "mcapa": rng.choice([8, 64, 200]), "flush_ms": rng.choice([0, 1, 5])})
        if c["mode"] == "bufflush":
            c["flush_ms"] = 1
        if i % 6 in (0, 1):
            c = {"rot": False, "naming": "Num", "mode": c["mode"], "cap": c.get("cap", 64), "pool": 2, "mcapa": 16,
                 "flush_ms": c.get("flush_ms", 0)}
        steps = [{"op": "Start", "append": False}]
        nclones = 0
        for _ in range(rng.choice([5, 20, 80])):
            x = rng.random()
            if x < 0.08:
                steps.append({"op": "Flush"})
            elif x < 0.14:
                steps.append({"op": "Clone"})
                nclones += 1
            elif x < 0.2 and nclones > 0:
                steps.append({"op": "DropClone"})
                nclones -= 1
            elif x < 0.24 and c.get("rot", True):
                steps.append({"op": "Trigger"})
            elif x < 0.28 and i % 5 == 2:
                # reopen_output() on a file that is still in place (a SIGHUP sent for another reason): nothing may be lost
                steps.append({"op": "Reopen"})
            steps.append({"op": "Log", "len": rng.choice([9, 12, 21, 63, 64, 65, 200, 8192]) if rng.random() < 0.9 else 20000})
        if rng.random() < 0.5:
            steps.append({"op": "Shutdown"})
            if rng.random() < 0.3:
                steps.append({"op": "Shutdown"})
        steps.append({"op": "Stop", "shutdown": rng.random() < 0.5})
        if i % 4 == 1:
            c["via"] = "flw"      # the FileLogWriter used directly: its own shutdown(), no PrimaryWriter in front
            if i % 8 == 1:
                # buffered, records below the capacity, explicit shutdown() judged before the drop
                c["mode"], c["cap"] = "buf", rng.choice([256, 8192])
                c.pop("flush_ms", None)
                steps = [st for st in steps if st["op"] not in ("Shutdown", "Stop")]
                steps += [{"op": "Log", "len": rng.choice([9, 12, 63])}, {"op": "Shutdown"}, {"op": "Stop", "shutdown": False}]
        out.append({"sc": sc0 + i, "cfg": c, "t0": 1000, "steps": steps, "origin": "rand", "obs": "sync",
                    "tag": {"clone_dropped": any(s["op"] == "DropClone" for s in steps)}})
    return out


def _race_c04(rng, tier, sc0):
    """FlwShut.tla on the code: the writer thread is held at its hook point, a backlog is logged, then 2-3 threads call
    shutdown() on clones of the handle at the same time."""
    out = []
    for i in range(24 if tier == "quick" else 480):
        mode = "async" if i % 4 != 3 else rng.choice(["buf", "direct", "bufflush"])
        c = {"naming": rng.choice(["Num", "NumD", "Ts", "TsD"]), "rot": i % 3 != 0, "size": rng.choice([40, 500]), "mode": mode,
             "crlf": False, "bg": i % 5 == 0}
        if mode == "async":
            c.update({"pool": rng.choice([1, 4, 50]), "mcapa": rng.choice([8, 64, 200]), "flush_ms": rng.choice([0, 0, 1])})
        else:
            c.update({"cap": rng.choice([16, 256]), "flush_ms": 1})
        if i % 4 == 1:
            c["via"] = "flw"
        steps = [{"op": "Start", "append": False}]
        steps += [{"op": "Log", "len": rng.choice([9, 12, 63])} for _ in range(rng.choice([0, 1, 3]))]
        steps.append({"op": "HoldWriter"})
        steps += [{"op": "Log", "len": rng.choice([9, 12, 21, 65, 300])} for _ in range(rng.choice([1, 3, 10, 200]))]
        steps.append({"op": "ShutdownRace", "n": rng.choice([2, 2, 3])})
        steps.append({"op": "Stop", "shutdown": rng.random() < 0.5})
        out.append({"sc": sc0 + i, "cfg": c, "t0": 1000, "steps": steps, "origin": "race:FlwShut", "obs": "sync",
                    "tag": {"clone_dropped": False}})
    return out


def C04(tier, seed):
    import json
    import os
    import random
    import shutil
    import time
    from . import common as C
    t0 = time.time()
    pid = "C04"
    wd = C.workdir(pid)
    try:
        build_s = C.build_harness()
        states = transitions = 0
        mc_stats = []
        for mode in ("direct", "buf", "async"):
            cfg = f"MCFlwConc_{mode}.cfg" if tier == "quick" else f"MCFlwConc_{mode}_t.cfg"
            if not os.path.exists(os.path.join(C.SPEC, cfg)):
                cfg = f"MCFlwConc_{mode}.cfg"
            r = C.run_tlc("MCFlwConc.tla", os.path.join(C.SPEC, cfg), os.path.join(wd, "mc-" + cfg), workers=8, timeout=2400)
            if r["violated"] or r["deadlock"]:
                raise C.ToolError(f"FlwConc/{cfg} violates {r['violated']} in the intended design")
            mc_stats.append({"cfg": cfg, "states": r["states"], "transitions": r["transitions"], "wall_s": r["wall_s"]})
            states += r["states"]
            transitions += r["transitions"]
            C.log(f"[C04] TLC {cfg}: {r['states']} distinct states; AfterShutdown, AfterFlush, CloneDropKeepsWriter, C03_* and "
                  f"the liveness property ShutdownReturns hold (intended design, all interleavings)")
        # several callers of shutdown() at the same time (async writer): as coded the join happens under the mutex
        scfg = "MCFlwShut_q.cfg" if tier == "quick" else "MCFlwShut_t.cfg"
        r = C.run_tlc("MCFlwShut.tla", os.path.join(C.SPEC, scfg), os.path.join(wd, "mc-shut"), workers=4, timeout=900)
        if r["violated"] or r["deadlock"]:
            raise C.ToolError(f"FlwShut/{scfg} violates {r['violated']} in the design as coded")
        mc_stats.append({"cfg": scfg, "states": r["states"], "transitions": r["transitions"], "wall_s": r["wall_s"]})
        states += r["states"]
        transitions += r["transitions"]
        rm = C.run_tlc("MCFlwShut.tla", os.path.join(C.SPEC, "MCFlwShut_mut.cfg"), os.path.join(wd, "mc-shut-mut"), workers=1,
                       timeout=300)
        if "AfterShutdownAllPresent" not in (rm["violated"] or []):
            raise C.ToolError("FlwShut: the variant that joins outside the mutex must violate AfterShutdownAllPresent")
        C.log(f"[C04] TLC {scfg}: {r['states']} distinct states; 2-3 concurrent callers of shutdown(): AfterShutdownAllPresent and "
              f"the liveness property ShutdownReturns hold as coded (join under the mutex); the variant joining outside the "
              f"mutex violates AfterShutdownAllPresent (sanity of the invariant)")
        # the flusher thread (BufferAndFlush, async with a flush interval): it never ends and flushes at any moment
        fst = 0
        for mode in ("direct", "buf", "async"):
            cfg = f"MCFlwFlush_{mode}.cfg"
            r = C.run_tlc("MCFlwFlush.tla", os.path.join(C.SPEC, cfg), os.path.join(wd, "mc-" + cfg), workers=6, timeout=1800)
            if r["violated"] or r["deadlock"]:
                raise C.ToolError(f"FlwFlush/{cfg} violates {r['violated']} in the intended design")
            mc_stats.append({"cfg": cfg, "states": r["states"], "transitions": r["transitions"], "wall_s": r["wall_s"]})
            states += r["states"]
            transitions += r["transitions"]
            fst += r["states"]
        rm = C.run_tlc("MCFlwFlush.tla", os.path.join(C.SPEC, "MCFlwFlush_noflush.cfg"), os.path.join(wd, "mc-flush-mut"), workers=1,
                       timeout=300)
        if "C04_AfterShutdown" not in (rm["violated"] or []):
            raise C.ToolError("FlwFlush: the variant whose shutdown() forgets the final flush must violate C04_AfterShutdown")
        C.log(f"[C04] TLC FlwFlush.tla (FlwConc + the flusher thread flushing at any moment, also after shutdown): {fst} distinct states; "
              f"all invariants of FlwConc, NothingInLimbo, AppendOnly and the liveness property hold; the variant whose shutdown() "
              f"forgets the final flush violates AfterShutdown (sanity of the invariant)")
        r = C.run_tlc("MCFlwConc.tla", os.path.join(C.SPEC, "MCFlwConc_asis.cfg"), os.path.join(wd, "mc-asis"), workers=4, timeout=600)
        asis = r["violated"]
        C.log(f"[C04] TLC MCFlwConc_asis.cfg (as coded): violated invariants: {asis or 'none'}")
        rng = random.Random(seed)
        scens = []
        nmodel = 0
        for mode in ("direct", "buf", "async"):
            r = C.run_tlc("MCFlwConc.tla", os.path.join(C.SPEC, f"MCFlwConc_gen_{mode}.cfg"), os.path.join(wd, "gen-" + mode),
                          workers=4, timeout=900)
            reps = C.replay_lines(r)
            states += r["states"]
            transitions += r["transitions"]
            # distinct application-level histories
            seen, uniq = set(), []
            for x in reps:
                key = json.dumps([s["op"] for s in x["steps"] if s["op"] != "Format"])
                if key not in seen:
                    seen.add(key)
                    uniq.append(x)
            lim = 2500 if tier == "quick" else 100000
            if len(uniq) > lim:
                random.Random(seed + 11).shuffle(uniq)
                uniq = uniq[:lim]
            new = _c04_from_model(uniq, mode, rng, len(scens) + 1)
            scens += new
            nmodel += len(new)
        scens += _rand_c04(rng, tier, len(scens) + 1)
        # (each takes 0.4 s: first in the list = spread evenly over the shards)
        scens = _race_c04(rng, tier, len(scens) + 1) + scens
        res = C.run_sharded(pid, "MonC04", scens, wd)
        C.log(f"[C04] executed {res['scenarios']} scenarios / {res['events']} events ({nmodel} application-level histories from "
              f"TLC); observation immediately after each call; judged by MonC04.tla in {res['wall_s']}s; "
              f"{len(res['bads'])} predicate failures; counters {res['counts']}")
        viols, known = C.triage(pid, res["bads"], res["traces"], res["scen_files"])
        # flush() under concurrency: 2-8 threads keep logging while the application thread calls flush() again and again and
        # reads the file each time it has returned (recorded event lists of free-running executions, no rotation)
        cscens = []
        for i in range(24 if tier == "quick" else 120):
            mode = ["buf", "bufflush", "direct", "buf"][i % 4]
            c = {"mode": mode, "naming": "Num", "rot": False, "crlf": False, "bg": False}
            if mode != "direct":
                c["cap"] = rng.choice([64, 256, 8192])
            if mode == "bufflush":
                c["flush_ms"] = rng.choice([1, 1000])
            cscens.append({"sc": len(cscens) + 1, "kind": "stress", "out": "file", "cfg": c, "threads": rng.choice([2, 4, 8]),
                           "per": rng.choice([100, 300]) if tier == "quick" else rng.choice([300, 600]), "rawmix": False,
                           "failfmt": False, "trace": True, "appflush": True, "lens": [9, 12, 33, 64, 100],
                           "noise": rng.randrange(1, 2 ** 31), "origin": "stress:appflush"})
        resc = C.run_sharded(pid, "MonC04c", cscens, wd, sub="conc", nshards=6)
        cfc = C.conform_conc(resc["traces"], wd)
        C.log(f"[C04] flush() while {2}-{8} threads log: {resc['scenarios']} free-running executions / {resc['events']} recorded events; "
              f"judged by MonC04c.tla (every record whose call had returned before flush() was called is in the file when flush() "
              f"has returned): {len(resc['bads'])} predicate failures; counters {resc['counts']}; conform mode (TraceFlwConc.tla): "
              + ("all accepted" if not cfc["drifts"] else f"{len(cfc['drifts'])} not accepted"))
        for (dsc, dn, dev) in cfc["drifts"][:10]:
            C.log(f"NOTE conformance-drift: scenario {dsc} event {dn} ({dev}) is not a step of FlwConc.tla (no property verdict)")
        v2, k2 = C.triage(pid, resc["bads"], resc["traces"], resc["scen_files"], executor="conc", monitor="MonC04c")
        viols += v2
        known += k2
        for fnd, cnt in known:
            C.log(f"KNOWN-FINDING: property={pid} {fnd['id']}: {fnd['what']} ({cnt} occurrences)")
        for v in viols[:10]:
            C.log(f"VIOLATION property={pid} replay={v['replay']}")
            C.log(f"   predicate {v['pred']} failed at scenario {v['sc']} event {v['n']}; facts {v['facts']}")
        cov = {"states": states, "transitions": transitions, "traces_validated_against_impl": res["scenarios"] + resc["scenarios"],
               "events_judged": res["events"] + resc["events"], "evaluations": res["scenarios"] + resc["scenarios"],
               "concurrent_flush": {"monitor": "MonC04c.tla", "executions": resc["scenarios"], "events": resc["events"],
                                    "counters": resc["counts"], "predicate_failures": len(resc["bads"]),
                                    "conform_mode": {"spec": "TraceFlwConc.tla", "traces_checked": cfc["scenarios"],
                                                     "events_checked": cfc["events"],
                                                     "accepted": cfc["scenarios"] - len({d[0] for d in cfc["drifts"]})}},
               "distinct_nontrivial": len({json.dumps([s["cfg"], s["steps"]], sort_keys=True) for s in scens}),
               "rule": "all application-level histories (log x3, flush, clone, drop-clone, shutdown, then drop of the last "
                       "handle with/without explicit shutdown) of the FlwConc model per mode, executed with direct / capture / "
                       "buffered (cap below and above the record) / buffer-and-flush(1 ms) / async (pool 1, small message "
                       "capacity; flush interval 0 and 1 ms) x four namings x rotation x background cleanup; plus random "
                       "histories with records around the buffer capacities (63,64,65,8192,20000 bytes)",
               "samples": C.sample_traces(res["traces"], k=2, maxev=10), "model_checking_runs": mc_stats,
               "asis_model_violations": asis, "monitor": "MonC04.tla", "monitor_counters": res["counts"],
               "predicate_failures": len(res["bads"]),
               "known_findings_hit": [{"id": f["id"], "count": c} for f, c in known], "exhaustive": False,
               "harness_build_s": round(build_s, 1)}
        C.write_evidence(pid, tier, seed, "model_checking", cov,
                         A_COMMON + ["file output (stdout/stderr outputs are exercised by C03's child-process runs)",
                                     "records are logged by the thread that also calls flush/shutdown; schedules of the "
                                     "flusher, cleanup and writer threads are whatever the OS produces (all interleavings "
                                     "are covered on the model side only)"], time.time() - t0, len(viols))
        return 1 if viols else 0
    finally:
        if not os.environ.get("VERIF_KEEP"):
            shutil.rmtree(wd, ignore_errors=True)


REGISTRY["C04"] = C04


def C03(tier, seed):
    import json
    import os
    import random
    import shutil
    import time
    from . import common as C
    t0 = time.time()
    pid = "C03"
    wd = C.workdir(pid)
    try:
        build_s = C.build_harness()
        states = transitions = 0
        mc_stats = []
        for mode in ("direct", "buf", "async"):
            cfg = f"MCFlwConc_{mode}.cfg"
            r = C.run_tlc("MCFlwConc.tla", os.path.join(C.SPEC, cfg), os.path.join(wd, "mc-" + cfg), workers=8, timeout=2400)
            if r["violated"] or r["deadlock"]:
                raise C.ToolError(f"FlwConc/{cfg} violates {r['violated']} in the intended design")
            mc_stats.append({"cfg": cfg, "states": r["states"], "transitions": r["transitions"], "wall_s": r["wall_s"]})
            states += r["states"]
            transitions += r["transitions"]
            C.log(f"[C03] TLC {cfg}: {r['states']} distinct states; NoDuplicate, PerProducerOrder, OnlyAccepted, AllArrive hold "
                  f"for every interleaving of 2 threads x 2 records (+ application and writer thread)")
        # a rotation interleaved with the background cleanup thread (buffered writer): FlwClean.tla
        ccfg = "MCFlwClean_q.cfg" if tier == "quick" else "MCFlwClean_t.cfg"
        r = C.run_tlc("MCFlwClean.tla", os.path.join(C.SPEC, ccfg), os.path.join(wd, "mc-clean"), workers=4, timeout=900)
        if r["violated"] or r["deadlock"]:
            raise C.ToolError(f"FlwClean/{ccfg} violates {r['violated']}")
        mc_stats.append({"cfg": ccfg, "states": r["states"], "transitions": r["transitions"], "wall_s": r["wall_s"]})
        states += r["states"]
        transitions += r["transitions"]
        ra = C.run_tlc("MCFlwClean.tla", os.path.join(C.SPEC, "MCFlwClean_asis.cfg"), os.path.join(wd, "mc-clean-asis"), workers=1,
                       timeout=300)
        if "NoRecordLost" not in (ra["violated"] or []):
            raise C.ToolError("FlwClean: the rotation that renames before it flushes must violate NoRecordLost")
        C.log(f"[C03] TLC {ccfg}: {r['states']} distinct states; rotation steps (flush, rename, open, switch, act) interleaved with "
              f"the cleanup thread (take, compress): NoRecordLost, NoDuplicate, WriterLinked hold; the rotation as pinned "
              f"(rename before flush) violates NoRecordLost (the defect repaired in /repo)")
        apa = None
        if tier != "quick":
            apa = C.run_apalache_flwconc()
            C.log(f"[C03] Apalache: inductive invariant of FlwConc discharged for direct / buf / async ({len(apa['steps'])} steps, "
                  f"{apa['wall_s']}s): the safety invariants hold for any number of records per producer")
        rng = random.Random(seed)
        scens = []
        nsched = 0
        variants = {
            "direct": [{"mode": "direct"}],
            "buf": [{"mode": "buf", "cap": 8}, {"mode": "buf", "cap": 64}],
            "async": [{"mode": "async", "pool": 1, "mcapa": 8, "flush_ms": 0}, {"mode": "async", "pool": 4, "mcapa": 64, "flush_ms": 1}],
        }
        for mode in ("direct", "buf", "async"):
            r = C.run_tlc("MCFlwConc.tla", os.path.join(C.SPEC, f"MCFlwConc_sched_{mode}.cfg"), os.path.join(wd, "gen-" + mode),
                          workers=4, timeout=900)
            states += r["states"]
            transitions += r["transitions"]
            seen = set()
            for x in C.replay_lines(r):
                ops = [s_ for s_ in x["steps"] if s_["op"] in ("Format", "Write", "Send", "Shutdown")]
                if not ops or ops[-1]["op"] != "Shutdown":
                    continue        # threads that log after shutdown() are outside the property
                ops = ops[:-1]
                key = json.dumps(ops)
                if key in seen or sum(1 for o in ops if o["op"] in ("Write", "Send")) < 4:
                    continue
                seen.add(key)
                for v in variants[mode]:
                    c = dict(v)
                    c.update({"naming": ["Num", "TsD", "NumD", "Ts"][len(scens) % 4], "rot": len(scens) % 3 != 0, "size": 20})
                    scens.append({"sc": len(scens) + 1, "kind": "sched", "out": "file", "cfg": c, "steps": ops,
                                  "lens": [12, 30], "origin": f"tlc:MCFlwConc_sched_{mode}"})
                    nsched += 1
        nstress = 60 if tier == "quick" else 600
        for i in range(nstress):
            c = G.rand_cfg(rng, criteria=("size",), modes=("direct", "buf", "bufflush", "async", "async"))
            c["crlf"] = False
            c["size"] = rng.choice([100, 500, 4000])
            c["bg"] = rng.random() < 0.3
            if i % 4 == 1:
                # every rotated file is compressed at once, none is ever removed (limit far away): the output is the
                # decompressed files plus the current one
                c["m"] = 100000
                c["bg"] = i % 8 == 5
                if i % 8 == 1:
                    # the cleanup runs in the logging thread right after the rotation, while other threads keep the
                    # buffer of the writer filled
                    c["mode"] = rng.choice(["buf", "bufflush"])
                    c["naming"] = rng.choice(["Num", "Ts", "NumD"])
                    c.pop("fmt", None)
                    c.pop("cur", None)
            if c["mode"] == "async":
                c.update({"pool": rng.choice([1, 2, 50]), "mcapa": rng.choice([8, 32, 200]), "flush_ms": rng.choice([0, 1])})
            if c["mode"] == "bufflush":
                c["flush_ms"] = 1
            if c["mode"] in ("buf", "bufflush"):
                c["cap"] = rng.choice([8, 64, 256, 8192])
            out = rng.choice(["file", "file", "file", "stdout", "stderr"])
            if i % 4 == 1:
                out = "file"                                   # (the compressing cleanup is about files)
                if i % 8 == 1:
                    c["cap"] = rng.choice([256, 8192])         # records stay in the buffer across the rotation
            if out != "file" and c["mode"] == "bufflush":
                c["mode"] = "buf"
            threads = rng.choice([2, 4, 8, 16])
            per = rng.choice([20, 60, 150]) if tier == "quick" else rng.choice([60, 150, 400])
            pivots = [9, 12, 33, 63, 64, 65, c.get("cap", 64) - 1, c.get("cap", 64) + 1, c.get("mcapa", 32) + 1, 250]
            rawmix = (i % 10 == 3 and out == "file")
            if rawmix:
                # every second line of a thread goes through the io::Write interface of the same file writer
                c.pop("m", None)
                c["bg"] = False
                if i % 20 == 3 or c["mode"] == "async":
                    c.update({"mode": "async", "pool": rng.choice([1, 4]), "mcapa": rng.choice([32, 200]), "flush_ms": 0})
                    threads, per = max(threads, 4), max(per, 150)
            scens.append({"sc": len(scens) + 1, "kind": "stress", "out": out, "cfg": c, "threads": threads, "per": per,
                          "rawmix": rawmix,
                          "lens": [max(9, x) for x in rng.sample(pivots, 5)], "noise": rng.randrange(1, 2 ** 31),
                          "origin": "stress",
                          # a format function that rejects some records after writing a part of the line
                          "failfmt": (i % 4 == 0 and out == "file" and c["mode"] != "async")})
        # conform mode for free-running threads (TraceFlwConc.tla): stress runs whose events are recorded
        ntraced = 36 if tier == "quick" else 480
        for i in range(ntraced):
            mode = ["direct", "buf", "async", "bufflush", "async", "direct"][i % 6]
            c = {"mode": mode, "naming": rng.choice(["Num", "NumD", "Ts", "TsD"]), "rot": i % 5 != 4,
                 "size": rng.choice([60, 300, 2000]), "crlf": False, "bg": i % 7 == 3}
            if c["bg"]:
                c["m"] = 100000                                 # compress everything in the background thread, remove nothing
            if mode == "async":
                c.update({"pool": rng.choice([1, 2, 50]), "mcapa": rng.choice([8, 32, 200]), "flush_ms": rng.choice([0, 0, 1])})
            if mode in ("buf", "bufflush"):
                c["cap"] = rng.choice([8, 64, 256, 8192])
            if mode == "bufflush":
                c["flush_ms"] = 1
            threads = rng.choice([2, 3, 4, 8] if tier == "quick" else [2, 4, 8, 16])
            per = rng.choice([8, 20, 40]) if tier == "quick" else rng.choice([20, 60, 120])
            scens.append({"sc": len(scens) + 1, "kind": "stress", "out": "file", "cfg": c, "threads": threads, "per": per,
                          "rawmix": False, "failfmt": False, "trace": True,
                          "lens": [max(9, x) for x in rng.sample([9, 12, 33, 63, 64, 65, c.get("cap", 64) + 1,
                                                                   c.get("mcapa", 32) + 1, 250], 5)],
                          "noise": rng.randrange(1, 2 ** 31), "origin": "stress:traced"})
        res = C.run_sharded(pid, "MonC03", scens, wd, sub="conc")
        cfc = C.conform_conc(res["traces"], wd)
        C.log(f"[C03] conform mode for free-running threads (TraceFlwConc.tla): {cfc['scenarios']} executions / {cfc['events']} "
              f"recorded events (log call begin/end, hook points inside the critical section, at the channel and in the writer "
              f"thread, shutdown) checked against FlwConc.tla - "
              + ("all accepted: every event is a step of the specification, every returned call is acknowledged in its state, "
                 "and the files hold exactly the specification's sequence"
                 if not cfc["drifts"] else f"{len(cfc['drifts'])} not accepted"))
        for (dsc, dn, dev) in cfc["drifts"][:10]:
            C.log(f"NOTE conformance-drift: scenario {dsc} event {dn} ({dev}) is not a step of FlwConc.tla - the code no longer "
                  f"follows the detailed model there (no property verdict; the monitor decides the property)")
        C.log(f"[C03] {nsched} TLC schedules replayed deterministically (output order must equal the specified order) + {nstress} "
              f"stress runs (2-16 threads, seeded scheduling noise; file / stdout / stderr): {res['scenarios']} executions; judged by "
              f"MonC03.tla in {res['wall_s']}s; {len(res['bads'])} predicate failures; counters {res['counts']}")
        viols, known = C.triage(pid, res["bads"], res["traces"], res["scen_files"])
        for fnd, cnt in known:
            C.log(f"KNOWN-FINDING: property={pid} {fnd['id']}: {fnd['what']} ({cnt} occurrences)")
        for v in viols[:10]:
            C.log(f"VIOLATION property={pid} replay={v['replay']}")
            C.log(f"   predicate {v['pred']} failed at scenario {v['sc']} event {v['n']}; facts {v['facts']}")
        samples = []
        for tf in res["traces"][:1]:
            for k, line in enumerate(open(tf)):
                e = json.loads(line)
                if e["ev"] == "Begin":
                    samples.append({"kind": e["kind"], "out": e["out"], "cfg": e["cfg"], "threads": e["threads"], "per": e["per"],
                                    "steps": e["steps"][:12]})
                if len(samples) >= 3:
                    break
        cov = {"states": states, "transitions": transitions, "traces_validated_against_impl": res["scenarios"],
               "evaluations": res["scenarios"],
               "distinct_nontrivial": len({json.dumps([s_["cfg"], s_.get("steps"), s_.get("threads"), s_.get("per"), s_.get("noise")],
                                                      sort_keys=True) for s_ in scens}),
               "rule": "(a) every schedule of 2 threads x 2 records of FlwConc.tla (steps Format/Write resp. Format/Send; "
                       "direct, buffered, async) replayed through the schedule controller at the hook point between formatting "
                       "and the critical section / the channel send: the file order must be the order the specification "
                       "predicts; (b) stress: 2-16 threads x 20-150 (quick) / 60-400 (thorough) records, record lengths around "
                       "buffer and pool capacities, size rotation under every naming, modes direct/buffered/buffer+flush/async "
                       "(pool 1-50, message capacity 8-200), outputs file, stdout, stderr (child process), seeded yield/sleep "
                       "noise at the hook points",
               "samples": samples, "model_checking_runs": mc_stats, "schedules_replayed": nsched, "stress_runs": nstress + ntraced,
               "inductive_invariant": apa,
               "conform_mode_threads": {"spec": "TraceFlwConc.tla", "traces_checked": cfc["scenarios"],
                                        "events_checked": cfc["events"],
                                        "accepted": cfc["scenarios"] - len({d[0] for d in cfc["drifts"]}),
                                        "drifts": [{"sc": d[0], "n": d[1], "ev": d[2]} for d in cfc["drifts"][:20]]},
               "monitor": "MonC03.tla", "monitor_counters": res["counts"], "predicate_failures": len(res["bads"]),
               "known_findings_hit": [{"id": f["id"], "count": c} for f, c in known], "exhaustive": False,
               "harness_build_s": round(build_s, 1)}
        C.write_evidence(pid, tier, seed, "model_checking", cov,
                         A_COMMON + ["on the code, interleavings finer than the hook points are reached by stress only "
                                     "(exploration); the exhaustive statement is about the model"],
                         time.time() - t0, len(viols))
        return 1 if viols else 0
    finally:
        if not os.environ.get("VERIF_KEEP"):
            shutil.rmtree(wd, ignore_errors=True)


REGISTRY["C03"] = C03
EXECUTOR["C03"] = "conc"


C10_FMT = {"std": None, "with_dot": "r%Y.%m.%d_%H.%M.%S", "no_r": "%Y%m%d-%H%M%S", "date_only": "r%Y-%m-%d",
           "with_space": "r%Y %m %d %H%M%S", "percent": "r%%%Y-%m-%d_%H%M%S", "compact": "%Y%m%dT%H%M%S",
           "with_millis_literal": "r%Y-%m-%d_%H-%M-%S_000"}


def _rand_unicode(rng, n):
    pools = [(0x20, 0x7e), (0xa0, 0x24f), (0x370, 0x3ff), (0x4e00, 0x4e80), (0x1f600, 0x1f64f), (0x2000, 0x206f)]
    out = []
    for _ in range(n):
        a, b = rng.choice(pools)
        out.append(chr(rng.randint(a, b)))
    return "".join(out)


def _c10_dir_steps(cls, c, rng):
    num = c["naming"] in ("Num", "NumD")
    cur = c.get("cur") or ("rCURRENT" if c["naming"] in ("Num", "Ts") else "")
    i0 = "r00007" if num else "r2030-01-01_00-16-40"
    pre = "app_"
    sfx = ".log"
    rec = "0000901|xxxx\n"
    mk = lambda name, **kw: dict({"op": "ExtCreate", "name": name, "content": rec}, **kw)  # noqa: E731
    if cls == "empty":
        return []
    if cls == "earlier_run":
        return [{"op": "Start", "append": False}, {"op": "Log", "len": 40}, {"op": "Log", "len": 40}, {"op": "Log", "len": 40},
                {"op": "Stop"}]
    if cls == "near_miss":
        return [mk(n) for n in foreign_names(c)]
    if cls == "multibyte_at_infix":
        return [mk(f"app\u00e9_{i0}{sfx}"), mk(f"app_\u00e9{i0[1:]}{sfx}"), mk(f"ap\u00fc_{i0}{sfx}"), mk(f"app_\U0001f600{sfx}"),
                # names that end with the text of the suffix but without the dot, a multi-byte character right before it
                mk(f"app_\u00e9{sfx[1:]}"), mk(f"app_{i0[:-1]}\u00e9{sfx[1:]}"), mk(f"app_\U0001f600{sfx[1:]}")]
    if cls == "multibyte_in_infix":
        return [mk(f"app_{i0[:-1]}\u00e9{sfx}"), mk(f"app_{i0[:3]}\u65e5{i0[4:]}{sfx}"), mk(f"app_{i0}\u00e9{sfx}"),
                mk(f"app_{i0}.restart-00\u00e9\u00e9{sfx}")]
    if cls == "malformed_restart":
        b = "r2030-01-01_00-16-40" if not num else i0
        return [mk(f"app_{b}.restart-1{sfx}"), mk(f"app_{b}.restart-000x{sfx}"), mk(f"app_{b}.restart-{sfx}"),
                mk(f"app_{b}.restart-99999{sfx}"), mk(f"app_{b}.restart-{sfx}.gz"), mk(f"app_{b}.restart-0001.restart-0002{sfx}")]
    if cls == "dir_named_like_rotated":
        return [mk(f"app_{i0}{sfx}", dir=True), mk(f"app_{i0}{sfx}.gz", dir=True)]
    if cls == "dir_at_current_path":
        name = f"app_{cur}{sfx}" if cur else (f"app_r00000{sfx}" if num else f"app_r2030-01-01_00-16-40{sfx}")
        return [mk(name, dir=True)]
    if cls == "only_gz":
        return [mk(f"app_{x}{sfx}.gz", gz=True) for x in (["r00000", "r00001", "r00002"] if num else
                                                            ["r2030-01-01_00-00-00", "r2030-01-01_00-00-01"])]
    if cls == "high_index":
        return [mk(f"app_{x}{sfx}") for x in (["r99998", "r99999"] if num else ["r2099-12-31_23-59-58", "r9999-12-31_23-59-59"])]
    if cls == "huge_file":
        name = f"app_{cur}{sfx}" if cur else f"app_{i0}{sfx}"
        return [mk(name, repeat=80000)]
    if cls == "unicode_digits":
        return [mk(f"app_r0000\uff17{sfx}"), mk(f"app_r\u0663\u0663\u0663\u0663\u0663{sfx}"), mk(f"app_r2030-01-01_00-16-4\uff10{sfx}")]
    if cls == "symlink_dangling":
        return [mk(f"app_{i0}{sfx}", symlink="/nonexistent/target"), mk(f"app_{i0}.restart-0000{sfx}", symlink="loop"),
                mk("loop", symlink="loop")]
    if cls == "many_files":
        return [mk(f"app_r{j:05d}{sfx}" if num else f"app_r2029-01-01_00-{j // 60:02d}-{j % 60:02d}{sfx}") for j in range(150)]
    return []


def _c10_op_steps(cls, rng, nfam):
    P = {"op": "Log", "len": 20, "probe": True}
    if cls == "log_plain":
        return [dict(P)]
    if cls == "log_empty_msg":
        return [{"op": "Log", "len": 1, "msg": ""}]
    if cls == "log_multiline":
        return [{"op": "Log", "len": 1, "msg": "first\nsecond\r\n\n\tthird"}]
    if cls == "log_nonascii":
        return [{"op": "Log", "len": 1, "msg": "h\u00e9llo \u2713 \u65e5\u672c " + _rand_unicode(rng, 12)}]
    if cls == "log_huge":
        return [{"op": "Log", "len": rng.choice([65536, 1048576])}]
    if cls == "log_recursive":
        return [{"op": "Log", "len": 20, "recursive": rng.choice([1, 2, 3]), "ilen": rng.choice([12, 40, 200])}]
    if cls == "log_no_fields":
        return [{"op": "Log", "len": 20, "nomod": True, "query": True}]
    t = {"log_target_empty": ["", " "], "log_brace_open": ["{", "{{", "}"], "log_brace_empty": ["{}", "{,}", "{ }"],
         "log_brace_unbalanced": ["{A", "{A,B", "A}", "{A}}"], "log_brace_trailing_comma": ["{A,}", "{,A}", "{A,,_Default}"],
         "log_brace_multibyte": ["{\u00e9", "{A\u00e9", "{\u00e9}", "\u00e9{A}", "{A}\u00e9", "{\U0001f600", "{_Default,\u65e5"],
         "log_brace_unknown": ["{X}", "{X,Y,Z}", "{A,X}"], "log_brace_default": ["{A,_Default}", "{_Default}", "{_Default,_Default}"]}
    if cls in t:
        tg = rng.choice(t[cls] + ([("{" + _rand_unicode(rng, rng.randint(0, 6))) if rng.random() < 0.5 else _rand_unicode(rng, 5)]
                                  if "brace" in cls else []))
        return [{"op": "Log", "len": 20, "target": tg, "query": True}]
    if cls == "trigger":
        return [{"op": "Trigger"}]
    if cls == "flush":
        return [{"op": "Flush"}]
    if cls == "elf":
        return [{"op": "Elf", "sel": rng.choice(C16_SELS)}]
    if cls == "reopen":
        return [{"op": "Reopen"}]
    if cls == "parse_garbage":
        return [{"op": "ParseNew", "spec": rng.choice(["a=b=c,,=,/[(", "info,=,warn/", "///", "a=,=b", "trace/(((", "=", ",,,,", "a b=c"])}]
    if cls == "parse_unicode":
        return [{"op": "ParseNew", "spec": _rand_unicode(rng, rng.randint(1, 30))}]
    if cls == "restart":
        return [{"op": "Stop"}, {"op": "Start", "append": rng.random() < 0.5}]
    if cls == "dir_removed":
        # the environment removes the whole log directory under the running logger, then a rotation is due
        return [{"op": "RmDir"}, {"op": "Log", "len": 120}, {"op": "Trigger"}, {"op": "Elf", "sel": rng.choice(C16_SELS)}]
    if cls == "reset":
        return [{"op": "Reset", "cfg": {"naming": rng.choice(["Num", "TsD"]), "rot": True, "size": 50, "subdir": f"fam{nfam}",
                                         "basename": f"app{nfam}", "full": True}}]
    return []


def _c10_route_scenario(sc, x, rng):
    """An output class x 3 operation classes of Robust.tla as a scenario of `flv route` (whole logger with additional
    writers A (recording), B (file), S (syslog); default channel and write mode from the output class)."""
    prim, mode = (x["cfg"]["outc"].split("_") + ["direct"])[:2]
    cfg = {"kind": "frame", "writers": [{"name": "A", "kind": "rec", "ceil": 5}, {"name": "B", "kind": "flw", "ceil": 5},
                                        {"name": "S", "kind": "syslog", "ceil": 5}],
           "primary": prim, "dupe0": rng.choice([0, 0, 3, 6]), "dupo0": rng.choice([0, 0, 3, 6]),
           "spec0": {"dflt": 5, "m": -1}, "crlf": False, "mode": mode, "thread": "", "tick": 1,
           "ffile": "id", "ferr": "id", "fout": "id", "fpw": "id", "fA": "id", "fB": "id"}
    base = {"op": "Log", "brace": False, "toks": [], "plain": "m", "lvl": 3, "mod": "m", "rec": False, "cls": "c10"}
    steps = []
    for o in x["steps"]:
        s_ = dict(base)
        if o == "log_recursive":
            s_.update({"rec": True})
        elif o == "log_recursive_brace":
            s_.update({"rec": True, "brace": True, "toks": rng.choice([["A", "_Default"], ["_Default"], ["B", "_Default"]]),
                       "plain": "", "ibrace": True, "itoks": rng.choice([["A", "_Default"], ["_Default"], ["X"]]), "iplain": ""})
        elif o == "log_recursive_to_writer":
            w = rng.choice(["A", "B", "S"])
            s_.update({"rec": True, "brace": True, "toks": [w], "plain": "", "ibrace": True,
                       "itoks": [rng.choice(["A", "B", "S"])], "iplain": ""})
        elif o == "log_recursive_respec":
            # while the record is being formatted - before its message logs the inner record - another thread calls
            # set_new_spec(): nothing of the logger may be locked across the formatting
            s_.update({"rec": True, "respec": True})
        elif o == "log_brace_default":
            s_.update({"brace": True, "toks": ["A", "B", "S", "_Default"], "plain": ""})
        elif o == "log_brace_open":
            s_.update({"raw": rng.choice(["{", "{A", "{\u00e9", "{A,}", "{}"])})
        elif o == "adapt_dup":
            s_ = {"op": rng.choice(["AdaptErr", "AdaptOut"]), "d": rng.randint(0, 6)}
        steps.append(s_)
        steps.append(dict(base))
    if prim == "buffer":
        # Logger::log_to_buffer with a small memory buffer: lines of every length around its size
        cfg["bufmax"] = rng.choice([24, 48, 64])
        for ln in range(1, cfg["bufmax"] + 4):
            steps.append(dict(base, msghex=("x" * ln).encode().hex()))
    return {"sc": sc, "cfg": cfg, "t0": 34560000, "steps": steps, "origin": "tlc:MCRobust_std",
            "tag": {"outc": x["cfg"]["outc"], "ops": "+".join(x["steps"])}}


def _c10_route_facts(begin, ev, sl, pred):
    c = begin.get("cfg", {})
    return {"primary": c.get("primary"), "mode": c.get("mode"), "rec": bool(ev.get("rec")), "ev": ev.get("ev"),
            "ret": str(ev.get("ret"))[:60], "tag.outc": (begin.get("tag") or {}).get("outc"),
            "tag.ops": (begin.get("tag") or {}).get("ops")}


def C10(tier, seed):
    import json
    import os
    import random
    import re
    import shutil
    import subprocess
    import time
    from concurrent.futures import ThreadPoolExecutor
    from . import common as C
    t0 = time.time()
    pid = "C10"
    wd = C.workdir(pid)
    try:
        build_s = C.build_harness()
        r = C.run_tlc("MCRobust.tla", os.path.join(C.SPEC, "MCRobust_q.cfg"), os.path.join(wd, "mc"), workers=8, timeout=900)
        if r["violated"]:
            raise C.ToolError(f"Robust violates {r['violated']}")
        states, transitions = r["states"], r["transitions"]
        C.log(f"[C10] TLC MCRobust_q.cfg: {r['states']} distinct states: totality over the class catalogue (14 directory classes x "
              f"6 namings x 8 format classes x append x sequences of 24 operation classes)")
        g = C.run_tlc("MCRobust.tla", os.path.join(C.SPEC, "MCRobust_gen.cfg" if tier == "quick" else "MCRobust_gent.cfg"),
                      os.path.join(wd, "gen"), workers=4, timeout=1800)
        reps = C.replay_lines(g)
        states += g["states"]
        transitions += g["transitions"]
        nall = len(reps)
        rng = random.Random(seed)
        lim = 5000 if tier == "quick" else 60000
        if nall > lim:
            rng.shuffle(reps)
            reps = reps[:lim]
        scens = []
        for j, x in enumerate(reps):
            mc = x["cfg"]
            c = {"naming": mc["naming"], "rot": True, "size": rng.choice([30, 100]), "mode": rng.choice(["direct", "buf"]),
                 "cap": 64, "append": bool(mc["append"]), "addw": (j % 2 == 0)}
            if j % 5 == 0:
                c.update({"k": 1, "m": 1})
            if mc["naming"] in ("TsC", "TsCD"):
                c["fmt"] = C10_FMT[mc["fmtc"]] or "r%Y-%m-%d_%H-%M-%S"
                if mc["naming"] == "TsC":
                    c["cur"] = "rNOW"
            if mc["dirc"] == "near_miss" and j % 2 == 1:
                # other fixed name parts: none at all, a basename equal to the suffix, a discriminant only
                c.update(rng.choice([{"basename": ""}, {"basename": "log"}, {"basename": "", "discr": "d"}, {"basename": "log", "suffix": "-"}]))
            steps = _c10_dir_steps(mc["dirc"], c, rng)
            steps.append({"op": "Start", "append": bool(mc["append"])})
            steps.append({"op": "Log", "len": 20, "probe": True})
            nfam = 0
            for o in x["steps"]:
                nfam += 1
                steps += _c10_op_steps(o, rng, nfam)
                steps.append({"op": "Log", "len": 20, "probe": True})
                if rng.random() < 0.3:
                    steps.append({"op": "Adv", "dt": rng.choice([1, 60, 86400])})
            steps.append({"op": "Stop"})
            scens.append({"sc": len(scens) + 1, "cfg": c, "t0": 1000, "steps": steps, "origin": "tlc:MCRobust", "obs": "sync",
                          "tag": {"dirc": mc["dirc"], "fmtc": mc["fmtc"], "ops": "+".join(x["steps"])}})
        # execute shard-wise with hang restart
        nsh = 10 if tier == "quick" else 40
        shards = C.shard(scens, nsh)

        def one(i):
            rest = shards[i]
            tf = os.path.join(wd, f"MonC10-trace-{i}.ndjson")
            open(tf, "w").close()
            part = 0
            hangs = 0
            nsc = nev = 0
            while rest:
                sf = os.path.join(wd, f"MonC10-scen-{i}-{part}.ndjson")
                tp = os.path.join(wd, f"MonC10-trace-{i}-{part}.ndjson")
                with open(sf, "w") as f:
                    for s_ in rest:
                        f.write(json.dumps(s_) + "\n")
                env = dict(os.environ)
                env.setdefault("TZ", "UTC")
                p = subprocess.run([C.FLV, "flw", sf, tp, "--hang-secs", "20"], stdout=subprocess.PIPE, stderr=subprocess.PIPE,
                                   text=True, env=env, timeout=1500)
                lines = open(tp).readlines() if os.path.exists(tp) else []
                with open(tf, "a") as f:
                    f.writelines(lines)
                done = {json.loads(x_)["sc"] for x_ in lines if '"ev":"Begin"' in x_}
                nsc += len(done)
                nev += len(lines)
                if p.returncode == 5:
                    rest = [s_ for s_ in rest if s_["sc"] not in done]
                    part += 1
                    hangs += 1
                    if hangs >= 3:
                        # three hangs in one shard are verdict enough; each further one would cost the watchdog time
                        C.log(f"[C10] shard {i}: {hangs} hangs - the remaining {len(rest)} scenarios of the shard are not executed")
                        break
                    continue
                if p.returncode != 0:
                    # the process itself died (abort/segfault): attribute it to the scenario that was running
                    last = max(done) if done else rest[0]["sc"]
                    with open(tf, "a") as f:
                        f.write(json.dumps({"sc": last, "n": 9999, "ev": "Died", "ret": "panic:process exit %s" % p.returncode,
                                            "retk": "panic", "o": False, "errs": [], "inj": 0, "injp": [], "faultleft": 0,
                                            "t": 0, "tstr": ""}) + "\n")
                    rest = [s_ for s_ in rest if s_["sc"] not in done]
                    part += 1
                    continue
                break
            b, cts, consumed, nl = C.judge("MonC10", tf, os.path.join(wd, f"meta-{i}"))
            return nsc, nev, b, cts, tf

        with ThreadPoolExecutor(max_workers=10) as ex:
            results = list(ex.map(one, range(len(shards))))
        bads, counts, events, nsc, traces = [], [], 0, 0, []
        for (a, b_, c_, d_, tf) in results:
            nsc += a
            events += b_
            bads += c_
            traces.append(tf)
            if d_:
                counts = [x_ + y_ for x_, y_ in zip(counts, d_)] if counts else list(d_)
        scen_files = []
        sfall = os.path.join(wd, "all-scen.ndjson")
        with open(sfall, "w") as f:
            for s_ in scens:
                f.write(json.dumps(s_) + "\n")
        scen_files.append(sfall)
        C.log(f"[C10] {nall} class combinations from TLC, {len(scens)} instantiated and executed ({events} events); judged by "
              f"MonC10.tla; {len(bads)} predicate failures; counters {counts}")
        # ---- second catalogue: output classes x operation classes incl. recursive records (flv route, MonC10r.tla)
        g2 = C.run_tlc("MCRobust.tla", os.path.join(C.SPEC, "MCRobust_std.cfg"), os.path.join(wd, "gen-std"), workers=4, timeout=900)
        reps2 = C.replay_lines(g2)
        states += g2["states"]
        transitions += g2["transitions"]
        nstd_all = len(reps2)
        lim2 = 600 if tier == "quick" else 20000
        # every output class at least a few times, whatever the sample
        byc = {}
        for x in reps2:
            byc.setdefault(x["cfg"]["outc"], []).append(x)
        if nstd_all > lim2:
            rng.shuffle(reps2)
            keep = [x for v in byc.values() for x in v[:12]]
            reps2 = keep + [x for x in reps2 if x not in keep][:max(0, lim2 - len(keep))]
        rscens = [_c10_route_scenario(100001 + k, x, rng) for k, x in enumerate(reps2)]
        res2 = C.run_sharded(pid, "MonC10r", rscens, wd, sub="route")
        C.log(f"[C10] output classes: {nstd_all} combinations (14 output classes x sequences of 3 of 8 operation classes) from TLC, "
              f"{len(rscens)} executed through the whole logger ({res2['events']} events); judged by MonC10r.tla; "
              f"{len(res2['bads'])} predicate failures; counters {res2['counts']}")
        # the memory buffer (Logger::log_to_buffer): BufW.tla model-checked (FIFO, limit, newest line present, no needless
        # eviction, no deadlock, every call returns); the as-found variant (format under the lock) must deadlock, the
        # variant evicting at equality must evict needlessly; then conform mode over the recorded buffer contents
        rb = C.run_tlc("MCBufW.tla", os.path.join(C.SPEC, "MCBufW_q.cfg"), os.path.join(wd, "mc-bufw"), workers=2, timeout=900)
        if rb["violated"]:
            raise C.ToolError(f"BufW violates {rb['violated']}")
        states += rb["states"]
        transitions += rb["transitions"]
        for mcfg, must in (("MCBufW_asfound.cfg", "NoDeadlock"), ("MCBufW_mut.cfg", "NoNeedlessEviction")):
            rm = C.run_tlc("MCBufW.tla", os.path.join(C.SPEC, mcfg), os.path.join(wd, "mc-" + mcfg), workers=1, timeout=300)
            if must not in (rm["violated"] or []):
                raise C.ToolError(f"BufW/{mcfg} must violate {must}")
        bufconf = {"lines": 0, "checked": 0, "unexplained": []}
        for tf in res2["traces"]:
            if '"buffer":true' not in open(tf).read():
                continue
            try:
                rt = C.run_tlc("TraceBufW.tla", os.path.join(C.SPEC, "TraceBufW.cfg"), os.path.join(wd, "bufw-" + os.path.basename(tf)),
                               workers=1, timeout=900, env={"TRACE": tf}, xmx="3g")
            except C.ToolError as ex:
                C.log(f"NOTE: conform mode (BufW) did not complete on {os.path.basename(tf)}: {str(ex)[:200]}")
                continue
            nl = sum(1 for _ in open(tf))
            consumed = checked = 0
            for tag, rest in rt["printed"]:
                if tag == "CONSUMED":
                    consumed = int(re.findall(r"\d+", rest)[0])
                elif tag == "STAT":
                    checked = int(re.findall(r"\d+", rest)[0])
            bufconf["lines"] += nl
            bufconf["checked"] += checked
            if consumed != nl:
                e_ = json.loads(open(tf).readlines()[max(0, rt["depth"] - 1)])
                bufconf["unexplained"].append([e_.get("sc"), e_.get("n")])
                C.log(f"NOTE: conform mode (BufW): scenario {e_.get('sc')} event {e_.get('n')}: the memory buffer is not the "
                      f"specification's ({e_.get('snap')})")
        C.log(f"[C10] TLC MCBufW_q.cfg: {rb['states']} distinct states (memory buffer: FIFO, limit, newest present, no needless "
              f"eviction, no deadlock, calls return; as-found variant deadlocks); conform mode: {bufconf['checked']} buffer "
              f"writes of the real code explained by BufW.tla, {len(bufconf['unexplained'])} unexplained")
        v2, k2 = C.triage(pid, res2["bads"], res2["traces"], res2["scen_files"], extra_facts=_c10_route_facts, executor="route",
                          monitor="MonC10r")
        viols, known = C.triage(pid, bads, traces, scen_files)
        viols = viols + v2
        known = known + k2
        nsc += res2["scenarios"]
        events += res2["events"]
        for fnd, cnt in known:
            C.log(f"KNOWN-FINDING: property={pid} {fnd['id']}: {fnd['what']} ({cnt} occurrences)")
        for v in viols[:10]:
            C.log(f"VIOLATION property={pid} replay={v['replay']}")
            C.log(f"   predicate {v['pred']} failed at scenario {v['sc']} event {v['n']}; facts {v['facts']}")
        cov = {"memory_buffer": {"spec": "BufW.tla", "states": rb["states"], "conform_writes_checked": bufconf["checked"],
                                 "trace_lines": bufconf["lines"], "unexplained": bufconf["unexplained"][:20]},
               "evaluations": nsc, "distinct_nontrivial": len({json.dumps([s_["cfg"], s_["steps"]], sort_keys=True) for s_ in scens}),
               "rule": "TLC enumerates every combination (directory class x naming x format class x append) x every sequence of 2 "
                       "operation classes of Robust.tla; each combination is instantiated with fixed representatives and seeded "
                       "random members (random Unicode targets / specification strings, 64 KiB - 1 MiB messages); a watchdog turns "
                       "20 s without progress into a Hang event; each operation is followed by an ordinary probe record",
               "samples": C.sample_traces(traces, k=2, maxev=10), "class_combinations": nall, "states": states,
               "transitions": transitions, "events_judged": events, "traces_validated_against_impl": nsc,
               "monitor": "MonC10.tla", "monitor_counters": counts, "predicate_failures": len(bads),
               "known_findings_hit": [{"id": f["id"], "count": c} for f, c in known], "exhaustive": nall <= lim,
               "harness_build_s": round(build_s, 1)}
        C.write_evidence(pid, tier, seed, "exploration", cov,
                         A_COMMON + ["membership inside an input class is sampled; the class partition is the catalogue of "
                                     "MCRobust.tla", "documented panics are not provoked (FileSpec::try_from without file name, "
                                     "force_utc after first use, broken error channel with panic_if_error_channel_is_broken)"],
                         time.time() - t0, len(viols))
        return 1 if viols else 0
    finally:
        if not os.environ.get("VERIF_KEEP"):
            shutil.rmtree(wd, ignore_errors=True)


REGISTRY["C10"] = C10


from . import routecheck as R  # noqa: E402
REGISTRY.update({"C13": R.C13, "C20": R.C20})
EXECUTOR.update({"C13": "route", "C20": "route"})

from . import speccheck as S  # noqa: E402
REGISTRY.update({"C02": S.C02, "C05": S.C05, "C12": S.C12, "C17": S.C17})
EXECUTOR.update({"C02": "spec", "C05": "spec", "C12": "spec", "C17": "spec"})
