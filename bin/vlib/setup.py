"""bin/check setup: build the harness offline and parse every TLA+ module."""
import glob
import os
import subprocess

from . import common as C


def run():
    s = C.build_harness()
    C.log(f"[setup] harness built in {s:.1f}s")
    bad = 0
    for f in sorted(glob.glob(os.path.join(C.SPEC, "*.tla"))):
        p = subprocess.run(["java", "-cp", C.TLA_CP, "tla2sany.SANY", os.path.basename(f)], cwd=C.SPEC,
                           stdout=subprocess.PIPE, stderr=subprocess.STDOUT, text=True)
        ok = p.returncode == 0 and "Semantic errors" not in p.stdout and "Could not parse" not in p.stdout \
            and "*** Errors" not in p.stdout
        if not ok:
            bad += 1
            C.log(f"[setup] SANY failed for {f}:\n{p.stdout[-1500:]}")
    C.log(f"[setup] parsed {len(glob.glob(os.path.join(C.SPEC, '*.tla')))} TLA+ modules, {bad} with errors")
    return 0 if bad == 0 else 2
