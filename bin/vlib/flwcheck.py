"""Generic driver for the properties decided on file-writer scenarios (Flw.tla + Mon<Cxx>.tla)."""
import json
import os
import random
import shutil
import time

from . import common as C
from . import flwgen as G


def run(pid, tier, seed, *, mc, gen, rand_fn, mon, assumptions, rule, level="model_checking",
        regress=(), extra_facts=None, mon_env=None, post_scen=None, sub="flw", cap=None, shard_env=None, conform=True,
        extra=None):
    """mc: list of (module, cfg, workers, timeout) model-checking runs whose invariants must hold.
    gen: list of (module, cfg, extra_cfg, tag) scenario-generating TLC runs (REPLAY lines).
    rand_fn(rng, tier, next_sc) -> list of scenarios.
    Returns process exit code."""
    t0 = time.time()
    wd = C.workdir(pid)
    try:
        build_s = C.build_harness()
        # 1. model checking of the specification (design level)
        mc_stats = []
        states = transitions = 0
        for (module, cfg, workers, timeout) in mc:
            r = C.run_tlc(module, os.path.join(C.SPEC, cfg), os.path.join(wd, "mc-" + cfg), workers=workers,
                          timeout=timeout)
            if r["violated"] or r["deadlock"]:
                tail = "\n".join(r["out"].splitlines()[-60:])
                C.log(tail)
                raise C.ToolError(
                    f"specification {module}/{cfg} violates {r['violated']}: the model or the property "
                    f"formalisation is wrong (this is a tool error, not a verdict about /repo)")
            mc_stats.append({"module": module, "cfg": cfg, "states": r["states"], "transitions": r["transitions"],
                             "depth": r["depth"], "wall_s": r["wall_s"]})
            states += r["states"]
            transitions += r["transitions"]
            C.log(f"[{pid}] TLC {cfg}: {r['states']} distinct states, {r['transitions']} transitions, "
                  f"depth {r['depth']}, {r['wall_s']}s - invariants hold")
        # 2. scenario generation: behaviours of the specification + seeded random histories + regressions
        scens = []
        gen_stats = []
        for (module, cfg, extra_cfg, tag) in gen:
            r = C.run_tlc(module, os.path.join(C.SPEC, cfg), os.path.join(wd, "gen-" + cfg), workers=4, timeout=600)
            reps = C.drop_prefixes(C.replay_lines(r))
            nall = len(reps)
            limit = cap or (12000 if tier == "quick" else 150000)
            if nall > limit:
                # too many maximal behaviours for this tier: seeded sample (the rest is reached with other seeds)
                random.Random(seed * 7919 + len(scens)).shuffle(reps)
                reps = reps[:limit]
            new = G.model_to_scenarios(reps, start_sc=len(scens) + 1, origin="tlc:" + cfg, extra_cfg=extra_cfg,
                                       tag=tag)
            if post_scen:
                new = [post_scen(s) for s in new]
            scens += new
            gen_stats.append({"cfg": cfg, "states": r["states"], "maximal_behaviours": nall, "replayed": len(new)})
            states += r["states"]
            transitions += r["transitions"]
            C.log(f"[{pid}] TLC {cfg}: {r['states']} states -> {nall} maximal behaviours, {len(new)} replayed")
        n_model = len(scens)
        rng = random.Random(seed)
        rnd = rand_fn(rng, tier, len(scens) + 1) if rand_fn else []
        scens += rnd
        nreg = 0
        for rf in regress:
            p = os.path.join(C.SPEC, "regress", rf)
            if os.path.exists(p):
                for line in open(p):
                    if line.strip():
                        s = json.loads(line)
                        s["sc"] = len(scens) + 1
                        s.setdefault("origin", "regress:" + rf)
                        scens.append(s)
                        nreg += 1
        if extra:
            # a further specification of the same property: its own model checking, its behaviours as scenarios
            xs, xmc, xst, xtr = extra.before(wd, tier, seed, len(scens) + 1)
            scens += xs
            mc_stats += xmc
            states += xst
            transitions += xtr
        for s_ in scens:
            s_["conf"] = conform and C.conformable(s_)
        # 3. execute on the real code, 4. judge with the TLA+ monitor
        res = C.run_sharded(pid, mon, scens, wd, sub=sub, mon_env=mon_env, shard_env=shard_env)
        # 4b. conform mode: is every trace of a scenario inside Flw.tla's domain a behaviour of Flw.tla?
        cf = {"scenarios": 0, "events": 0, "drifts": []}
        if conform:
            cf = C.conform(res["traces"], wd)
            C.log(f"[{pid}] conform mode (TraceFlw.tla): {cf['scenarios']} traces / {cf['events']} events checked against Flw.tla - "
                  + ("all accepted: every event is explained by the specification's action with EQUAL projected state"
                     if not cf["drifts"] else f"{len(cf['drifts'])} not accepted"))
            for (dsc, dn, dev) in cf["drifts"][:10]:
                C.log(f"NOTE conformance-drift: scenario {dsc} event {dn} ({dev}) is not a step of Flw.tla - the code no longer "
                      f"follows the detailed model there (no property verdict; the monitors decide the property)")
        C.log(f"[{pid}] executed {res['scenarios']} scenarios / {res['events']} events on the real code "
              f"({n_model} from TLC, {len(rnd)} random, {nreg} regression); judged by {mon}.tla in {res['wall_s']}s; "
              f"{len(res['bads'])} predicate failures; counters {res['counts']}")
        # 5. triage
        viols, known = C.triage(pid, res["bads"], res["traces"], res["scen_files"], extra_facts=extra_facts)
        for fnd, cnt in known:
            C.log(f"KNOWN-FINDING: property={pid} {fnd['id']}: {fnd['what']} ({cnt} occurrences)")
        for v in viols[:10]:
            C.log(f"VIOLATION property={pid} replay={v['replay']}")
            C.log(f"   predicate {v['pred']} failed at scenario {v['sc']} event {v['n']}; facts {v['facts']}")
        distinct = len({json.dumps([s["cfg"], s["steps"]], sort_keys=True) for s in scens})
        cov = {
            "states": states, "transitions": transitions,
            "traces_validated_against_impl": res["scenarios"],
            "events_judged": res["events"],
            "conform_mode": {"spec": "TraceFlw.tla", "traces_checked": cf["scenarios"], "events_checked": cf["events"],
                             "accepted": cf["scenarios"] - len({d[0] for d in cf["drifts"]}),
                             "drifts": [{"sc": d[0], "n": d[1], "ev": d[2]} for d in cf["drifts"][:20]]},
            "evaluations": res["scenarios"], "distinct_nontrivial": distinct,
            "rule": rule,
            "samples": C.sample_traces(res["traces"]),
            "model_checking_runs": mc_stats, "scenario_generation_runs": gen_stats,
            "scenarios_from_spec": n_model, "scenarios_random": len(rnd), "scenarios_regression": nreg,
            "monitor": mon + ".tla", "monitor_counters": res["counts"],
            "predicate_failures": len(res["bads"]),
            "known_findings_hit": [{"id": f["id"], "count": c} for f, c in known],
            "exhaustive": False,
            "harness_build_s": round(build_s, 1),
        }
        if extra:
            cov.update(extra.after(res, wd))
        C.write_evidence(pid, tier, seed, level, cov, assumptions, time.time() - t0, len(viols))
        return 1 if viols else 0
    finally:
        if not os.environ.get("VERIF_KEEP"):
            shutil.rmtree(wd, ignore_errors=True)
