"""Scenario construction for the file-writer executor: conversion of TLC behaviours of Flw.tla into
harness scenarios, and seeded random generators of long histories with realistic magnitudes."""
import random

FMT_BY_GRAN = {1: None, 60: "r%Y-%m-%d_%H-%M", 3600: "r%Y-%m-%d_%H", 86400: "r%Y-%m-%d"}


def model_cfg_to_harness(mc, extra=None):
    """cfg record of Flw.tla -> cfg object of the harness."""
    c = {"naming": mc["naming"], "rot": bool(mc["rot"]), "append": bool(mc.get("append", False))}
    if mc.get("size", -1) >= 0:
        c["size"] = mc["size"]
    if mc.get("age", "-") != "-":
        c["age"] = mc["age"]
    if mc.get("cap", 0) > 0:
        c["mode"] = "buf"
        c["cap"] = mc["cap"]
    else:
        c["mode"] = "direct"
    if mc.get("clean"):
        k, m = mc.get("k", 0), mc.get("m", 0)
        if m == 0:
            c["k"] = k
        elif k == 0 and mc.get("konly_m", True):
            c["m"] = m
        else:
            c["k"], c["m"] = k, m
    g = mc.get("gran", 1)
    if g != 1:
        c["naming"] = {"Ts": "TsC", "TsD": "TsCD"}.get(mc["naming"], mc["naming"])
        c["fmt"] = FMT_BY_GRAN[g]
        if c["naming"] == "TsC":
            c["cur"] = "rCURRENT"
    if extra:
        c.update(extra)
    return c


def model_to_scenarios(replays, start_sc=1, origin="tlc-state-cover", extra_cfg=None, final_stop=True, tag=None):
    """TLC REPLAY payloads -> harness scenarios (adds a final Stop so that every scenario ends synced)."""
    out = []
    sc = start_sc
    for r in replays:
        steps = [dict(s) for s in r["steps"]]
        if not steps:
            continue
        if final_stop and steps[-1]["op"] != "Stop":
            steps.append({"op": "Stop"})
        s = {"sc": sc, "cfg": model_cfg_to_harness(r["cfg"], extra_cfg), "t0": r.get("t0", 1000), "steps": steps,
             "origin": origin}
        if tag:
            s["tag"] = tag
        out.append(s)
        sc += 1
    return out


NAMINGS = ["Num", "NumD", "Ts", "TsD", "TsC", "TsCD"]


def rand_cfg(rng, namings=NAMINGS, criteria=("size", "age", "both"), modes=("direct", "buf", "bufflush"),
             clean=False, parts=False):
    c = {"naming": rng.choice(namings), "rot": True}
    crit = rng.choice(criteria)
    if crit in ("size", "both"):
        c["size"] = rng.choice([0, 1, 10, 20, 64, 500, 4096])
    if crit in ("age", "both"):
        c["age"] = rng.choice(["s", "m", "h", "d"])
    if c["naming"] in ("TsC", "TsCD"):
        c["fmt"] = rng.choice(["r%Y-%m-%d_%H-%M-%S", "r%Y-%m-%d_%H-%M", "r%Y%m%d-%H%M%S"])
        if c["naming"] == "TsC":
            c["cur"] = rng.choice(["rCURRENT", "rNOW", "active"])
    mode = rng.choice(modes)
    c["mode"] = mode
    if mode in ("buf", "bufflush"):
        c["cap"] = rng.choice([1, 8, 16, 64, 256, 8192])
        if mode == "bufflush":
            c["flush_ms"] = rng.choice([1, 5, 50])
    c["crlf"] = rng.random() < 0.3
    if parts:
        c["basename"] = rng.choice(["app", "", "my.prog", "a_b", "x", "log_reader", "r_r", "app_r00001"])
        if rng.random() < 0.4:
            c["discr"] = rng.choice(["d1", "foo_bar", "7", "run7", "r2030-01-01_00-00-00", "rCURRENT"])
        c["suffix"] = rng.choice(["log", "txt", "-", "trc", "log.1"])
        if c["basename"] == "" and "discr" not in c and rng.random() < 0.5:
            c["discr"] = "only"
    if clean:
        kind = rng.choice(["k", "m", "km"])
        if "k" in kind:
            c["k"] = rng.choice([0, 1, 2, 3, 5])
        if "m" in kind:
            c["m"] = rng.choice([0, 1, 2, 4])
    return c


def rand_lens(rng, c, n):
    """record lengths around the size limit and the buffer capacity"""
    le = 2 if c.get("crlf") else 1
    pivots = {le, le + 1, 9 + le, 30}
    for key in ("size", "cap"):
        if key in c and c[key] < 100000:
            v = c[key]
            pivots |= {max(le, v - 1), max(le, v), v + 1, 3 * v + 1}
    pivots = sorted(p for p in pivots if p >= le)
    out = []
    for _ in range(n):
        r = rng.random()
        if r < 0.7:
            out.append(rng.choice(pivots))
        elif r < 0.97:
            out.append(rng.randint(le, 120))
        else:
            out.append(rng.choice([8192, 8193, 65536, 20000]))
    return out


def rand_history(rng, c, nrec, p_trigger=0.08, p_flush=0.1, p_adv=0.15, big_adv=True):
    steps = [{"op": "Start", "append": c.get("append", False)}]
    for ln in rand_lens(rng, c, nrec):
        r = rng.random()
        if r < p_trigger and c.get("rot", True):
            steps.append({"op": "Trigger"})
        elif r < p_trigger + p_flush:
            steps.append({"op": "Flush"})
        elif r < p_trigger + p_flush + p_adv:
            dts = [1, 1, 1, 2, 59, 60, 3600, 86400] if big_adv else [1, 1, 2]
            steps.append({"op": "Adv", "dt": rng.choice(dts)})
        steps.append({"op": "Log", "len": ln})
    steps.append({"op": "Stop"})
    return steps


def boundary_t0(rng):
    """civil seconds (from 2030-01-01) shortly before interesting boundaries"""
    day = 86400
    return rng.choice([
        1000,
        31 * day - 2,            # Jan 31 -> Feb 1, 2030
        59 * day - 1,            # Feb 28 -> Mar 1, 2030 (not a leap year)
        365 * day - 2,           # Dec 31, 2030 -> Jan 1, 2031
        (365 * 2 + 31 + 28) * day - 1,  # Feb 28, 2032 -> Feb 29 (leap)
        100 * day + 3599,        # hour boundary
        100 * day + 59,          # minute boundary
        200 * day + 12 * 3600,
    ])
