SPECIFICATION Spec
CONSTANTS
  InitSpecs <- Specs3
  OpSpecs = {}
  OpTexts = {}
  MaxOps = 0
  Writers <- NoWriter
  Targets <- PlainTargets
  Msgs <- Msgs2
  ProgSets <- NoProgs
  GateUnderLock = TRUE
  Fixes <- AllFixes
  GenHist = FALSE
CHECK_DEADLOCK FALSE
