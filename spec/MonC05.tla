------------------------------- MODULE MonC05 -------------------------------
(* C05: after each of the five reconfiguration calls filtering (C02) follows  *)
(* exactly the specification that is then active; pop re-activates the        *)
(* specification that was active before the matching push; a rejected string  *)
(* changes neither the active specification nor the stack.                    *)
(*                                                                            *)
(* Observation of an event: p = [en (enabled() grid), dl (records that        *)
(* reached the output per message x target x level), gate]. "Filtering        *)
(* follows specification S" is stated on observations only: the logger        *)
(* behaves like a logger freshly built with S, whose observation the harness  *)
(* records as the event's `ref` (taken before the scenario's logger exists).  *)
(* What a specification must decide is C02's statement and judged there; a    *)
(* defect of the matcher therefore alarms C02, not C05.                       *)
(*                                                                            *)
(* The monitor keeps what the PROPERTY says is active (`act`) and saved       *)
(* (`stk`) - as observations - derived from the event arguments and results.  *)
(* After the first divergence of a scenario its remaining events are not      *)
(* judged (the stack of the code is no longer known).                         *)
EXTENDS MonSpecBase

VARIABLES act, stk, lost
mvars == <<l, c, act, stk, lost>>

Ops == {"Build", "Set", "Push", "ParseNew", "ParsePush", "Pop"}
Obs(p) == [en |-> p.en, dl |-> p.dl, gate |-> p.gate]
None == [en |-> <<>>, dl |-> <<>>, gate |-> -1]
Top(s) == s[Len(s)]
Front1(s) == SubSeq(s, 1, Len(s) - 1)
SameFiltering(p, x) == p.en = x.en /\ p.dl = x.dl
\* the observation also is what SpecDefs defines for the specification named by the event (binding evidence)
AsDefined(p, S) == UniqueNames(S) /\ p.en = Grid(S, ModsOfT(c.targets)) /\ p.dl = Deliveries(S, ModsOfT(c.targets), c.msgs)

\* [predicate to check, expected observation and saved observations after the call, judge this call]
Outcome(e) ==
    CASE e.ev = "Build" /\ e.ret = "ok" -> [pred |-> "BuildTakesEffect", act |-> Obs(e.ref), stk |-> <<>>, judge |-> e.ref.full]
      [] e.ev = "Set"   /\ e.ret = "ok" -> [pred |-> "SetTakesEffect", act |-> Obs(e.ref), stk |-> stk, judge |-> e.ref.full]
      [] e.ev = "Push"  /\ e.ret = "ok" -> [pred |-> "PushTakesEffect", act |-> Obs(e.ref), stk |-> Append(stk, act), judge |-> e.ref.full]
      [] e.ev = "ParseNew" /\ e.ret = "ok" ->
            [pred |-> "ParseNewTakesEffect", act |-> Obs(e.ref), stk |-> stk, judge |-> e.ref.full]
      [] e.ev = "ParsePush" /\ e.ret = "ok" ->
            [pred |-> "ParsePushTakesEffect", act |-> Obs(e.ref), stk |-> Append(stk, act), judge |-> e.ref.full]
      [] e.ev \in {"ParseNew", "ParsePush"} /\ e.ret = "err" ->
            [pred |-> "FailedParseChangesNothing", act |-> act, stk |-> stk, judge |-> TRUE]
      [] e.ev = "Pop" /\ e.ret = "ok" ->
            IF stk # <<>> THEN [pred |-> "PopRestores", act |-> Top(stk), stk |-> Front1(stk), judge |-> TRUE]
            ELSE [pred |-> "PopOnEmptyStackChangesNothing", act |-> act, stk |-> stk, judge |-> TRUE]
      [] OTHER -> [pred |-> "-", act |-> act, stk |-> stk, judge |-> FALSE]

Step ==
    LET e == E IN
    IF e.ev = "Begin"
    THEN act' = None /\ stk' = <<>> /\ lost' = FALSE
    ELSE IF e.ev \notin Ops THEN UNCHANGED <<act, stk, lost>>
    ELSE IF Panicked(e) THEN Chk(e, "NoPanic", FALSE) /\ lost' = TRUE /\ UNCHANGED <<act, stk>>
    ELSE IF lost \/ ~e.p.full THEN Cnt(9, TRUE) /\ UNCHANGED <<act, stk, lost>>
    ELSE
    LET o    == Outcome(e)
        x    == o.act
        fine == o.judge /\ SameFiltering(e.p, x)
    IN
    /\ act' = o.act /\ stk' = o.stk
    /\ IF ~o.judge
       THEN lost' = TRUE /\ Cnt(10, TRUE)
       ELSE /\ lost' = ~fine
            /\ Chk(e, o.pred, fine)
            \* the gate admits what a logger freshly built with the then active specification admits
            \* (that this is enough for every record the specification enables is C02's statement)
            /\ (fine => Chk(e, "GateAdmitsActive", e.p.gate >= x.gate))
            /\ Cnt(1, TRUE)
            /\ Cnt(2, o.pred = "PopRestores") /\ Cnt(3, o.pred = "PopOnEmptyStackChangesNothing")
            /\ Cnt(4, o.pred = "FailedParseChangesNothing")
            /\ Cnt(5, o.pred = "FailedParseChangesNothing" /\ e.ev = "ParsePush" /\ stk # <<>>)
            /\ Cnt(6, e.ev \in {"ParseNew", "ParsePush"} /\ e.ret = "ok")
            /\ Cnt(7, e.ev \in {"Push", "ParsePush"} /\ Len(o.stk) >= 2)        \* nested push
            /\ Cnt(8, o.pred = "PopRestores" /\ Top(stk) # act)                  \* the pop has a visible effect
            /\ Cnt(11, o.pred = "PopRestores" /\ \E i \in 1..(l - 1) : Rec[i].sc = e.sc /\ Rec[i].ev = "ParsePush" /\ Rec[i].ret = "err")
            /\ Cnt(12, e.ev \in {"Build", "Set", "Push"} /\ AsDefined(e.p, e.spec))
            /\ Cnt(13, e.ev \in {"Build", "Set", "Push"})

Init == BaseInit /\ act = None /\ stk = <<>> /\ lost = FALSE
Next == BaseStep /\ Step /\ Finish
Spec == Init /\ [][Next]_mvars
=============================================================================
