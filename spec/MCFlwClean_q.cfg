SPECIFICATION Spec
CONSTANTS
  NRecs = 8
  PerFile = 2
  Fixes <- RepoFixes
INVARIANT NoRecordLost
INVARIANT NoDuplicate
INVARIANT WriterLinked
CHECK_DEADLOCK FALSE
