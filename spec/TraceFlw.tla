------------------------------ MODULE TraceFlw ------------------------------
(***************************************************************************)
(* Conform mode: is a trace recorded from the real code a behaviour of     *)
(* Flw.tla?  Each trace event is explained by the corresponding action of   *)
(* the specification with the logged arguments bound, and after every       *)
(* observing event the projected state of the specification (which record   *)
(* is in which file, under which structural name, compressed or not) must   *)
(* EQUAL the observation. Flw is deterministic given the arguments, so the  *)
(* search is linear. A Begin event re-initialises the state, so that many   *)
(* scenarios share one TLC run. Acceptance = the whole trace is consumed    *)
(* (CONSUMED line); otherwise the driver reports the first unexplained      *)
(* event as conformance drift and re-runs behind that scenario.             *)
(***************************************************************************)
EXTENDS Flw, Json, IOUtils

Rec == ndJsonDeserialize(IOEnv.TRACE)
VARIABLES l,    \* index of the next trace line
          on    \* the current scenario lies in the domain of this specification (Begin.conf)
tvars == <<vars, l, on>>
E == Rec[l]
Ok(e) == e.ret = "ok"

Max0(x) == IF x < 0 THEN 0 ELSE x
GranOf(fmt) == IF fmt = "r%Y-%m-%d_%H-%M-%S" \/ fmt = "r%Y%m%d-%H%M%S" THEN 1
               ELSE IF fmt = "r%Y-%m-%d_%H-%M" THEN 60
               ELSE IF fmt = "r%Y-%m-%d_%H" THEN 3600 ELSE 86400
ModelNaming(n) == IF n = "TsC" THEN "Ts" ELSE IF n = "TsCD" THEN "TsD" ELSE n
ModelCfg(n) == [naming |-> ModelNaming(n.naming), rot |-> n.rot, gran |-> GranOf(n.fmt), clean |-> n.clean,
                k |-> Max0(n.k), m |-> Max0(n.m), age |-> IF n.age = "" THEN "-" ELSE n.age, size |-> n.size,
                cap |-> IF n.mode \in {"buf"} THEN n.cap ELSE 0, append |-> n.append]

\* projection of (d, f, lens) in the shape of the observation; records too short to carry an id are anonymous
Anon(len) == len < 9
Proj(d, f, lens) == { <<n.k, n.i, n.r, n.z,
                        [j \in 1..Len(f[d[n]].ids) |->
                            LET id == f[d[n]].ids[j] IN <<IF Anon(lens[id]) THEN 0 ELSE id, lens[id]>>]>> : n \in DOMAIN d }
Observed(F) == { <<F[j].k, F[j].i, F[j].r, F[j].z, F[j].recs>> : j \in 1..Len(F) }
RecsOfIno(f, ino, lens) == [j \in 1..Len(f[ino].ids) |->
                               LET id == f[ino].ids[j] IN <<IF Anon(lens[id]) THEN 0 ELSE id, lens[id]>>]
\* the current family; the files the environment moved away (C18), in order; the families before each reset_flw
Match == \/ ~E.o
         \/ /\ Proj(dir', files', logged') = Observed(E.obs.files)
            /\ Len(moved') = Len(E.obs.moved)
            /\ \A j \in 1..Len(moved') : RecsOfIno(files', moved'[j], logged') = E.obs.moved[j].recs
            /\ Len(olddirs') = Len(E.obs.prev)
            /\ \A j \in 1..Len(olddirs') : Proj(olddirs'[j], files', logged') = Observed(E.obs.prev[j])

BeginReset == /\ dir' = <<>> /\ files' = <<>> /\ w' = NoWriter /\ clk' = E.t /\ cfg' = ModelCfg(E.norm)
         /\ logged' = <<>> /\ wt' = <<>> /\ runs' = 0 /\ trigs' = 0 /\ advs' = 0 /\ gone' = {} /\ okgone' = {}
         /\ forced' = {} /\ extgone' = {} /\ exts' = 0 /\ moved' = <<>> /\ olddirs' = <<>> /\ sws' = 0
         /\ needReopen' = FALSE /\ hist' = <<>>

Stutter == UNCHANGED vars
NameOf(f) == [k |-> f.k, i |-> f.i, r |-> f.r, z |-> f.z]

TraceInit == /\ l = 1 /\ on = FALSE /\ dir = <<>> /\ files = <<>> /\ w = NoWriter /\ clk = 0
             /\ cfg = [naming |-> "Num", rot |-> FALSE, gran |-> 1, clean |-> FALSE, k |-> 0, m |-> 0, age |-> "-",
                       size |-> -1, cap |-> 0, append |-> FALSE]
             /\ logged = <<>> /\ wt = <<>> /\ runs = 0 /\ trigs = 0 /\ advs = 0 /\ gone = {} /\ okgone = {}
             /\ forced = {} /\ extgone = {} /\ exts = 0 /\ moved = <<>> /\ olddirs = <<>> /\ sws = 0
             /\ needReopen = FALSE /\ hist = <<>>

TraceNext ==
    /\ l <= Len(Rec) /\ l' = l + 1
    /\ LET e == E IN
       /\ on' = IF e.ev = "Begin" THEN e.conf ELSE on
       /\ IF e.ev = "Begin" THEN BeginReset
          ELSE IF ~on THEN Stutter
          ELSE CASE e.ev = "Start" /\ Ok(e) -> Start(e.append) /\ Match
                 [] e.ev = "Log" /\ Ok(e) -> Write(e.len) /\ Match
                 [] e.ev = "Trigger" /\ Ok(e) -> (Trigger \/ TriggerNoop) /\ Match
                 [] e.ev = "Flush" /\ Ok(e) -> (Flush \/ (~ENABLED Flush /\ Stutter)) /\ Match
                 [] e.ev = "Stop" /\ Ok(e) -> Stop /\ Match
                 [] e.ev = "Adv" -> Advance(e.dt) /\ Match
                 [] e.ev = "ExtRemove" /\ Ok(e) -> \/ (\E n \in DOMAIN dir : ExtRemove(n) /\ Match)
                                                   \/ (ExtRemoveCur /\ Match)
                 [] e.ev = "ExtRename" /\ Ok(e) -> ExtRenameCur /\ Match
                 [] e.ev = "Reopen" /\ Ok(e) -> Reopen /\ Match
                 [] e.ev = "Reset" /\ Ok(e) -> Reset(ModelCfg(e.norm)) /\ Match
                 [] OTHER -> Stutter /\ Match
    /\ IF l = Len(Rec) THEN PrintT(<<"CONSUMED", l>>) ELSE TRUE

TraceSpec == TraceInit /\ [][TraceNext]_tvars
=============================================================================
