SPECIFICATION Spec
CONSTANTS
  NRot = 3
  K = 0
  M = 2
  Variant = "as_coded"
  Direct = TRUE
  GenHist = TRUE
INVARIANT Emit
CHECK_DEADLOCK FALSE
