------------------------------- MODULE Names -------------------------------
(***************************************************************************)
(* C16: the documented file name pattern                                    *)
(*    [basename][_discriminant][_starttime][_infix][.suffix]   (+ .gz)      *)
(* with absent parts and their separators omitted, as string construction.  *)
(* P = [basename, has_discr, discr, use_ts, has_suffix, suffix]             *)
(***************************************************************************)
EXTENDS Naturals, Integers, Sequences, TLC

Join(a, b) == IF a = "" THEN b ELSE IF b = "" THEN a ELSE a \o "_" \o b
Fixed(P, ststr) == Join(Join(P.basename, IF P.has_discr THEN P.discr ELSE ""), IF P.use_ts THEN ststr ELSE "")
Pad5(i) == CASE i < 10 -> "0000" \o ToString(i)
             [] i < 100 -> "000" \o ToString(i)
             [] i < 1000 -> "00" \o ToString(i)
             [] i < 10000 -> "0" \o ToString(i)
             [] OTHER -> ToString(i)
Pad4(i) == CASE i < 10 -> "000" \o ToString(i)
             [] i < 100 -> "00" \o ToString(i)
             [] i < 1000 -> "0" \o ToString(i)
             [] OTHER -> ToString(i)
\* infix of a file: current token, number, or rendered timestamp (+ restart counter)
Infix(cur, k, i, istr, r) ==
    CASE k = "cur"   -> cur
      [] k = "plain" -> ""
      [] k = "num"   -> "r" \o Pad5(i)
      [] k = "ts"    -> istr \o (IF r >= 0 THEN ".restart-" \o Pad4(r) ELSE "")
NameStr(P, cur, ststr, k, i, istr, r, z) ==
    Join(Fixed(P, ststr), Infix(cur, k, i, istr, r))
      \o (IF P.has_suffix THEN "." \o P.suffix ELSE "")
      \o (IF z THEN ".gz" ELSE "")
=============================================================================
