------------------------------- MODULE MonC13 -------------------------------
(***************************************************************************)
(* C13: brace targets, writer level ceilings and duplication route each     *)
(* record correctly.                                                        *)
(* Trace monitor for `flv route` traces (scenario kind "route"). One state  *)
(* per trace line. For every Log event the expected deliveries are computed *)
(* HERE, by Deliver of RouteProps.tla, from the event's arguments (target   *)
(* tokens, level, module), the registered writers and ceilings of the Begin *)
(* event, and the CURRENT duplication levels and specification (Begin,      *)
(* updated by the AdaptErr / AdaptOut / SetSpec events), and compared with  *)
(* what the sinks were observed to receive. The predicates are the ones the *)
(* model checker verifies on Routing.tla.                                   *)
(* A failed predicate is reported with a "BAD" line; the trace is always    *)
(* consumed to its end.                                                     *)
(***************************************************************************)
EXTENDS Naturals, Integers, Sequences, FiniteSets, TLC, Json, IOUtils, RouteProps

Rec == ndJsonDeserialize(IOEnv.TRACE)

VARIABLES l,      \* index of the next trace line
          c,      \* `norm` of the Begin event of the current scenario
          spec,   \* active specification
          dupe, dupo   \* current duplication levels
mvars == <<l, c, spec, dupe, dupo>>

E == Rec[l]
Ok(e) == e.ret = "ok"
NCounters == 12
Chk(e, name, ok) == IF ok THEN TRUE ELSE PrintT(<<"BAD", e.sc, e.n, name>>)
Cnt(i, cond) == IF cond THEN TLCSet(i, TLCGet(i) + 1) ELSE TRUE
Counters == [i \in 1..NCounters |-> TLCGet(i)]
\* TLC pretty-prints a value wider than 80 columns over several lines, which the line-oriented reader of
\* bin/check would miss; a string with an escaped quote makes the pretty-printer give up and print one line
Finish == IF l = Len(Rec) THEN PrintT(<<"COUNTS", Counters, "\"">>) /\ PrintT(<<"CONSUMED", l>>) ELSE TRUE

NoCfg == [kind |-> "-"]
Init == /\ l = 1 /\ c = NoCfg /\ spec = [dflt |-> 0, m |-> -1] /\ dupe = 0 /\ dupo = 0
        /\ \A i \in 1..NCounters : TLCSet(i, 0)

Step ==
    /\ l <= Len(Rec)
    /\ l' = l + 1
    /\ LET e == E IN
       CASE e.ev = "Begin" ->
              /\ c' = e.norm /\ spec' = e.norm.spec /\ dupe' = e.norm.dupe /\ dupo' = e.norm.dupo
         [] e.ev = "AdaptErr" /\ Ok(e) -> dupe' = e.d /\ UNCHANGED <<c, spec, dupo>>
         [] e.ev = "AdaptOut" /\ Ok(e) -> dupo' = e.d /\ UNCHANGED <<c, spec, dupe>>
         [] e.ev = "SetSpec" /\ Ok(e)  -> spec' = [dflt |-> e.dflt, m |-> e.m] /\ UNCHANGED <<c, dupe, dupo>>
         [] OTHER -> UNCHANGED <<c, spec, dupe, dupo>>

HasDup(s) == \E i, j \in 1..Len(s) : i # j /\ s[i] = s[j]

Check ==
    LET e == E IN
    IF e.ev = "Crash" THEN Chk(e, "Returned", FALSE)
    ELSE IF e.ev = "Begin"
         THEN /\ Chk(e, "LoggerBuilt", Ok(e))
              \* "handed to each named writer regardless of the log specification" holds for records that come through the
              \* log macros only if the global max level of the log facade, as set at start-up, admits what the writers
              \* accept (and what the specification enables)
              /\ IF Ok(e)
                 THEN Chk(e, "StartGateCoversWritersAndSpec",
                          /\ \A j \in 1..Len(e.norm.writers) : e.norm.gate >= e.norm.writers[j].ceil
                          /\ e.norm.gate >= e.norm.spec.dflt /\ e.norm.gate >= e.norm.spec.m)
                 ELSE TRUE
    ELSE IF e.ev # "Log" \/ c.kind # "route" THEN TRUE
    ELSE
    LET W  == c.writers
        tg == [brace |-> e.brace, toks |-> e.toks, plain |-> e.plain]
        \* the observed outcome, in the shape RouteProps expects
        o  == [got |-> e.got, file |-> e.got.file, pw |-> e.got.pw, err |-> e.got.err, out |-> e.got.out,
               errs |-> e.errs]
        \* THE PROPERTY, evaluated for this call in the current settings
        D  == Deliver(W, tg, e.lvl, e.mod, spec, dupe, dupo)
    IN
    /\ Chk(e, "Returned", Ok(e))
    /\ IF ~Ok(e) THEN TRUE ELSE
       /\ Chk(e, "NamedExactlyOnce", NamedExactlyOnce(W, tg, e.lvl, o))
       /\ Chk(e, "NotNamedNothing", NotNamedNothing(W, tg, o))
       /\ Chk(e, "CeilingRespected", CeilingRespected(W, e.lvl, o))
       /\ Chk(e, "DefaultIff", DefaultIff(c.primary, D, o))
       /\ Chk(e, "DupErrIff", DupErrIff(c.primary, D, o))
       /\ Chk(e, "DupOutIff", DupOutIff(c.primary, D, o))
       /\ Chk(e, "UnknownReported", UnknownReported(D, o))
       /\ Chk(e, "NoSpuriousReport", NoSpuriousReport(W, o))
       \* nothing but this record's own line reached any sink during the call
       /\ Chk(e, "NoStrayOutput", e.stray = 0)
       /\ Cnt(1, TRUE)
       /\ Cnt(2, \E n \in Names(W) : Handed(tg, n) = 1)
       /\ Cnt(3, \E n \in Names(W) : Handed(tg, n) = 1 /\ ~Passes(WriterOf(W, n), e.lvl))
       /\ Cnt(4, D.def = 1)
       /\ Cnt(5, D.def = 0 /\ (~tg.brace \/ DEFAULT \in ToSet(tg.toks)))
       /\ Cnt(6, c.primary \notin StdPrimaries /\ D.err = 1)
       /\ Cnt(7, c.primary \notin StdPrimaries /\ D.out = 1)
       /\ Cnt(8, D.unknown # {})
       /\ Cnt(9, tg.brace /\ HasDup(tg.toks))
       /\ Cnt(10, dupe # c.dupe \/ dupo # c.dupo)
       /\ Cnt(11, spec # c.spec)
       /\ Cnt(12, ~tg.brace)

Next == Step /\ Check /\ Finish
Spec == Init /\ [][Next]_mvars
=============================================================================
