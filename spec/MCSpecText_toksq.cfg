SPECIFICATION Spec
CONSTANTS
  Mode = "toks"
  Alphabet <- A_q
  MaxLen = 5
  NameSeq <- N3
  GenHist = FALSE
INVARIANT ErrIffMalformed
INVARIANT SalvagedExact
INVARIANT LaxDiffersOnlyOnEmptyName
CHECK_DEADLOCK FALSE
