----------------------------- MODULE MCSpecText -----------------------------
(* Bounded enumeration for SpecText: every token string up to MaxLen over an  *)
(* alphabet, and every specification of a small universe. One state each;     *)
(* the invariants are the C17 statements on the model, Emit prints each case  *)
(* as a REPLAY scenario for the real code.                                    *)
EXTENDS SpecText, TLC, Json

CONSTANTS Mode,      \* "toks" | "specs"
          Alphabet,  \* set of tokens
          MaxLen,
          NameSeq,   \* sequence of module names (letter sequences) of the spec universe
          GenHist

VARIABLE x
vars == <<x>>

Strings(A, n) == UNION {[1..k -> A] : k \in 0..n}
\* all specifications over NameSeq: each name absent (-1) or one of six level filters, default likewise
SpecOf(g, d) ==
    LET idx == SelectSeq([i \in 1..Len(NameSeq) |-> i], LAMBDA i : g[i] >= 0) IN
    [f |-> [j \in DOMAIN idx |-> [n |-> NameSeq[idx[j]], l |-> g[idx[j]]]], d |-> d, hasre |-> FALSE, re |-> <<>>]
Specs == {SpecOf(g, d) : g \in [1..Len(NameSeq) -> -1..5], d \in -1..5}

A_q == {W("a"), L("info", 3), L("Warn", 2), EqT, CommaT, SlashT, WsT, W("(")}
A_t == A_q \cup {L("OFF", 0), W("1"), W("::")}
A_7 == {W("a"), L("info", 3), EqT, CommaT, SlashT, WsT}
N3  == << <<"a">>, <<"a", "b">>, <<"info">> >>
N5  == << <<"a">>, <<"a", "b">>, <<"a", "::", "b">>, <<"b">>, <<"info">> >>
Tgts == << <<"a">>, <<"a", "b">>, <<"a", "::", "b">>, <<"a", "::", "b", "::", "c">>, <<"a", "b", "c">>,
           <<"b">>, <<"b", "a">>, <<"info">>, <<"info", "::", "a">>, <<"c">>, <<>> >>

Init == IF Mode = "toks" THEN x \in Strings(Alphabet, MaxLen) ELSE x \in Specs
Next == UNCHANGED x
Spec == Init /\ [][Next]_vars

(***************************************************************************)
(* C17 on the model                                                        *)
(***************************************************************************)
\* an error exactly when some part of the input is malformed
ErrIffMalformed ==
    Mode = "toks" => (Parse(x, ModelReOk(x), TRUE).ok <=> WellFormed(x, ModelReOk(x)))
\* the carried specification holds exactly the well-formed parts (none if the "/" structure is broken)
SalvagedExact ==
    Mode = "toks" => Parse(x, ModelReOk(x), TRUE).es = WfEntries(x)
\* the lax (as coded) reading differs from the strict one only by parts with an empty name
LaxDiffersOnlyOnEmptyName ==
    Mode = "toks" => (HasEmptyNamePart(x) \/ Parse(x, ModelReOk(x), FALSE) = Parse(x, ModelReOk(x), TRUE))
\* rendering and parsing back gives a specification that decides identically
RoundTrip ==
    Mode = "specs" =>
        LET pr == Parse(Render(x), TRUE, TRUE) IN
        /\ pr.ok /\ Regular(pr)
        /\ SameSpec(ToSpec(pr), x)
        /\ DecideAlike(ToSpec(pr), x, Tgts)
RoundTripRe ==
    Mode = "specs" =>
        LET S  == [x EXCEPT !.hasre = TRUE, !.re = <<"a", "b">>]
            pr == Parse(RenderRe(S), TRUE, TRUE) IN
        pr.ok /\ SameSpec(ToSpec(pr), S)

Emit == GenHist =>
    PrintT(<<"REPLAY", ToJson(IF Mode = "toks" THEN [toks |-> x]
                              ELSE [spec |-> x, rtoks |-> Render(x)])>>)
=============================================================================
