SPECIFICATION Spec
CONSTANTS
  DirCls <- DirClsAll
  Namings <- NamingsAll
  FmtCls <- FmtClsAll
  OutCls <- OutClsFile
  OpCls <- OpClsAll
  MaxOps = 2
  GenHist = TRUE
INVARIANT Emit
VIEW View
CHECK_DEADLOCK FALSE
