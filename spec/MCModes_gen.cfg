SPECIFICATION Spec
CONSTANTS
  Msgs <- MsgsQ
  Cap = 4
  N = 3
  MaxOps = 3
  WithTrigger = FALSE
  Fixes <- RepoFixes
  GenHist = TRUE
INVARIANT Emit
VIEW GenView
CHECK_DEADLOCK FALSE
