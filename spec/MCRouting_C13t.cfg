SPECIFICATION Spec
CONSTANTS
  Cfgs <- Cfgs_C13t
  Targets <- Targets3
  Lvls <- Levels5
  Mods <- Mods3
  Shapes <- Shapes_Id
  Specs <- Specs5
  Dups <- Dups_t
  MaxRecs = 1
  MaxAdapt = 2
  MaxSet = 1
  Counting = FALSE
  Admit <- AdmitAll
  Fixes <- AllFixes
  GenHist = FALSE
INVARIANT C13_NamedExactlyOnce
INVARIANT C13_NotNamedNothing
INVARIANT C13_CeilingRespected
INVARIANT C13_DefaultIff
INVARIANT C13_DupIff
INVARIANT C13_Unknown
INVARIANT C20_FanOut
CHECK_DEADLOCK FALSE
