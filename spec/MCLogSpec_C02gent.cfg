SPECIFICATION Spec
CONSTANTS
  InitSpecs <- SpecsU
  SpecNames <- N5
  SpecREs <- RE2
  OpSpecs = {}
  OpTexts = {}
  MaxOps = 0
  Writers <- NoWriter
  Targets <- PlainTargets
  Msgs <- Msgs2
  ProgSets <- NoProgs
  GateUnderLock = TRUE
  Fixes <- RepoFixes
  GenHist = TRUE
INVARIANT EmitSpec
CHECK_DEADLOCK FALSE
