------------------------------ MODULE MCRouting ------------------------------
(* Bounded instances of Routing for TLC. One module, several .cfg files.     *)
EXTENDS Routing, Json, IOUtils

AllFixes  == {"syslog_ceiling", "dup_names"}
RepoFixes == {"syslog_ceiling", "dup_names"}  \* deviations repaired in /repo (see known_findings.json)
\* as-is pass: one run per open deviation d with Fixes = All \ {d}; d comes from the environment
CexFixes  == AllFixes \ {IOEnv.DEV}

(***************************************************************************)
(* value catalogues                                                        *)
(***************************************************************************)
Sp(d, m)   == [dflt |-> d, m |-> m]
SpecOff    == Sp(0, -1)      \* "off"
SpecError  == Sp(1, -1)      \* "error"
SpecInfo   == Sp(3, -1)      \* "info"
SpecMTrace == Sp(0, 5)       \* "m=trace"
SpecWarnMD == Sp(2, 4)       \* "warn, m=debug"
SpecTrace  == Sp(5, -1)      \* "trace"
Specs4     == {SpecOff, SpecError, SpecInfo, SpecMTrace}
Specs5     == Specs4 \cup {SpecWarnMD}

Wr(ca, cb, cs) == << [name |-> "A", kind |-> "rec",    ceil |-> ca],
                     [name |-> "B", kind |-> "flw",    ceil |-> cb],
                     [name |-> "S", kind |-> "syslog", ceil |-> cs] >>

Toks     == {"A", "B", "S", DEFAULT, "X"}
Lists(n) == UNION {[1..k -> Toks] : k \in 0..n}
Brace(l) == [brace |-> TRUE, toks |-> l, plain |-> ""]
Plain(p) == [brace |-> FALSE, toks |-> <<>>, plain |-> p]
Plains   == {Plain(p) : p \in {"m", "m::sub", "o"}}
Targets3 == {Brace(l) : l \in Lists(3)} \cup Plains       \* 156 lists + 3 plain targets
Targets2 == {Brace(l) : l \in Lists(2)} \cup Plains       \*  31 lists + 3 plain targets
TargetsDup == {Plain("m"), Brace(<<DEFAULT>>), Brace(<<"A", DEFAULT>>), Brace(<<"A">>), Brace(<<DEFAULT, "S", "B">>)}
Mods3    == {"m", "o", ""}
ModsM    == {"m"}
SpecsDup == {SpecTrace, SpecError}
NoSpecs  == {}
NoDups   == {}

IdShape  == [cls |-> "id", hf |-> FALSE, hl |-> FALSE, kv |-> 0, rec |-> FALSE]
RecShape == [IdShape EXCEPT !.rec = TRUE]
Shapes_Id == {IdShape}
Levels5   == 1..5
Dups7     == 0..6

\* pass-through fields (only the harness reads them)
Pass == [kind |-> "route", crlf |-> FALSE, mode |-> "direct", thread |-> "",
         ffile |-> "id", ferr |-> "id", fout |-> "id", fpw |-> "id", fA |-> "id", fB |-> "id", tick |-> 0]
Cfg(w, prim, de, do, sp) == [writers |-> w, primary |-> prim, dupe0 |-> de, dupo0 |-> do, spec0 |-> sp] @@ Pass

AdmitAll(tg, lvl, mod, sh) == TRUE

(***************************************************************************)
(* C13: model checking (ideal design: every deviation repaired)             *)
(***************************************************************************)
\* quick: lists of length <= 2, every Duplicate pair, five specifications
Cfgs_C13q == { Cfg(Wr(5, 2, 3), "file", 0, 0, SpecInfo), Cfg(Wr(3, 0, 5), "both", 2, 6, SpecInfo),
               Cfg(Wr(0, 5, 0), "pw", 1, 3, SpecOff), Cfg(Wr(5, 1, 4), "stdout", 0, 0, SpecInfo) }
\* thorough: lists of length <= 3
Cfgs_C13t == { Cfg(Wr(ca, cb, cs), prim, 0, 0, SpecInfo) :
                 ca \in {5}, cb \in {0, 2, 5}, cs \in {0, 3, 5}, prim \in {"file", "both"} }
             \cup { Cfg(Wr(1, 4, 1), "pw", 0, 0, SpecInfo), Cfg(Wr(0, 1, 4), "none", 0, 0, SpecInfo),
                    Cfg(Wr(5, 2, 3), "stdout", 0, 0, SpecInfo), Cfg(Wr(5, 2, 3), "stderr", 3, 6, SpecInfo) }
Dups_t    == {0, 1, 3, 6}

(***************************************************************************)
(* C13: scenario generation (as coded: Fixes = RepoFixes)                   *)
(***************************************************************************)
\* every list of length <= 3 x level x module x specification; three writer/ceiling/primary settings
Cfgs_C13gen ==
    { Cfg(Wr(5, 2, 3), "file", 2, 3, sp) : sp \in Specs4 }
    \cup { Cfg(Wr(5, 0, 5), "pw", 6, 0, sp) : sp \in Specs4 }
    \cup { Cfg(Wr(5, 5, 1), "both", 1, 5, sp) : sp \in Specs4 }
    \cup { Cfg(Wr(5, 2, 3), "stdout", 0, 0, sp) : sp \in Specs4 }
    \cup { Cfg(Wr(5, 2, 3), "stderr", 6, 6, sp) : sp \in {SpecInfo, SpecMTrace} }
Cfgs_C13genq ==
    { Cfg(Wr(5, 2, 3), "file", 2, 3, sp) : sp \in Specs4 }
    \cup { Cfg(Wr(5, 5, 1), "both", 1, 5, sp) : sp \in {SpecInfo, SpecMTrace} }
    \cup { Cfg(Wr(5, 2, 3), "stdout", 0, 0, SpecMTrace), Cfg(Wr(5, 2, 3), "stderr", 6, 6, SpecInfo) }
Cfgs_C13gent ==
    { Cfg(Wr(5, cb, cs), prim, 2, 3, sp) :
        cb \in {0, 1, 2, 3, 4, 5}, cs \in {0, 1, 2, 3, 4, 5}, prim \in {"file"}, sp \in {SpecInfo} }
    \cup Cfgs_C13gen
\* duplication: all 7 x 7 settings reached through the builder and through adapt_duplication_to_* steps,
\* with records before and after the change
Cfgs_C13dup == { Cfg(Wr(5, 2, 3), prim, de, do, SpecTrace) :
                   prim \in {"file"}, de \in {0, 3}, do \in {0, 6} }
               \cup { Cfg(Wr(5, 2, 3), "pw", 4, 1, SpecWarnMD) }
\* histories Log, Adapt / SetSpec, Log on one logger
Cfgs_C13hist == { Cfg(Wr(5, 2, 3), "file", 3, 0, SpecTrace), Cfg(Wr(5, 2, 3), "both", 0, 6, SpecError) }
Dups_hist    == {0, 2, 6}
Cfgs_C13dupb == { Cfg(Wr(5, 2, 3), "both", de, do, SpecTrace) : de \in 0..6, do \in 0..6 }

(***************************************************************************)
(* C20: fan-out                                                             *)
(***************************************************************************)
Fmts == <<"default", "detailed", "opt", "thread", "cdefault", "cdetailed", "copt", "cthread", "json">>
FmtAt(r, j) == Fmts[((r + j) % 9) + 1]
Modes == <<"direct", "buf", "async", "capture">>
\* rotation r puts a different provided format function on each of the six formatting outputs
FrameCfg(r, crlf, mode, thread, tick) ==
    [writers |-> Wr(5, 5, 5), primary |-> "both", dupe0 |-> 6, dupo0 |-> 6, spec0 |-> SpecTrace,
     kind |-> "frame", crlf |-> crlf, mode |-> mode, thread |-> thread, tick |-> tick,
     ffile |-> FmtAt(r, 0), ferr |-> FmtAt(r, 1), fout |-> FmtAt(r, 2), fpw |-> FmtAt(r, 3),
     fA |-> FmtAt(r, 4), fB |-> FmtAt(r, 5)]
\* quick: nine rotations, line ending and write mode tied to the rotation
Cfgs_C20q == { FrameCfg(r, (r + k) % 2 = 1, Modes[((r + 2 * k) % 4) + 1],
                        IF r % 2 = 0 THEN "" ELSE "worker-1", 1) : r \in 0..8, k \in 0..1 }
Cfgs_C20t == { FrameCfg(r, crlf, Modes[mi], IF (r + mi) % 2 = 0 THEN "" ELSE "worker-1", 1) :
                 r \in 0..8, crlf \in BOOLEAN, mi \in 1..4 }
Classes == <<"plain", "empty", "multiline", "quotes", "backslashes", "control", "nonascii", "braces", "mixed">>
ClsIdx(c) == CHOOSE i \in 1..Len(Classes) : Classes[i] = c
Shapes_C20 == { [cls |-> Classes[i], hf |-> hf, hl |-> hl, kv |-> kv, rec |-> FALSE] :
                  i \in 1..Len(Classes), hf \in BOOLEAN, hl \in BOOLEAN, kv \in {0, 2} }
              \cup { [cls |-> "plain", hf |-> TRUE, hl |-> TRUE, kv |-> kv, rec |-> TRUE] : kv \in {0, 2} }
TargetsC20 == {Plain("m"), Brace(<<"A", "B", "S", DEFAULT>>)}
ModsC20 == {"m", ""}
PresIdx(mod, sh) == (IF mod = "" THEN 0 ELSE 4) + (IF sh.hf THEN 2 ELSE 0) + (IF sh.hl THEN 1 ELSE 0)
\* quick: message class x presence of (module path, file, line) in full; level, key-values and target
\* tied to them so that each value still meets every format function over the nine rotations
AdmitC20q(tg, lvl, mod, sh) ==
    LET x == ClsIdx(sh.cls) + PresIdx(mod, sh) IN
    IF sh.rec THEN ~tg.brace /\ lvl \in {2, 3}      \* recursive records: plain target (few outputs)
    ELSE /\ lvl = (x % 5) + 1
         /\ (sh.kv = 2) = ((x \div 5) % 2 = 0)
         /\ tg.brace = (x % 3 # 0)
\* thorough: level in full as well
AdmitC20t(tg, lvl, mod, sh) ==
    LET x == ClsIdx(sh.cls) + PresIdx(mod, sh) IN
    IF sh.rec THEN ~tg.brace
    ELSE /\ (sh.kv = 2) = ((x + lvl) % 2 = 0)
         /\ tg.brace = ((x + lvl) % 3 # 0)
\* design-level check of the fan-out: tiny configuration space, recursion included
Cfgs_C20mc == { [FrameCfg(0, FALSE, "direct", "", 1) EXCEPT !.primary = prim, !.dupe0 = de, !.dupo0 = do] :
                  prim \in {"file", "pw", "both", "none"}, de \in {0, 2, 6}, do \in {0, 6} }
Shapes_C20mc == {IdShape, RecShape}
TargetsC20mc == TargetsDup \cup {Brace(<<"A", "A">>), Brace(<<"X", "B">>)}
Dups_C20mc   == {0, 2, 6}

(***************************************************************************)
(* scenario generation: one line per distinct state (history hidden by the  *)
(* VIEW); a violated property of the as-is pass prints its own history      *)
(***************************************************************************)
View == <<cfg, spec, dupe, dupo, nrec, nadapt, nset, last>>
Emit == GenHist => PrintT(<<"REPLAY", ToJson([cfg |-> cfg, steps |-> hist])>>)
CexC13 == C13_All \/ (PrintT(<<"REPLAY", ToJson([cfg |-> cfg, steps |-> hist])>>) /\ FALSE)
=============================================================================
