------------------------------ MODULE FlwCleanQ ------------------------------
(***************************************************************************)
(* C07 for the BACKGROUND cleanup thread: "after each rotation's cleanup    *)
(* has completed ... at the latest when shutdown() returns ... at most the  *)
(* configured numbers of rotated plain files and of compressed files exist  *)
(* and they are exactly the most recent ones", for all interleavings of the *)
(* cleanup steps with further rotations.                                    *)
(*                                                                         *)
(* Logging thread (state.rs mount_next_linewriter_if_necessary, under the   *)
(* state mutex, which the cleanup thread never takes):                      *)
(*   Rotate    the current file becomes the rotated file with the next      *)
(*             index and `Act` is sent (list_and_cleanup.rs:86)             *)
(* Cleanup thread (list_and_cleanup.rs start_cleanup_thread), one step per  *)
(* point at which the thread can be held on the real code:                  *)
(*   CRecv     receiver.recv(): Act -> a run starts; Die -> the thread ends *)
(*   CList     remove_or_compress_too_old_logfiles_impl: the listing, newest *)
(*             first; every decision of the run is taken from the POSITION  *)
(*             in this snapshot (index >= k+m: remove; index >= k: compress) *)
(*   CStep     the next effect of the run: fs:remove | fs:gz_create |        *)
(*             fs:gz_copy | fs:gz_finish | fs:remove_orig                   *)
(* Application thread (CleanupThreadHandle::shutdown, under the state mutex):*)
(*   Shutdown  send Die        Join  join_handle.join()                     *)
(*                                                                         *)
(* A snapshot is stale as soon as another rotation happens: the run then     *)
(* leaves one file too many. That is repaired by the run of the later Act -  *)
(* PROVIDED every Act that was sent is acted upon before the thread ends     *)
(* (std::sync::mpsc is FIFO, Die is sent last, shutdown() joins).            *)
(* Hypothetical variants (sanity runs; each must violate LimitsAtShutdown):  *)
(*   "die_overrides"  the thread drains its channel and acts on the LAST     *)
(*                    message only (a plausible coalescing optimisation)     *)
(*   "no_join"        shutdown() does not wait for the thread                *)
(* and one that must NOT violate anything:                                  *)
(*   "coalesce_acts"  consecutive Acts are coalesced, a Die behind them is   *)
(*                    left in the channel                                    *)
(***************************************************************************)
EXTENDS Naturals, Sequences, FiniteSets, TLC

CONSTANTS NRot,     \* rotations
          K, M,     \* Cleanup::KeepLogAndCompressedFiles(K, M)  (M = 0: KeepLogFiles(K); K = 0: KeepCompressedFiles(M))
          Variant,  \* "as_coded" | "die_overrides" | "no_join" | "coalesce_acts"
          GenHist

VARIABLES plain,   \* indexes of the rotated files that exist uncompressed
          gz,      \* indexes of the compressed files (an unfinished one counts: it has the name)
          nrot,    \* rotations done
          chan,    \* channel of the cleanup thread: Seq of "Act" | "Die"
          cst,     \* cleanup thread: "wait" | "got" (has received Act) | "run" | "dead"
          snap,    \* rest of the snapshot listing of the current run: Seq of [i, z, pos]
          zs,      \* progress inside a compression: 0 (not started) .. 3 (.gz finished, original not yet removed)
          app,     \* "run" | "shutting" | "down"
          hist
vars == <<plain, gz, nrot, chan, cst, snap, zs, app, hist>>
H(e) == IF GenHist THEN Append(hist, e) ELSE hist

Init == /\ plain = {} /\ gz = {} /\ nrot = 0 /\ chan = <<>> /\ cst = "wait" /\ snap = <<>> /\ zs = 0 /\ app = "run"
        /\ hist = <<>>

Rotate == /\ app = "run" /\ nrot < NRot
          /\ plain' = plain \cup {nrot} /\ nrot' = nrot + 1 /\ chan' = Append(chan, "Act")
          /\ hist' = H([op |-> "Rotate"])
          /\ UNCHANGED <<gz, cst, snap, zs, app>>

\* the family, newest first; a file that exists in both forms (unfinished compression) is listed once, as plain:
\* the unfinished .gz is dropped first (list_and_cleanup.rs:128)
Existing == plain \cup gz
RECURSIVE Listing(_, _)
Listing(S, pos) == IF S = {} THEN <<>>
                   ELSE LET i == CHOOSE x \in S : \A y \in S : y <= x IN
                        <<[i |-> i, z |-> (i \notin plain), pos |-> pos]>> \o Listing(S \ {i}, pos + 1)

RECURSIVE DropLeadingActs(_)
DropLeadingActs(s) == IF s # <<>> /\ Head(s) = "Act" THEN DropLeadingActs(Tail(s)) ELSE s

CRecv == /\ cst = "wait" /\ chan # <<>>
         /\ LET m == IF Variant = "die_overrides" THEN chan[Len(chan)] ELSE Head(chan) IN
            /\ chan' = CASE Variant = "die_overrides" -> <<>>
                         [] Variant = "coalesce_acts" /\ m = "Act" -> DropLeadingActs(chan)
                         [] OTHER -> Tail(chan)
            /\ cst' = IF m = "Act" THEN "got" ELSE "dead"
            /\ hist' = H([op |-> "CRecv", m |-> m])
         /\ UNCHANGED <<plain, gz, nrot, snap, zs, app>>

CList == /\ cst = "got"
         /\ LET L == Listing(Existing, 0)
                todo == SelectSeq(L, LAMBDA f : f.pos >= K + M \/ (f.pos >= K /\ ~f.z))
            IN /\ snap' = todo
               /\ cst' = IF todo = <<>> THEN "wait" ELSE "run"
         /\ zs' = 0
         /\ hist' = H([op |-> "CList"])
         /\ UNCHANGED <<plain, gz, nrot, chan, app>>

Advance == /\ snap' = Tail(snap) /\ zs' = 0 /\ cst' = IF Len(snap) = 1 THEN "wait" ELSE "run"

CStep == /\ cst = "run" /\ snap # <<>>
         /\ LET f == Head(snap) IN
            IF f.pos >= K + M
            THEN \* fs:remove
                 /\ plain' = plain \ {f.i} /\ gz' = gz \ {f.i} /\ Advance
            ELSE \* compression: fs:gz_create, fs:gz_copy, fs:gz_finish, fs:remove_orig
                 CASE zs = 0 -> gz' = gz \cup {f.i} /\ zs' = 1 /\ UNCHANGED <<plain, snap, cst>>
                   [] zs \in {1, 2} -> zs' = zs + 1 /\ UNCHANGED <<plain, gz, snap, cst>>
                   [] zs = 3 -> plain' = plain \ {f.i} /\ gz' = gz /\ Advance
         /\ hist' = H([op |-> "CStep"])
         /\ UNCHANGED <<nrot, chan, app>>

Shutdown == /\ app = "run"
            /\ chan' = Append(chan, "Die") /\ app' = "shutting"
            /\ hist' = H([op |-> "Shutdown"])
            /\ UNCHANGED <<plain, gz, nrot, cst, snap, zs>>

Join == /\ app = "shutting" /\ (cst = "dead" \/ Variant = "no_join")
        /\ app' = "down"
        /\ hist' = H([op |-> "Join"])
        /\ UNCHANGED <<plain, gz, nrot, chan, cst, snap, zs>>

Next == Rotate \/ CRecv \/ CList \/ CStep \/ Shutdown \/ Join
Spec == Init /\ [][Next]_vars /\ WF_vars(CRecv) /\ WF_vars(CList) /\ WF_vars(CStep) /\ WF_vars(Join)

(***************************************************************************)
Newest(n) == {i \in 0..(nrot - 1) : i + n >= nrot}          \* the n most recent rotated files
\* C07 at the latest when shutdown() returns: exactly the most recent files, the newest K plain, the next M compressed
C07_LimitsAtShutdown == app = "down" =>
    /\ Cardinality(plain) <= K /\ Cardinality(gz \ plain) <= M
    /\ plain = Newest(K)
    /\ gz = Newest(K + M) \ Newest(K)
\* at every moment: nothing inside the limits is removed, nothing among the newest K is compressed
C07_NotRemovedEarly == Newest(K + M) \subseteq Existing
C07_NotCompressedEarly == Newest(K) \cap gz = {}
\* a compressed file replaces its original only when it is finished
C07_OriginalUntilFinished == (cst = "run" /\ snap # <<>> /\ Head(snap).pos < K + M) => Head(snap).i \in plain
\* every started shutdown returns
C07_ShutdownReturns == (app = "shutting") ~> (app = "down")
=============================================================================
