------------------------------ MODULE FlwCleanQ ------------------------------
(***************************************************************************)
(* C07 for the BACKGROUND cleanup thread: "after each rotation's cleanup    *)
(* has completed ... at the latest when shutdown() returns ... at most the  *)
(* configured numbers of rotated plain files and of compressed files exist  *)
(* and they are exactly the most recent ones", for all interleavings of the *)
(* cleanup steps with further rotations.                                    *)
(*                                                                         *)
(* Logging thread (state.rs mount_next_linewriter_if_necessary, under the   *)
(* state mutex, which the cleanup thread never takes):                      *)
(*   Rotate    the current file becomes the rotated file with the next      *)
(*             index and `Act` is sent (list_and_cleanup.rs:86)             *)
(* Cleanup thread (list_and_cleanup.rs start_cleanup_thread), one step per  *)
(* point at which the thread can be held on the real code:                  *)
(*   CRecv     receiver.recv(): Act -> a run starts; Die -> the thread ends *)
(*   CList     remove_or_compress_too_old_logfiles_impl: the listing, newest *)
(*             first; every decision of the run is taken from the POSITION  *)
(*             in this snapshot (index >= k+m: remove; index >= k: compress) *)
(*   CStep     the next effect of the run: fs:remove | fs:gz_create |        *)
(*             fs:gz_copy | fs:gz_finish | fs:remove_orig                   *)
(* Application thread (CleanupThreadHandle::shutdown, under the state mutex):*)
(*   Shutdown  send Die        Join  join_handle.join()                     *)
(*                                                                         *)
(* A snapshot is stale as soon as another rotation happens: the run then     *)
(* leaves one file too many. That is repaired by the run of the later Act -  *)
(* PROVIDED every Act that was sent is acted upon before the thread ends     *)
(* (std::sync::mpsc is FIFO, Die is sent last, shutdown() joins).            *)
(* Hypothetical variants (sanity runs; each must violate LimitsAtShutdown):  *)
(*   "die_overrides"  the thread drains its channel and acts on the LAST     *)
(*                    message only (a plausible coalescing optimisation)     *)
(*   "no_join"        shutdown() does not wait for the thread                *)
(* and one that must NOT violate anything:                                  *)
(*   "coalesce_acts"  consecutive Acts are coalesced, a Die behind them is   *)
(*                    left in the channel                                    *)
(***************************************************************************)
EXTENDS Naturals, Sequences, FiniteSets, TLC

CONSTANTS NRot,     \* rotations
          K, M,     \* Cleanup::KeepLogAndCompressedFiles(K, M)  (M = 0: KeepLogFiles(K); K = 0: KeepCompressedFiles(M))
          Variant,  \* "as_coded" | "die_overrides" | "no_join" | "coalesce_acts"
          Direct,   \* a direct naming (NumbersDirect): the file being written is itself the newest file of the family and
                    \* part of every listing; a rotation only opens the next index; with K = 0 the cleanup keeps 1 plain
                    \* file nevertheless (list_and_cleanup.rs:109)
          GenHist

VARIABLES plain,   \* indexes of the rotated files that exist uncompressed
          gz,      \* indexes of the compressed files (an unfinished one counts: it has the name)
          nrot,    \* rotations done
          chan,    \* channel of the cleanup thread: Seq of "Act" | "Die"
          cst,     \* cleanup thread: "wait" | "got" (has received Act) | "run" | "dead"
          snap,    \* rest of the snapshot listing of the current run: Seq of [i, z, pos]
          zs,      \* progress inside a compression: 0 (not started) .. 3 (.gz finished, original not yet removed)
          app,     \* "run" | "shutting" | "down"
          hist
vars == <<plain, gz, nrot, chan, cst, snap, zs, app, hist>>
H(e) == IF GenHist THEN Append(hist, e) ELSE hist

\* the files of the family are 0 .. Top-1 (with a direct naming the last one is the current file)
Top == IF Direct THEN nrot + 1 ELSE nrot
KK == IF Direct /\ K = 0 THEN 1 ELSE K
Init == /\ plain = (IF Direct THEN {0} ELSE {}) /\ gz = {} /\ nrot = 0 /\ chan = <<>> /\ cst = "wait" /\ snap = <<>> /\ zs = 0 /\ app = "run"
        /\ hist = <<>>

Rotate == /\ app = "run" /\ nrot < NRot
          /\ plain' = plain \cup {Top} /\ nrot' = nrot + 1 /\ chan' = Append(chan, "Act")
          /\ hist' = H([op |-> "Rotate"])
          /\ UNCHANGED <<gz, cst, snap, zs, app>>

\* the family, newest first; a file that exists in both forms (unfinished compression) is listed once, as plain:
\* the unfinished .gz is dropped first (list_and_cleanup.rs:128)
Existing == plain \cup gz
RECURSIVE Listing(_, _)
Listing(S, pos) == IF S = {} THEN <<>>
                   ELSE LET i == CHOOSE x \in S : \A y \in S : y <= x IN
                        <<[i |-> i, z |-> (i \notin plain), pos |-> pos]>> \o Listing(S \ {i}, pos + 1)

RECURSIVE DropLeadingActs(_)
DropLeadingActs(s) == IF s # <<>> /\ Head(s) = "Act" THEN DropLeadingActs(Tail(s)) ELSE s

CRecv == /\ cst = "wait" /\ chan # <<>>
         /\ LET m == IF Variant = "die_overrides" THEN chan[Len(chan)] ELSE Head(chan) IN
            /\ chan' = CASE Variant = "die_overrides" -> <<>>
                         [] Variant = "coalesce_acts" /\ m = "Act" -> DropLeadingActs(chan)
                         [] OTHER -> Tail(chan)
            /\ cst' = IF m = "Act" THEN "got" ELSE "dead"
            /\ hist' = H([op |-> "CRecv", m |-> m])
         /\ UNCHANGED <<plain, gz, nrot, snap, zs, app>>

CList == /\ cst = "got"
         /\ LET L == Listing(Existing, 0)
                todo == SelectSeq(L, LAMBDA f : f.pos >= KK + M \/ (f.pos >= KK /\ ~f.z))
            IN /\ snap' = todo
               /\ cst' = IF todo = <<>> THEN "wait" ELSE "run"
         /\ zs' = 0
         /\ hist' = H([op |-> "CList"])
         /\ UNCHANGED <<plain, gz, nrot, chan, app>>

Advance == /\ snap' = Tail(snap) /\ zs' = 0 /\ cst' = IF Len(snap) = 1 THEN "wait" ELSE "run"

CStep == /\ cst = "run" /\ snap # <<>>
         /\ LET f == Head(snap) IN
            IF f.pos >= KK + M
            THEN \* fs:remove
                 /\ plain' = plain \ {f.i} /\ gz' = gz \ {f.i} /\ Advance
            ELSE \* compression: fs:gz_create, fs:gz_copy, fs:gz_finish, fs:remove_orig
                 CASE zs = 0 -> gz' = gz \cup {f.i} /\ zs' = 1 /\ UNCHANGED <<plain, snap, cst>>
                   [] zs \in {1, 2} -> zs' = zs + 1 /\ UNCHANGED <<plain, gz, snap, cst>>
                   [] zs = 3 -> plain' = plain \ {f.i} /\ gz' = gz /\ Advance
         /\ hist' = H([op |-> "CStep"])
         /\ UNCHANGED <<nrot, chan, app>>

Shutdown == /\ app = "run"
            /\ chan' = Append(chan, "Die") /\ app' = "shutting"
            /\ hist' = H([op |-> "Shutdown"])
            /\ UNCHANGED <<plain, gz, nrot, cst, snap, zs>>

Join == /\ app = "shutting" /\ (cst = "dead" \/ Variant = "no_join")
        /\ app' = "down"
        /\ hist' = H([op |-> "Join"])
        /\ UNCHANGED <<plain, gz, nrot, chan, cst, snap, zs>>

Next == Rotate \/ CRecv \/ CList \/ CStep \/ Shutdown \/ Join
Spec == Init /\ [][Next]_vars /\ WF_vars(CRecv) /\ WF_vars(CList) /\ WF_vars(CStep) /\ WF_vars(Join)

(***************************************************************************)
Newest(n) == {i \in 0..(Top - 1) : i + n >= Top}          \* the n most recent files of the family
\* C07 at the latest when shutdown() returns: exactly the most recent files, the newest K plain, the next M compressed
C07_LimitsAtShutdown == app = "down" =>
    /\ Cardinality(plain) <= KK /\ Cardinality(gz \ plain) <= M
    /\ plain = Newest(KK)
    /\ gz = Newest(KK + M) \ Newest(KK)
\* at every moment: nothing inside the limits is removed, nothing among the newest K is compressed
C07_NotRemovedEarly == Newest(KK + M) \subseteq Existing
C07_NotCompressedEarly == Newest(KK) \cap gz = {}
\* the file currently written to is never compressed or removed
C07_CurrentSafe == Direct => (Top - 1 \in plain /\ Top - 1 \notin gz)
\* a compressed file replaces its original only when it is finished
C07_OriginalUntilFinished == (cst = "run" /\ snap # <<>> /\ Head(snap).pos < KK + M) => Head(snap).i \in plain
\* every started shutdown returns
C07_ShutdownReturns == (app = "shutting") ~> (app = "down")
=============================================================================
