-------------------------------- MODULE FlwF --------------------------------
(***************************************************************************)
(* C19: the file writer of Flw.tla with FAILING file-system effects.       *)
(*                                                                         *)
(* Every file-system effect of the code is a numbered step of an action    *)
(* (the hook points fs:rename, fs:open, fs:write, fs:flush of the code, in  *)
(* the order in which the code performs them); the j-th effect of an action *)
(* fails iff FL[j]. The error handling is transcribed from state.rs:        *)
(*   write_buffer: initialize()? ; mount_next_linewriter_if_necessary()     *)
(*       .unwrap_or_else(report "LogFile") ; point(fs:write)? write_all?    *)
(*   initialize / initialize_with_rotation: every effect with `?` - the     *)
(*       state stays Initial, what was done before the failing effect stays *)
(*       done (a rename that succeeded, a file that was created)            *)
(*   mount_next_linewriter_if_necessary: rename `?` / open `?` before the   *)
(*       writer is switched: the old writer stays (its buffer was flushed   *)
(*       at the begin of the rotation), the                                 *)
(*       naming state keeps what was assigned before the failing effect     *)
(*       (NumbersDirect: idx+1, Timestamps: the new timestamp)              *)
(* Scope: synchronous cleanup (remove, compress) and the symlink included.   *)
(*                                                                         *)
(* Model checking mode: a fault plan (from, burst) as the harness uses it - *)
(* the effects number from..from+burst-1 of the whole history fail. TLC     *)
(* enumerates every plan x every history within the bounds.                 *)
(* Trace mode (TraceFlwF.tla): FL is bound from the recorded failures of    *)
(* each call, and the NAMES of the effects the action performs must equal   *)
(* the recorded ones - the order of the effects is validated as well.       *)
(***************************************************************************)
EXTENDS Flw

CONSTANTS MaxFrom, Bursts,     \* fault plans of the model checking mode: from \in 0..MaxFrom (0 = none), burst \in Bursts
          Mutations           \* {} ; {"drop_on_rotation_failure"} = a hypothetical variant of the code that returns after a
                              \* failed rotation without writing the record (sanity run: the invariants must catch it)

VARIABLES nfx,      \* number of effects performed so far in the history
          plan,     \* [from, burst]
          lostw,    \* ids of records whose own write (or the initialisation before it) failed
          rep,      \* what the last action reported: sequence of error codes
          lastfx,   \* names of the effects of the last action
          recov,    \* number of records written successfully since the last failed effect
          lnk       \* create_symlink: [on, has, n] - configured, the link exists, the family name it points to
fvars == <<vars, nfx, plan, lostw, rep, lastfx, recov, lnk>>

Fl(FL, j) == j <= Len(FL) /\ FL[j]
\* model checking mode: the failure flags of the next 16 effects according to the plan
PlanFL == [j \in 1..16 |-> plan.from > 0 /\ nfx + j >= plan.from /\ nfx + j < plan.from + plan.burst]

(***************************************************************************)
(* remove_or_compress_too_old_logfiles_impl with failing effects: returns   *)
(* [ok, d, f, used, fx]; j = effects used so far; the first failing effect  *)
(* ends the cleanup (`?`), what was done before stays done.                 *)
(*  stage 1: the unfinished .gz files of interrupted compressions (a .gz    *)
(*           next to its original) are removed: fs:remove each              *)
(*  stage 2: the listing (without them): fs:remove beyond k+m; beyond k a   *)
(*           plain file is compressed: fs:gz_create (creates the .gz),      *)
(*           fs:gz_copy, fs:gz_finish, fs:remove_orig                       *)
(* A .gz left next to its original has undefined content here (<<>>): the   *)
(* trace specification compares the directory without such twins.           *)
(***************************************************************************)
NoClean(c) == [c EXCEPT !.clean = FALSE]
RECURSIVE RmTwinsF(_, _, _, _, _)
RmTwinsF(d, L, FL, j, fx) ==
    IF L = <<>> THEN [ok |-> TRUE, d |-> d, used |-> j, fx |-> fx]
    ELSE IF Fl(FL, j + 1) THEN [ok |-> FALSE, d |-> d, used |-> j + 1, fx |-> Append(fx, "fs:remove")]
    ELSE RmTwinsF(Unlink(d, Head(L)), Tail(L), FL, j + 1, Append(fx, "fs:remove"))

RECURSIVE CleanFromF(_, _, _, _, _, _, _, _, _)
CleanFromF(d, f, L, idx, k, m, FL, j, fx) ==
    IF L = <<>> THEN [ok |-> TRUE, d |-> d, f |-> f, used |-> j, fx |-> fx]
    ELSE LET n == Head(L) IN
         IF idx >= k + m
         THEN IF Fl(FL, j + 1) THEN [ok |-> FALSE, d |-> d, f |-> f, used |-> j + 1, fx |-> Append(fx, "fs:remove")]
              ELSE CleanFromF(Unlink(d, n), f, Tail(L), idx + 1, k, m, FL, j + 1, Append(fx, "fs:remove"))
         ELSE IF idx >= k /\ ~n.z
              THEN LET i   == FreshIno(f)
                       dz  == [x \in DOMAIN d \cup {Gz(n)} |-> IF x = Gz(n) THEN i ELSE d[x]]          \* the .gz beside n
                       fe  == [x \in DOMAIN f \cup {i} |-> IF x = i THEN [ids |-> <<>>, bt |-> 0] ELSE f[x]]
                       ff  == [x \in DOMAIN f \cup {i} |-> IF x = i THEN [ids |-> f[d[n]].ids, bt |-> 0] ELSE f[x]]
                       g1  == Append(fx, "fs:gz_create")
                       g2  == Append(g1, "fs:gz_copy")
                       g3  == Append(g2, "fs:gz_finish")
                       g4  == Append(g3, "fs:remove_orig")
                   IN IF Fl(FL, j + 1) THEN [ok |-> FALSE, d |-> d, f |-> f, used |-> j + 1, fx |-> g1]
                      ELSE IF Fl(FL, j + 2) THEN [ok |-> FALSE, d |-> dz, f |-> fe, used |-> j + 2, fx |-> g2]
                      ELSE IF Fl(FL, j + 3) THEN [ok |-> FALSE, d |-> dz, f |-> fe, used |-> j + 3, fx |-> g3]
                      ELSE IF Fl(FL, j + 4) THEN [ok |-> FALSE, d |-> dz, f |-> ff, used |-> j + 4, fx |-> g4]
                      ELSE CleanFromF(Unlink(dz, n), ff, Tail(L), idx + 1, k, m, FL, j + 4, g4)
              ELSE CleanFromF(d, f, Tail(L), idx + 1, k, m, FL, j, fx)

CleanupF(c, d, f, FL, j0) ==
    IF ~c.clean THEN [ok |-> TRUE, d |-> d, f |-> f, used |-> j0, fx |-> <<>>]
    ELSE LET twins == SelectSeq(SortDesc(Zipped(c, d)), LAMBDA n : UnGz(n) \in DOMAIN d)
             t1 == RmTwinsF(d, twins, FL, j0, <<>>)
         IN IF ~t1.ok THEN [ok |-> FALSE, d |-> t1.d, f |-> f, used |-> t1.used, fx |-> t1.fx]
            ELSE CleanFromF(t1.d, f, Listing(c, t1.d), 0, KEff(c), c.m, FL, t1.used, t1.fx)

(***************************************************************************)
(* initialize(): returns [ok, d, f, w, legit, used, fx]                     *)
(***************************************************************************)
InitializeF(c, d, f, t, FL) ==
    IF ~c.rot THEN
        IF Fl(FL, 1) THEN [ok |-> FALSE, d |-> d, f |-> f, w |-> w, legit |-> {}, used |-> 1, fx |-> <<"fs:open">>]
        ELSE LET i == Initialize(c, d, f, t) IN
             [ok |-> TRUE, d |-> i.d, f |-> i.f, w |-> i.w, legit |-> i.legit, used |-> 1, fx |-> <<"fs:open">>]
    ELSE
    LET h == HighestIdx(c, d)
        ren == c.naming \in {"Num", "Ts"} /\ ~c.append      \* the rename point is passed whether or not the file exists
        nren == IF ren THEN 1 ELSE 0
        fxs == IF ren THEN <<"fs:rename", "fs:open">> ELSE <<"fs:open">>
    IN
    IF ren /\ Fl(FL, 1) THEN [ok |-> FALSE, d |-> d, f |-> f, w |-> w, legit |-> {}, used |-> 1, fx |-> <<"fs:rename">>]
    ELSE IF Fl(FL, nren + 1)
         THEN \* the rename has taken place, the open failed: State stays Initial
              LET d1 == CASE c.naming = "Num" -> Rename(d, Cur, Num(h + 1)).d
                          [] c.naming = "Ts" ->
                               LET date == IF Cur \in DOMAIN d THEN f[d[Cur]].bt ELSE t IN
                               Rename(d, Cur, CollisionFree(d, Key(c, date))).d
                          [] OTHER -> d
              IN [ok |-> FALSE, d |-> IF ren THEN d1 ELSE d, f |-> f, w |-> w, legit |-> {}, used |-> nren + 1, fx |-> fxs]
         ELSE LET i  == Initialize(NoClean(c), d, f, t)
                  cl == CleanupF(c, i.d, i.f, FL, nren + 1)
              IN \* a failing cleanup makes initialize() fail: the state stays Initial although the file is open(ed)
                 [ok |-> cl.ok, d |-> cl.d, f |-> cl.f, w |-> IF cl.ok THEN i.w ELSE w, legit |-> i.legit, used |-> cl.used,
                  fx |-> fxs \o cl.fx]

(***************************************************************************)
(* mount_next_linewriter_if_necessary: returns [ok, d, f, w, used, fx];     *)
(* j0 = effects already used by this action                                 *)
(***************************************************************************)
RotateF(c, d, fa, wa, t, FL, j0) ==
    \* the buffer of the writer is flushed first (the renamed file is a rotated file for a concurrently running
    \* cleanup thread before the writer is replaced), so on every path below the old writer's buffer is empty
    LET f0 == FlushInto(fa, wa)
        wr == [wa EXCEPT !.buf = <<>>] IN
    CASE c.naming = "Num" ->
           IF Fl(FL, j0 + 1) THEN [ok |-> FALSE, d |-> d, f |-> f0, w |-> wr, used |-> j0 + 1, fx |-> <<"fs:rename">>]
           ELSE LET rn == Rename(d, Cur, Num(wr.idx))
                    w1 == [wr EXCEPT !.idx = IF rn.ok THEN @ + 1 ELSE @] IN
                IF Fl(FL, j0 + 2)
                THEN [ok |-> FALSE, d |-> rn.d, f |-> f0, w |-> w1, used |-> j0 + 2, fx |-> <<"fs:rename", "fs:open">>]
                ELSE LET r  == Rotate(NoClean(c), d, f0, wr, t)
                         cl == CleanupF(c, r.d, r.f, FL, j0 + 2) IN
                     \* (a failing cleanup is reported; the writer has been replaced before)
                     [ok |-> cl.ok, d |-> cl.d, f |-> cl.f, w |-> r.w, used |-> cl.used, fx |-> <<"fs:rename", "fs:open">> \o cl.fx]
      [] c.naming = "NumD" ->
           IF Fl(FL, j0 + 1)
           THEN [ok |-> FALSE, d |-> d, f |-> f0, w |-> [wr EXCEPT !.idx = @ + 1], used |-> j0 + 1, fx |-> <<"fs:open">>]
           ELSE LET r  == Rotate(NoClean(c), d, f0, wr, t)
                         cl == CleanupF(c, r.d, r.f, FL, j0 + 1) IN
                     \* (a failing cleanup is reported; the writer has been replaced before)
                     [ok |-> cl.ok, d |-> cl.d, f |-> cl.f, w |-> r.w, used |-> cl.used, fx |-> <<"fs:open">> \o cl.fx]
      [] c.naming = "Ts" ->
           IF Fl(FL, j0 + 1) THEN [ok |-> FALSE, d |-> d, f |-> f0, w |-> wr, used |-> j0 + 1, fx |-> <<"fs:rename">>]
           ELSE LET rn == Rename(d, Cur, CollisionFree(d, Key(c, wr.ts))) IN
                IF Fl(FL, j0 + 2)
                THEN [ok |-> FALSE, d |-> rn.d, f |-> f0, w |-> [wr EXCEPT !.ts = t], used |-> j0 + 2,
                      fx |-> <<"fs:rename", "fs:open">>]
                ELSE LET r  == Rotate(NoClean(c), d, f0, wr, t)
                         cl == CleanupF(c, r.d, r.f, FL, j0 + 2) IN
                     \* (a failing cleanup is reported; the writer has been replaced before)
                     [ok |-> cl.ok, d |-> cl.d, f |-> cl.f, w |-> r.w, used |-> cl.used, fx |-> <<"fs:rename", "fs:open">> \o cl.fx]
      [] c.naming = "TsD" ->
           IF Fl(FL, j0 + 1)
           THEN [ok |-> FALSE, d |-> d, f |-> f0, w |-> [wr EXCEPT !.ts = t], used |-> j0 + 1, fx |-> <<"fs:open">>]
           ELSE LET r  == Rotate(NoClean(c), d, f0, wr, t)
                         cl == CleanupF(c, r.d, r.f, FL, j0 + 1) IN
                     \* (a failing cleanup is reported; the writer has been replaced before)
                     [ok |-> cl.ok, d |-> cl.d, f |-> cl.f, w |-> r.w, used |-> cl.used, fx |-> <<"fs:open">> \o cl.fx]

(***************************************************************************)
(* create_symlink (open_log_file, platform::unix_create_symlink): BEFORE    *)
(* the file is opened the link is replaced: fs:unlink_link (only if a link   *)
(* exists), fs:symlink - also when the open then fails (the link dangles).   *)
(* Failures at these two hook points are ignored by the code (`.ok()`, the   *)
(* effect is performed regardless), so they only occupy positions in FL.    *)
(* The link-less operators above are wrapped: the positions of the link      *)
(* effects are cut out of FL, the effects spliced into fx before fs:open.   *)
(***************************************************************************)
NoLink == [on |-> FALSE, has |-> FALSE, n |-> Cur]
LkFx(l) == IF ~l.on THEN <<>> ELSE IF l.has THEN <<"fs:unlink_link", "fs:symlink">> ELSE <<"fs:symlink">>
LkSet(l, path) == IF l.on THEN [l EXCEPT !.has = TRUE, !.n = path] ELSE l
Pad(FL) == FL \o [j \in 1..24 |-> FALSE]
Splice(FL, p, nl) == SubSeq(FL, 1, p - 1) \o SubSeq(FL, p + nl, Len(FL))
HasOpen(fx) == \E k \in 1..Len(fx) : fx[k] = "fs:open"
OpenAt(fx) == CHOOSE k \in 1..Len(fx) : fx[k] = "fs:open" /\ \A j \in 1..(k - 1) : fx[j] # "fs:open"
WithLink(fx, l) == LET k == OpenAt(fx) IN SubSeq(fx, 1, k - 1) \o LkFx(l) \o SubSeq(fx, k, Len(fx))

InitializeL(c, d, f, t, FL, l) ==
    LET nl == Len(LkFx(l))
        p  == IF c.rot /\ c.naming \in {"Num", "Ts"} /\ ~c.append THEN 2 ELSE 1
        R0 == InitializeF(c, d, f, t, Splice(Pad(FL), p, nl))
    IN IF HasOpen(R0.fx)
       THEN [ok |-> R0.ok, d |-> R0.d, f |-> R0.f, w |-> R0.w, legit |-> R0.legit, used |-> R0.used + nl,
             fx |-> WithLink(R0.fx, l), lk |-> LkSet(l, Initialize(NoClean(c), d, f, t).w.path)]
       ELSE [ok |-> R0.ok, d |-> R0.d, f |-> R0.f, w |-> R0.w, legit |-> R0.legit, used |-> R0.used, fx |-> R0.fx, lk |-> l]

RotateL(c, d, fa, wa, t, FL, j0, l) ==
    LET nl == Len(LkFx(l))
        p  == j0 + (IF c.naming \in {"Num", "Ts"} THEN 2 ELSE 1)
        R0 == RotateF(c, d, fa, wa, t, Splice(Pad(FL), p, nl), j0)
    IN IF HasOpen(R0.fx)
       THEN [ok |-> R0.ok, d |-> R0.d, f |-> R0.f, w |-> R0.w, used |-> R0.used + nl, fx |-> WithLink(R0.fx, l),
             lk |-> LkSet(l, Rotate(NoClean(c), d, FlushInto(fa, wa), [wa EXCEPT !.buf = <<>>], t).w.path)]
       ELSE [ok |-> R0.ok, d |-> R0.d, f |-> R0.f, w |-> R0.w, used |-> R0.used, fx |-> R0.fx, lk |-> l]

(***************************************************************************)
(* Actions                                                                 *)
(***************************************************************************)
FInit == /\ Init /\ nfx = 0 /\ lostw = {} /\ rep = <<>> /\ lastfx = <<>> /\ recov = 0
         /\ lnk \in {NoLink, [NoLink EXCEPT !.on = TRUE]}
         /\ plan \in [from : 0..MaxFrom, burst : Bursts]
         /\ (plan.from = 0 => plan.burst = 1)

Quiet(next) == /\ next /\ rep' = <<>> /\ lastfx' = <<>> /\ UNCHANGED <<nfx, plan, lostw, recov, lnk>>

StartF(ap) == Quiet(Start(ap))
AdvanceF(dt) == Quiet(Advance(dt))

\* State::write_buffer
WriteFL(len, FL) ==
    /\ w.st \in {"init", "act"} /\ Len(logged) < MaxRecs /\ ~needReopen
    /\ LET id == Len(logged) + 1
           lg == Append(logged, len)
           i0 == IF w.st = "init" THEN InitializeL(cfg, dir, files, clk, FL, lnk)
                 ELSE [ok |-> TRUE, d |-> dir, f |-> files, w |-> w, legit |-> {}, used |-> 0, fx |-> <<>>, lk |-> lnk]
       IN /\ logged' = lg /\ wt' = Append(wt, clk)
          /\ IF ~i0.ok
             THEN \* initialize()? : the record is not written, the state stays Initial
                  /\ dir' = i0.d /\ files' = i0.f /\ w' = w /\ lnk' = i0.lk
                  /\ lostw' = lostw \cup {id} /\ rep' = <<"Write">> /\ lastfx' = i0.fx /\ nfx' = nfx + i0.used
                  /\ recov' = 0
                  /\ gone' = gone \cup (AllIdsIn(dir, files) \ AllIdsIn(i0.d, i0.f))
                  /\ okgone' = okgone \cup (IF cfg.clean THEN AllIdsIn(dir, files) \ AllIdsIn(i0.d, i0.f) ELSE {})
             ELSE LET due == cfg.rot /\ RotationNecessary(cfg, i0.w, clk)
                      r0 == IF due THEN RotateL(cfg, i0.d, i0.f, i0.w, clk, FL, i0.used, i0.lk)
                            ELSE [ok |-> TRUE, d |-> i0.d, f |-> i0.f, w |-> i0.w, used |-> i0.used, fx |-> <<>>, lk |-> i0.lk]
                      dropped == "drop_on_rotation_failure" \in Mutations /\ ~r0.ok
                      wfail == dropped \/ Fl(FL, r0.used + 1)
                      bw == BufWrite(cfg, r0.f, r0.w, id, len, lg)
                  IN /\ dir' = r0.d /\ lnk' = r0.lk
                     /\ files' = IF wfail THEN r0.f ELSE bw.f
                     /\ w' = IF wfail THEN r0.w ELSE [r0.w EXCEPT !.buf = bw.buf, !.size = @ + len]
                     /\ lostw' = IF wfail /\ ~dropped THEN lostw \cup {id} ELSE lostw
                     /\ rep' = (IF r0.ok THEN <<>> ELSE <<"LogFile">>) \o (IF wfail THEN <<"Write">> ELSE <<>>)
                     /\ lastfx' = i0.fx \o r0.fx \o <<"fs:write">>
                     /\ nfx' = nfx + r0.used + 1
                     /\ recov' = IF wfail \/ ~r0.ok THEN 0 ELSE recov + 1
                     /\ gone' = gone \cup (AllIdsIn(dir, files) \ AllIdsIn(r0.d, IF wfail THEN r0.f ELSE bw.f))
                     /\ okgone' = okgone \cup i0.legit
                                   \cup (IF cfg.clean THEN AllIdsIn(dir, files) \ AllIdsIn(r0.d, IF wfail THEN r0.f ELSE bw.f) ELSE {})
    /\ UNCHANGED <<clk, cfg, runs, trigs, advs, forced, extgone, exts, moved, olddirs, sws, needReopen, hist, plan>>

\* trigger_rotation: forced rotation; before the first write or without rotation nothing happens
TriggerFL(FL) ==
    /\ w.st = "act" /\ cfg.rot /\ trigs < MaxTrig /\ ~needReopen
    /\ LET r0 == RotateL(cfg, dir, files, w, clk, FL, 0, lnk) IN
       /\ dir' = r0.d /\ files' = r0.f /\ w' = r0.w /\ lnk' = r0.lk
       /\ rep' = IF r0.ok THEN <<>> ELSE <<"ret:err">>
       /\ lastfx' = r0.fx /\ nfx' = nfx + r0.used
       /\ recov' = IF r0.ok THEN recov ELSE 0
       /\ gone' = gone \cup (AllIdsIn(dir, FlushInto(files, w)) \ AllIdsIn(r0.d, r0.f))
       /\ okgone' = okgone \cup (IF cfg.clean THEN AllIdsIn(dir, FlushInto(files, w)) \ AllIdsIn(r0.d, r0.f) ELSE {})
    /\ trigs' = trigs + 1 /\ forced' = forced \cup {Len(logged)}
    /\ UNCHANGED <<clk, cfg, logged, wt, runs, advs, extgone, exts, moved, olddirs, sws, needReopen, hist, plan, lostw>>

TriggerNoopF == Quiet(TriggerNoop)

\* State::flush: point(fs:flush)? ; file.flush()
FlushFL(FL) ==
    /\ w.st = "act" /\ ~needReopen
    \* (LoggerHandle::flush() returns nothing and reports nothing: a failed flush loses nothing, the buffer stays)
    /\ IF Fl(FL, 1) THEN UNCHANGED <<files, w>> /\ rep' = <<>> /\ recov' = 0
       ELSE files' = FlushInto(files, w) /\ w' = [w EXCEPT !.buf = <<>>] /\ rep' = <<>> /\ recov' = recov
    /\ lastfx' = <<"fs:flush">> /\ nfx' = nfx + 1
    /\ UNCHANGED <<dir, clk, cfg, logged, wt, runs, trigs, advs, gone, okgone, forced, extgone, exts, moved, olddirs, sws,
                   needReopen, hist, plan, lostw, lnk>>

\* shutdown + drop: the buffer is flushed (failures of the flush points on this path are ignored by the code)
StopF == Quiet(Stop)

WriteF(len) == WriteFL(len, PlanFL)
TriggerF == TriggerFL(PlanFL)
FlushF == w.st = "act" /\ w.buf # <<>> /\ FlushFL(PlanFL)     \* (bounded: a flush of an empty buffer changes nothing but nfx)

FNext == \/ \E ap \in BOOLEAN : StartF(ap)
         \/ \E len \in Lens : WriteF(len)
         \/ TriggerF \/ TriggerNoopF \/ FlushF \/ StopF
         \/ \E dt \in Dts : AdvanceF(dt)
FSpec == FInit /\ [][FNext]_fvars

(***************************************************************************)
(* C19 on the model                                                        *)
(***************************************************************************)
Kept == SelectSeq(Acc, LAMBDA p : p[1] \notin lostw /\ p[1] \notin gone)
\* no previously written record is lost, only records whose own write failed are missing, order kept
\* (gone = the documented truncation of a non-rotated file re-opened without append)
\* (the unfinished .gz that a failed compression leaves next to its original is not part of the stream)
C19_OnlyOwnFailureMissing == Stream(Untwin(ObsFiles)) \o BufRecs = Kept
\* a rotated name is both plain and compressed only as such a twin: the original is complete and comes first
C19_TwinsOnlyUnfinished == NoTwin(Untwin(ObsFiles))
C19_NoDestruction == gone \subseteq okgone
\* once operations succeed again, rotation resumes: after a write without any failure the current file held, before
\* that record, no more than the limit
C19_RotationResumes ==
    (w.st = "act" /\ cfg.rot /\ cfg.size >= 0 /\ cfg.age = "-" /\ recov >= 1 /\ w.ino \in DOMAIN files) =>
        LET ids == files[w.ino].ids \o w.buf IN
        Len(ids) <= 1 \/ BytesOf(SubSeq(ids, 1, Len(ids) - 1)) <= cfg.size
\* a configured symlink resolves to the file being written to, once a file is open
\* (C16; without failures: a failed open leaves the link dangling or pointing to the file that could not be mounted)
C19_LinkResolves == (plan.from = 0 /\ lnk.on /\ w.st = "act") => (lnk.has /\ lnk.n = w.path)
\* the writer's file is always reachable under a family name (nothing is written into an unlinked file)
C19_WriterFileLinked == (w.st = "act") => w.ino \in Range(dir)
=============================================================================
