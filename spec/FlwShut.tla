------------------------------ MODULE FlwShut ------------------------------
(***************************************************************************)
(* C04, several callers: shutdown() of the asynchronous file writer when   *)
(* handle clones on several threads call it at about the same time.        *)
(*                                                                         *)
(* state_handle.rs (async arm of StateHandle::shutdown), one step each:    *)
(*   ShutSend(a)  send Flush and Shutdown to the writer thread (a send to  *)
(*                a thread that has ended fails and is ignored)            *)
(*   ShutLock(a)  lock mo_thread_handle (a std Mutex: blocks while another *)
(*                caller holds it); take() the JoinHandle out of the       *)
(*                Option; if it is None: unlock, return                    *)
(*   ShutJoin(a)  join the writer thread - STILL HOLDING THE MUTEX -,      *)
(*                unlock, return                                           *)
(* and the writer thread: Recv (data: write; Flush; Shutdown: thread ends; *)
(* messages behind a Shutdown message are never processed).                *)
(*                                                                         *)
(* Because the join happens under the mutex, a second caller cannot return *)
(* before the first one's join has completed, i.e. before the writer       *)
(* thread has worked off everything that was sent before ITS OWN Shutdown  *)
(* message... which lies behind the first caller's. The property: when     *)
(* shutdown() has returned to a caller, every record whose log call had    *)
(* completed before that caller's shutdown() began is on disk.             *)
(*                                                                         *)
(* Deviation "join_outside_lock" (hypothetical; what a "don't hold the     *)
(* mutex while waiting" refactoring would give): the JoinHandle is taken   *)
(* under the mutex, the mutex released, then the thread joined. A second   *)
(* caller then finds None and returns at once although the writer thread   *)
(* still has a backlog. TLC finds that counterexample; the harness step    *)
(* ShutdownRace drives the real code into the same situation (writer       *)
(* thread held at its hook point with a backlog, two callers).             *)
(***************************************************************************)
EXTENDS Naturals, Sequences, FiniteSets, TLC

CONSTANTS Apps,        \* application threads holding a clone of the handle
          NRecs,       \* records logged (by a logging thread) before / while the shutdowns run
          Fixes        \* "join_under_lock" \in Fixes: as coded at the pinned commit (and intended)

VARIABLES q,        \* channel to the writer thread
          disk,     \* record ids written
          alive,    \* the writer thread runs
          handle,   \* the JoinHandle is still in the Option
          mtx,      \* holder of mo_thread_handle's mutex, 0 = free
          st,       \* per caller: "idle" | "sent" | "joining" | "done"
          mine,     \* the caller holds the taken JoinHandle
          logged,   \* number of records whose log call has returned (sends that succeeded)
          before    \* per caller: `logged` when its shutdown() began

vars == <<q, disk, alive, handle, mtx, st, mine, logged, before>>

Init == /\ q = <<>> /\ disk = {} /\ alive = TRUE /\ handle = TRUE /\ mtx = 0
        /\ st = [a \in Apps |-> "idle"] /\ mine = [a \in Apps |-> FALSE]
        /\ logged = 0 /\ before = [a \in Apps |-> 0]

\* a logging thread: the record is accepted iff the send succeeds (the writer thread still runs).
\* Domain of the property: records logged before the first shutdown() begins (a record sent behind another
\* caller's Shutdown message is never written; logging after shutdown is outside C04).
Log == /\ logged < NRecs /\ alive /\ \A a \in Apps : st[a] = "idle"
       /\ q' = Append(q, [t |-> "data", id |-> logged + 1]) /\ logged' = logged + 1
       /\ UNCHANGED <<disk, alive, handle, mtx, st, mine, before>>

Recv == /\ alive /\ q # <<>>
        /\ LET m == Head(q) IN
           /\ q' = Tail(q)
           /\ IF m.t = "F" THEN UNCHANGED <<disk, alive>>
              ELSE IF m.t = "S" THEN alive' = FALSE /\ UNCHANGED disk
              ELSE disk' = disk \cup {m.id} /\ UNCHANGED alive
        /\ UNCHANGED <<handle, mtx, st, mine, logged, before>>

ShutSend(a) == /\ st[a] = "idle"
               /\ q' = IF alive THEN q \o <<[t |-> "F", id |-> 0], [t |-> "S", id |-> 0]>> ELSE q
               /\ st' = [st EXCEPT ![a] = "sent"] /\ before' = [before EXCEPT ![a] = logged]
               /\ UNCHANGED <<disk, alive, handle, mtx, mine, logged>>

ShutLock(a) == /\ st[a] = "sent" /\ mtx = 0
               /\ IF handle
                  THEN /\ handle' = FALSE /\ mine' = [mine EXCEPT ![a] = TRUE]
                       /\ st' = [st EXCEPT ![a] = "joining"]
                       /\ mtx' = IF "join_under_lock" \in Fixes THEN a ELSE 0
                  ELSE /\ st' = [st EXCEPT ![a] = "done"] /\ UNCHANGED <<handle, mine, mtx>>
               /\ UNCHANGED <<q, disk, alive, logged, before>>

ShutJoin(a) == /\ st[a] = "joining" /\ ~alive
               /\ st' = [st EXCEPT ![a] = "done"] /\ mine' = [mine EXCEPT ![a] = FALSE]
               /\ mtx' = IF mtx = a THEN 0 ELSE mtx
               /\ UNCHANGED <<q, disk, alive, handle, logged, before>>

Next == Log \/ Recv \/ \E a \in Apps : ShutSend(a) \/ ShutLock(a) \/ ShutJoin(a)
Spec == Init /\ [][Next]_vars /\ WF_vars(Recv) /\ \A a \in Apps : WF_vars(ShutLock(a)) /\ WF_vars(ShutJoin(a))

TypeOK == /\ mtx \in Apps \cup {0} /\ st \in [Apps -> {"idle", "sent", "joining", "done"}]
          /\ Cardinality({a \in Apps : mine[a]}) <= 1
\* C04: once shutdown() has returned to a caller, every record accepted before it began is on disk
AfterShutdownAllPresent == \A a \in Apps : st[a] = "done" => (1..before[a]) \subseteq disk
\* every started shutdown returns
ShutdownReturns == \A a \in Apps : (st[a] = "sent") ~> (st[a] = "done")
\* nothing is written twice or invented
OnlyAccepted == disk \subseteq 1..logged
=============================================================================
