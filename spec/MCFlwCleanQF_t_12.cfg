SPECIFICATION FSpec
CONSTANTS
  NRot = 4
  K = 1
  M = 2
  MaxFail = 3
  Variant = "as_coded"
  Direct = FALSE
  GenHist = FALSE
INVARIANT CleanupResumes
INVARIANT OnlyFinishedReplace
INVARIANT C07_NotRemovedEarly
INVARIANT C07_NotCompressedEarly
INVARIANT C07_CurrentSafe
PROPERTY FShutdownReturns
VIEW FView
CHECK_DEADLOCK FALSE
