SPECIFICATION TSpec
CONSTANTS
  NRot = 1000000
  K <- TrK
  M <- TrM
  Variant = "as_coded"
  Direct <- TrDirect
  GenHist = FALSE
CHECK_DEADLOCK FALSE
