SPECIFICATION TSpec
CONSTANTS
  NRot = 1000000
  K <- TrK
  M <- TrM
  Variant = "as_coded"
  GenHist = FALSE
CHECK_DEADLOCK FALSE
