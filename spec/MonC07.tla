------------------------------- MODULE MonC07 -------------------------------
(* C07: cleanup keeps exactly the newest files, compresses losslessly and    *)
(* spares the current file. Observations are judged when the cleanup of the  *)
(* last rotation has completed: every step with synchronous cleanup, after   *)
(* Stop/Shutdown with the background cleanup thread.                         *)
EXTENDS MonBase

Eff(a, x) == SelectSeq(a, LAMBDA p : p[1] \notin x)
Plain(F) == SelectSeq(F, LAMBDA f : IsRot(f) /\ ~f.z)
Zipd(F)  == SelectSeq(F, LAMBDA f : IsRot(f) /\ f.z)
K(cc) == IF cc.k < 0 THEN 0 ELSE cc.k
M(cc) == IF cc.m < 0 THEN 0 ELSE cc.m
KEff(cc) == IF cc.direct /\ K(cc) = 0 THEN 1 ELSE K(cc)
\* (the replays of FlwCleanQF.tla inject failures into the cleanup thread: after a cleanup that failed last the limits need
\* not hold - C19's business; their final events are marked and not judged here)
Quiescent(e, cc) == /\ (~cc.bg /\ cc.mode # "async") \/ (e.ev \in {"Stop", "Shutdown"} /\ Ok(e))
                    /\ ~("q" \in DOMAIN e /\ e.q = "cleanfail")

Check ==
    LET e == E
        a == Eff(acc', extgone')
        cc == c'
    IN  IF ~HasObs(e) \/ ~cc.rot \/ ~cc.clean THEN TRUE ELSE
        LET F == e.obs.files
            S == Stream(F)
        IN
        \* with a background cleanup thread or the async writer, observations between two
        \* synchronisation points race with the cleanup and are not judged (nor recorded: obs = "sync")
        /\ IF ~Quiescent(e, cc) THEN TRUE ELSE
           /\ Chk(e, "AllClean", AllClean(F))                         \* incl.: every .gz decodes
           /\ Chk(e, "RotatedOnlyGrow", e.ev \in {"ExtRemove", "ExtRename"} \/ RotatedOnlyGrow(prev, F))
        /\ IF ~Quiescent(e, cc) \/ Len(acc') = 0 \/ e.ev \in {"ExtRemove", "ExtRename", "Start"} THEN TRUE ELSE
           /\ Cnt(1, TRUE)
           /\ Chk(e, "NoTwin", NoTwin(F))
           /\ Chk(e, "PlainLimit", sinceStart' = 0 \/ Len(Plain(F)) <= KEff(cc))
           /\ Chk(e, "GzLimit", sinceStart' = 0 \/ Len(Zipd(F)) <= M(cc))
           \* what is on disk is a contiguous piece of the stream, in order ...
           /\ Chk(e, "OrderedInfix", IsInfix(S, a))
           \* ... and it is the newest piece once everything is flushed
           /\ IF SyncEv(e) \/ cc.mode = "direct"
              THEN /\ Chk(e, "NewestTail", IsSuffix(S, a))
                   /\ Cnt(2, Len(S) < Len(a))
                   \* nothing is removed while there is room
                   /\ Chk(e, "NotRemovedEarly",
                          Len(S) = Len(a) \/ extgone' # {} \/ Len(Plain(F)) + Len(Zipd(F)) >= KEff(cc) + M(cc))
                   \* files are compressed only beyond the newest k
                   /\ Chk(e, "CompressedOnlyBeyondK",
                          Len(Zipd(F)) = 0 \/ extgone' # {} \/ Len(Plain(F)) >= KEff(cc))
                   /\ Cnt(3, Len(Zipd(F)) > 0)
              ELSE TRUE
           \* compressed files are older than all plain rotated files
           /\ Chk(e, "GzOlderThanPlain",
                  \A x \in 1..Len(F), y \in 1..Len(F) :
                      (IsRot(F[x]) /\ IsRot(F[y]) /\ F[x].z /\ ~F[y].z) => Less(F[x], F[y]))

Init == BaseInit
Next == BaseStep /\ Check /\ Finish
Spec == Init /\ [][Next]_bvars
=============================================================================
