------------------------------ MODULE MonBase ------------------------------
(***************************************************************************)
(* Common part of the trace monitors for file-writer scenarios.            *)
(* Reads the ndjson trace named by the environment variable TRACE; one     *)
(* state per trace line. Many scenarios share one trace: a Begin event      *)
(* resets the per-scenario history.                                         *)
(* Monitors never constrain the behaviour: a failed predicate is reported   *)
(* with a "BAD" line and the trace is consumed to its end, so that every    *)
(* failure of a run is reported, not only the first.                        *)
(***************************************************************************)
EXTENDS Naturals, Integers, Sequences, FiniteSets, TLC, Json, IOUtils, SequencesExt, Props

Rec == ndJsonDeserialize(IOEnv.TRACE)

VARIABLES l,       \* index of the next trace line
          c,       \* normalised configuration of the current scenario
          acc,     \* accepted records <<id,len>> of the current scenario, in order
          forced,  \* stream positions with a legitimate non-criterion file boundary
          runs,    \* number of successful Start events in the scenario
          live,    \* a logger is running
          prev,    \* files of the previous observation of this scenario (<<>> if none yet)
          extgone, \* ids of records in files removed by the environment (ExtRemove)
          sinceStart, \* number of accepted records since the last Start
          wts,     \* write instants of the accepted records with id > 0 (wts[id])
          base     \* number of accepted records dropped by the documented truncation of a
                   \* non-rotated file that is re-opened without append (takes place at the first write)
bvars == <<l, c, acc, forced, runs, live, prev, extgone, sinceStart, wts, base>>

E == Rec[l]
Ok(e) == e.ret = "ok"
NCounters == 12
BaseInit == /\ l = 1 /\ c = [naming |-> "-"] /\ acc = <<>> /\ forced = {} /\ runs = 0 /\ live = FALSE
            /\ prev = <<>> /\ extgone = {} /\ sinceStart = 0 /\ base = 0 /\ wts = <<>>
            /\ \A i \in 1..NCounters : TLCSet(i, 0)

FileNamed(F, nm) == SelectSeq(F, LAMBDA f : f.name = nm)
IdsIn(recs) == {recs[j][1] : j \in 1..Len(recs)}

BaseStep ==
    /\ l <= Len(Rec)
    /\ l' = l + 1
    /\ LET e == E IN
       /\ prev' = IF e.ev = "Begin" THEN <<>> ELSE IF e.o THEN e.obs.files ELSE prev
       /\ wts' = IF e.ev = "Begin" THEN <<>>
                 ELSE IF e.ev = "Log" /\ e.ret # "noop" THEN Append(wts, e.t) ELSE wts    \* index = id = position
       /\ base' = IF e.ev = "Begin" THEN 0
                  ELSE IF e.ev = "Log" /\ Ok(e) /\ sinceStart = 0 /\ ~c.rot /\ ~c.append THEN Len(acc)
                  ELSE base
       /\ CASE e.ev = "Begin" ->
              /\ c' = e.norm /\ acc' = <<>> /\ forced' = {} /\ runs' = 0 /\ live' = FALSE
              /\ extgone' = {} /\ sinceStart' = 0
         [] e.ev = "Start" /\ Ok(e) ->
              /\ runs' = runs + 1 /\ live' = TRUE /\ sinceStart' = 0
              /\ c' = [c EXCEPT !.append = e.append]
              /\ forced' = IF ~e.append THEN forced \cup {Len(acc)} ELSE forced
              /\ UNCHANGED <<acc, extgone>>
         [] e.ev = "Log" /\ Ok(e) ->
              /\ acc' = Append(acc, <<e.id, e.len>>) /\ sinceStart' = sinceStart + 1
              /\ UNCHANGED <<c, forced, runs, live, extgone>>
         [] e.ev = "Trigger" /\ Ok(e) ->
              /\ forced' = forced \cup {Len(acc)}
              /\ UNCHANGED <<c, acc, runs, live, extgone, sinceStart>>
         [] e.ev = "Stop" ->
              /\ live' = FALSE /\ UNCHANGED <<c, acc, forced, runs, extgone, sinceStart>>
         [] e.ev \in {"ExtRemove", "ExtRename"} /\ Ok(e) ->
              /\ extgone' = extgone \cup UNION {IdsIn(f.recs) : f \in ToSet(FileNamed(prev, e.file))}
              /\ UNCHANGED <<c, acc, forced, runs, live, sinceStart>>
         [] OTHER -> UNCHANGED <<c, acc, forced, runs, live, extgone, sinceStart>>

\* the event just consumed, for checks evaluated in the successor state
Chk(e, name, ok) == IF ok THEN TRUE ELSE PrintT(<<"BAD", e.sc, e.n, name>>)
Cnt(i, cond) == IF cond THEN TLCSet(i, TLCGet(i) + 1) ELSE TRUE
Counters == [i \in 1..NCounters |-> TLCGet(i)]
AtEnd == l = Len(Rec)
Finish == IF AtEnd THEN PrintT(<<"COUNTS", Counters>>) /\ PrintT(<<"CONSUMED", l>>) ELSE TRUE

HasObs(e) == e.ev # "Begin" /\ e.o
\* flush() of the asynchronous mode only enqueues a request, so it is no synchronisation point there
SyncEv(e) == Ok(e) /\ (e.ev \in {"Stop", "Shutdown"} \/ (e.ev = "Flush" /\ c.mode # "async"))
=============================================================================
