------------------------------- MODULE MCFlw -------------------------------
(* Bounded instances of Flw for TLC. One module, several .cfg files.        *)
EXTENDS Flw, Json

Base == [naming |-> "Num", rot |-> TRUE, gran |-> 1, clean |-> FALSE, k |-> 0, m |-> 0, age |-> "-", size |-> -1,
         cap |-> 0, append |-> FALSE]
AllFixes == {"gz_index", "tsd_start", "numd_append_gz"}
Namings == {"Num", "NumD", "Ts", "TsD"}

\* ---- C01 / C08 domain: one run, no cleanup
Cfgs_C01 ==
    { [Base EXCEPT !.naming = nm, !.size = sz, !.age = ag, !.cap = cp] :
        nm \in Namings, sz \in {-1, 10}, ag \in {"-", "s"}, cp \in {0, 8, 16} }
    \cup { [Base EXCEPT !.rot = FALSE, !.naming = "Num", !.cap = cp] : cp \in {0, 8} }
Cfgs_C01q ==
    { [Base EXCEPT !.naming = nm, !.size = sz, !.age = ag, !.cap = cp] :
        nm \in Namings, sz \in {10}, ag \in {"-", "s"}, cp \in {0, 8} }
    \cup { [Base EXCEPT !.rot = FALSE, !.naming = "Num", !.cap = 8] }
Lens_C01 == {2, 6, 11}

\* ---- C08 domain: size criterion (also as age-or-size with a frozen clock), append restarts
Cfgs_C08 ==
    { [Base EXCEPT !.naming = nm, !.size = sz, !.age = ag, !.cap = cp] :
        nm \in Namings, sz \in {0, 10}, ag \in {"-", "d"}, cp \in {0, 8, 16} }
Cfgs_C08q ==
    { [Base EXCEPT !.naming = nm, !.size = sz, !.age = ag, !.cap = cp] :
        nm \in Namings, sz \in {0, 10}, ag \in {"-"}, cp \in {0, 8} }
Lens_C08 == {2, 10, 11, 31}

\* ---- restarts (C06), with and without cleanup (C07)
Cfgs_C06 ==
    { [Base EXCEPT !.naming = nm, !.size = 10] : nm \in Namings }
    \cup { [Base EXCEPT !.naming = nm, !.age = "s"] : nm \in {"Ts", "TsD"} }
    \cup { [Base EXCEPT !.rot = FALSE, !.naming = "Num"] }
    \cup { [Base EXCEPT !.naming = nm, !.size = 10, !.clean = TRUE, !.k = 1, !.m = 1] : nm \in Namings }
Lens_C06 == {9, 12}
Cfgs_C07q ==
    { [Base EXCEPT !.naming = nm, !.size = 10, !.clean = TRUE, !.k = kk, !.m = mm] :
        nm \in Namings, kk \in {0, 1}, mm \in {0, 1} }
Cfgs_C07 ==
    { [Base EXCEPT !.naming = nm, !.size = 10, !.clean = TRUE, !.k = kk, !.m = mm] :
        nm \in Namings, kk \in {0, 1, 2}, mm \in {0, 1} }

\* ---- C09 domain: age criterion around second/minute/hour/day/month/year boundaries
\* T0 = 2030-01-15 23:59:58 (civil seconds from 2030-01-01); +31 days = same day of month in February,
\* +365 days = same date in 2031
T0_C09  == 1295998
Dts_C09 == {1, 3600, 86400, 2678400, 31536000}
Lens_C09 == {9, 12}
Cfgs_C09 ==
    { [Base EXCEPT !.naming = nm, !.age = ag, !.size = sz, !.gran = g] :
        nm \in Namings, ag \in {"s", "m", "h", "d"}, sz \in {-1, 10}, g \in {1, 60} }
Cfgs_C09q ==
    { [Base EXCEPT !.naming = nm, !.age = ag] : nm \in Namings, ag \in {"s", "m", "h", "d"} }
    \cup { [Base EXCEPT !.naming = nm, !.age = "d", !.size = 10] : nm \in {"Ts", "NumD"} }
    \cup { [Base EXCEPT !.naming = nm, !.age = "h", !.gran = 60] : nm \in {"Ts", "TsD"} }
RepoFixes == AllFixes      \* deviations repaired in /repo (see known_findings.json)

\* ---- C18 domain: reopen after external rename/remove, reset to another family
Cfgs_C18 ==
    { [Base EXCEPT !.naming = nm, !.size = 20, !.cap = cp] : nm \in Namings, cp \in {0, 16} }
    \cup { [Base EXCEPT !.rot = FALSE, !.cap = cp] : cp \in {0, 16} }
Cfgs_C18q ==
    { [Base EXCEPT !.naming = nm, !.size = 20, !.cap = cp] : nm \in {"Num", "TsD"}, cp \in {0, 16} }
    \cup { [Base EXCEPT !.rot = FALSE, !.cap = cp] : cp \in {0, 16} }
Reset_C18 == { [Base EXCEPT !.naming = "NumD", !.size = 20], [Base EXCEPT !.rot = FALSE] }
NoReset == {}

\* state constraint: keep the directory and the counters small
Bound == /\ Cardinality(DOMAIN dir) <= 6
         /\ \A n \in DOMAIN dir : n.r <= 2

\* scenario generation: one line per distinct state (history hidden by the VIEW)
View == <<dir, files, w, clk, cfg, logged, wt, runs, trigs, advs, gone, okgone, forced, extgone, exts, moved, olddirs, sws, needReopen>>
Emit == GenHist => PrintT(<<"REPLAY", ToJson([cfg |-> cfg, t0 |-> T0, steps |-> hist])>>)
=============================================================================
