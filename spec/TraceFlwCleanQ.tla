--------------------------- MODULE TraceFlwCleanQ ---------------------------
(***************************************************************************)
(* Conform mode for the background cleanup thread: behaviours of            *)
(* FlwCleanQ.tla are stepped through the real code with the cleanup thread  *)
(* held at its hook points (in front of every recv, at the start of every   *)
(* run, in front of every file-system effect) and released one step at a    *)
(* time. Every event carries the action it stands for (q); the action must  *)
(* be enabled, and afterwards                                               *)
(*   - the rotated files that exist uncompressed / compressed must be       *)
(*     exactly the specification's sets plain / gz, and                     *)
(*   - the point at which the thread parked again must be the one the       *)
(*     specification's state predicts (the next effect of the run, the next *)
(*     recv, or the end of the thread).                                     *)
(* One TLC run per cleanup configuration (K, M are constants of FlwCleanQ). *)
(***************************************************************************)
EXTENDS FlwCleanQ, Json, IOUtils

Rec == ndJsonDeserialize(IOEnv.TRACE)
TrK == atoi(IOEnv.K)
TrM == atoi(IOEnv.M)
TrDirect == IOEnv.DIRECT = "1" 
VARIABLE l
tvars == <<vars, l>>
E == Rec[l]
Has(e, f) == f \in DOMAIN e

ObsPlain(e) == {e.obs.files[j].i : j \in {x \in 1..Len(e.obs.files) : e.obs.files[x].k = "num" /\ ~e.obs.files[x].z}}
ObsGz(e) == {e.obs.files[j].i : j \in {x \in 1..Len(e.obs.files) : e.obs.files[x].k = "num" /\ e.obs.files[x].z}}
Match(e) == Has(e, "obs") => (ObsPlain(e) = plain' /\ ObsGz(e) = gz')
\* where the specification expects the thread to stop next
ParkOf == CASE cst' = "got" -> "sc:cleanup_act"
            [] cst' = "wait" -> "sc:cleanup_wait"
            [] cst' = "dead" -> "exit"
            [] cst' = "run" -> IF Head(snap').pos >= KK + M THEN "fs:remove"
                               ELSE CASE zs' = 0 -> "fs:gz_create" [] zs' = 1 -> "fs:gz_copy"
                                      [] zs' = 2 -> "fs:gz_finish" [] OTHER -> "fs:remove_orig"

TInit == Init /\ l = 1
Reset == /\ plain' = (IF Direct THEN {0} ELSE {}) /\ gz' = {} /\ nrot' = 0 /\ chan' = <<>> /\ cst' = "wait" /\ snap' = <<>> /\ zs' = 0
         /\ app' = "run" /\ hist' = <<>>
TNext ==
    /\ l <= Len(Rec) /\ l' = l + 1
    /\ LET e == E IN
       /\ (IF e.ev = "Begin" THEN TRUE ELSE e.ret = "ok")
       /\ CASE e.ev = "Begin" -> Reset
            [] e.ev = "Trigger" -> Rotate /\ Match(e)
            [] e.ev = "CGo" -> /\ CASE e.q = "CRecv" -> CRecv [] e.q = "CList" -> CList [] e.q = "CStep" -> CStep
                               /\ Match(e) /\ e.at = ParkOf
            [] e.ev = "ShutdownBegin" -> Shutdown /\ Match(e)
            [] e.ev = "ShutdownEnd" -> Join /\ Match(e) /\ C07_LimitsAtShutdown'
            [] OTHER -> UNCHANGED vars
    /\ IF l = Len(Rec) THEN PrintT(<<"CONSUMED", l>>) ELSE TRUE
TSpec == TInit /\ [][TNext]_tvars
=============================================================================
