------------------------------- MODULE MonC06 -------------------------------
(* C06: restarting a logger never destroys or reorders earlier runs' records *)
EXTENDS MonBase

Eff(a, x) == SelectSeq(a, LAMBDA p : p[1] \notin x)      \* accepted, minus what the environment removed
FileWith(F, id) == SelectSeq(F, LAMBDA f : \E j \in 1..Len(f.recs) : f.recs[j][1] = id)
PrevCur(e) == FileNamed(prev, IF Len(prev) = 0 THEN "" ELSE e.pcur)

Check ==
    LET e == E
        a == Eff(acc', extgone')
    IN  IF ~HasObs(e) THEN TRUE ELSE
        LET F  == e.obs.files
            S  == Stream(F)
            cc == c'
        IN
        /\ Chk(e, "AllClean", AllClean(F))
        /\ Chk(e, "NoTwin", NoTwin(F))
        \* earlier rotated files are never altered, truncated or overwritten
        /\ Chk(e, "RotatedOnlyGrow", e.ev \in {"ExtRemove", "ExtRename"} \/ RotatedOnlyGrow(prev, F))
        /\ Cnt(1, TRUE)
        \* order and completeness of what is on disk
        /\ IF ~cc.rot
           THEN \* documented: a non-rotated file re-opened without append is truncated (at the first
                \* write of the run); `base` counts the records dropped that way
                LET exp == Eff(SubSeq(acc', base' + 1, Len(acc')), extgone') IN
                /\ Chk(e, "PlainFileContent", IsPrefix(S, exp))
                /\ IF SyncEv(e) \/ (cc.mode = "direct" /\ e.ev = "Log")
                   THEN Chk(e, "PlainFileComplete", S = exp) ELSE TRUE
           ELSE IF cc.clean
           THEN Chk(e, "OrderedInfix", IsInfix(S, a))
           ELSE /\ Chk(e, "StreamIsPrefix", IsPrefix(S, a))
                /\ IF SyncEv(e) \/ (cc.mode = "direct" /\ e.ev \in {"Log", "Trigger", "Start"})
                   THEN Chk(e, "StreamComplete", S = a) /\ Cnt(2, runs' > 1)
                   ELSE TRUE
        \* first record of a run, direct mode: where does it land?
        /\ IF e.ev = "Log" /\ Ok(e) /\ sinceStart' = 1 /\ cc.mode = "direct" /\ cc.rot /\ runs' > 1 /\ e.id > 0
           THEN LET fw == FileWith(F, e.id) IN
                IF Len(fw) # 1 THEN Chk(e, "FirstRecordOnDisk", FALSE) ELSE
                IF cc.append
                THEN \* continues the previous current file unless a rotation was due
                     LET pc == SelectSeq(prev, LAMBDA f : f.name = e.obs.pcur) IN
                     IF Len(pc) # 1 THEN Cnt(5, TRUE) ELSE
                     LET due == \/ (cc.size >= 0 /\ Bytes(pc[1].recs) > cc.size)
                                \/ (cc.age # "" /\ Period(cc.age, pc[1].bt) # Period(cc.age, e.t))
                     IN /\ Chk(e, "AppendContinues",
                               due \/ (SameName(fw[1], pc[1]) /\ IsPrefix(pc[1].recs, fw[1].recs)))
                        /\ Chk(e, "AppendRotatesWhenDue", ~due \/ Len(fw[1].recs) = 1)
                        /\ Cnt(3, ~due) /\ Cnt(4, due)
                ELSE \* without append the earlier current file is preserved; the new record starts a fresh file
                     Chk(e, "FreshFileWithoutAppend", Len(fw[1].recs) = 1) /\ Cnt(6, TRUE)
           ELSE TRUE

Init == BaseInit
Next == BaseStep /\ Check /\ Finish
Spec == Init /\ [][Next]_bvars
=============================================================================
