#!/usr/bin/env python3
"""Writes the MCFlw_*.cfg files from one table (run by hand after editing; the .cfg files are committed)."""
import os

HERE = os.path.dirname(os.path.abspath(__file__))
# name: (Cfgs, Lens, Dts, T0, MaxRecs, MaxRuns, MaxTrig, MaxExt, MaxAdv, invariants or None for generation)
C01I = ["C01_Prefix", "C01_Complete", "C01_Buffered", "C01_NoTwin", "C07_CurrentSafe", "C08_Partition", "C06_NoDestruction"]
C08I = ["C08_Partition", "C07_CurrentSafe", "C06_NoDestruction"]
C06I = ["C06_NoDestruction", "C06_Ordered", "C07_CurrentSafe", "C01_NoTwin"]
C07I = ["C07_Limits", "C07_Tail", "C07_CurrentSafe", "C01_NoTwin", "C06_NoDestruction"]
C09I = ["C09_OnePeriodPerFile", "C09_NoRotationInsidePeriod", "C09_TsNameIsStart", "C07_CurrentSafe", "C06_NoDestruction"]
T = {
    "C01q":    ("Cfgs_C01q", "Lens_C01", "{1}", 1000, 3, 1, 2, 0, 1, C01I),
    "C01t":    ("Cfgs_C01",  "Lens_C01", "{1}", 1000, 4, 1, 2, 0, 2, C01I),
    "C01gen":  ("Cfgs_C01q", "Lens_C01", "{1}", 1000, 3, 1, 1, 0, 1, None),
    "C01gent": ("Cfgs_C01",  "Lens_C01", "{1}", 1000, 4, 1, 2, 0, 1, None),
    "C08q":    ("Cfgs_C08q", "Lens_C08", "{1}", 1000, 4, 2, 0, 0, 0, C08I),
    "C08t":    ("Cfgs_C08",  "Lens_C08", "{1}", 1000, 5, 3, 0, 0, 0, C08I),
    "C08gen":  ("Cfgs_C08q", "Lens_C08", "{1}", 1000, 3, 2, 0, 0, 0, None),
    "C08gent": ("Cfgs_C08",  "Lens_C08", "{1}", 1000, 4, 2, 0, 0, 0, None),
    "C06q":    ("Cfgs_C06",  "Lens_C06", "{1}", 1000, 3, 3, 1, 1, 1, C06I),
    "C06t":    ("Cfgs_C06",  "Lens_C06", "{1}", 1000, 4, 3, 1, 1, 1, C06I),
    "C06gen":  ("Cfgs_C06",  "Lens_C06", "{1}", 1000, 2, 3, 1, 1, 1, None),
    "C06gent": ("Cfgs_C06",  "Lens_C06", "{1}", 1000, 3, 3, 1, 1, 1, None),
    "C07q":    ("Cfgs_C07q", "Lens_C06", "{1}", 1000, 3, 2, 2, 0, 1, C07I),
    "C07t":    ("Cfgs_C07",  "Lens_C06", "{1}", 1000, 4, 2, 2, 1, 1, C07I),
    "C07gen":  ("Cfgs_C07q", "Lens_C06", "{1}", 1000, 3, 2, 2, 0, 1, None),
    "C07gent": ("Cfgs_C07q", "Lens_C06", "{1}", 1000, 4, 2, 2, 0, 1, None),
    "C09q":    ("Cfgs_C09q", "Lens_C09", "Dts_C09", "T0_C09", 3, 2, 0, 0, 2, C09I),
    "C09t":    ("Cfgs_C09q", "Lens_C09", "Dts_C09", "T0_C09", 3, 2, 0, 0, 3, C09I),
    "C09gen":  ("Cfgs_C09q", "Lens_C09", "Dts_C09", "T0_C09", 2, 2, 0, 0, 2, None),
    "C09gent": ("Cfgs_C09q", "Lens_C09", "Dts_C09", "T0_C09", 3, 2, 0, 0, 2, None),
}
C18I = ["C18_ExactlyOnce", "C18_OrderedParts", "C07_CurrentSafeSw", "C06_NoDestruction"]
SW = {  # name: (MaxSw, ResetCfgs)
    "C18q": (2, "Reset_C18"), "C18t": (3, "Reset_C18"), "C18gen": (2, "Reset_C18"), "C18gent": (2, "Reset_C18"),
}
T.update({
    "C18q":    ("Cfgs_C18q", "Lens_C06", "{1}", 1000, 3, 1, 1, 0, 0, C18I),
    "C18t":    ("Cfgs_C18",  "Lens_C06", "{1}", 1000, 4, 1, 1, 0, 0, C18I),
    "C18gen":  ("Cfgs_C18q", "Lens_C06", "{1}", 1000, 3, 1, 1, 0, 0, None),
    "C18gent": ("Cfgs_C18",  "Lens_C06", "{1}", 1000, 3, 1, 1, 0, 0, None),
})
for name, (cfgs, lens, dts, t0, recs, runs, trig, ext, adv, inv) in T.items():
    lines = ["SPECIFICATION Spec", "CONSTANTS", f"  Cfgs <- {cfgs}", f"  Lens <- {lens}"]
    lines.append(f"  Dts = {dts}" if dts.startswith("{") else f"  Dts <- {dts}")
    lines.append(f"  T0 = {t0}" if isinstance(t0, int) else f"  T0 <- {t0}")
    sw, rc = SW.get(name, (0, "NoReset"))
    lines += [f"  MaxSw = {sw}", f"  ResetCfgs <- {rc}"]
    lines += [f"  MaxRecs = {recs}", f"  MaxRuns = {runs}", f"  MaxTrig = {trig}", f"  MaxExt = {ext}", f"  MaxAdv = {adv}",
              "  Fixes <- RepoFixes" if inv is None else "  Fixes <- AllFixes",
              f"  GenHist = {'TRUE' if inv is None else 'FALSE'}"]
    if inv is None:
        lines += ["INVARIANT Emit", "VIEW View"]
    else:
        lines += [f"INVARIANT {i}" for i in inv]
    lines += ["CONSTRAINT Bound", "CHECK_DEADLOCK FALSE", ""]
    open(os.path.join(HERE, f"MCFlw_{name}.cfg"), "w").write("\n".join(lines))
print("wrote", len(T), "cfg files")
