SPECIFICATION Spec
CONSTANTS
  Mode = "toks"
  Alphabet <- A_7
  MaxLen = 7
  NameSeq <- N3
  GenHist = TRUE
INVARIANT Emit
CHECK_DEADLOCK FALSE
