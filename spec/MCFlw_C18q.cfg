SPECIFICATION Spec
CONSTANTS
  Cfgs <- Cfgs_C18q
  Lens <- Lens_C06
  Dts = {1}
  T0 = 1000
  MaxSw = 2
  ResetCfgs <- Reset_C18
  MaxRecs = 3
  MaxRuns = 1
  MaxTrig = 1
  MaxExt = 0
  MaxAdv = 0
  Fixes <- AllFixes
  GenHist = FALSE
INVARIANT C18_ExactlyOnce
INVARIANT C18_OrderedParts
INVARIANT C07_CurrentSafeSw
INVARIANT C06_NoDestruction
CONSTRAINT Bound
CHECK_DEADLOCK FALSE
