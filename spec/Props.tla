------------------------------- MODULE Props -------------------------------
(***************************************************************************)
(* Property predicates of the file-writer properties, written over an      *)
(* OBSERVATION: a sequence of files, each a record                          *)
(*    [k |-> "cur"|"plain"|"num"|"ts", i |-> Int, r |-> Int, z |-> BOOLEAN, *)
(*     recs |-> Seq(<<id, len>>), clean |-> BOOLEAN]                        *)
(* and over the sequence `acc` of accepted records <<id, len>>.             *)
(* The same operators are evaluated (a) by the model checker on the         *)
(* projection of the modelled state of Flw.tla and (b) by the monitors on   *)
(* the projection recorded from the real code.                              *)
(***************************************************************************)
EXTENDS Naturals, Integers, Sequences, FiniteSets, SequencesExt

IsRot(f)  == f.k \in {"num", "ts"}
IsCur(f)  == f.k \in {"cur", "plain"}
\* path order of rotated files = (index or timestamp, restart number)
Less(a, b) == a.i < b.i \/ (a.i = b.i /\ a.r < b.r)

RECURSIVE Insert(_, _)
Insert(x, s) == IF s = <<>> THEN <<x>>
                ELSE IF Less(x, Head(s)) THEN <<x>> \o s
                ELSE <<Head(s)>> \o Insert(x, Tail(s))
RECURSIVE Sort(_)
Sort(s) == IF s = <<>> THEN <<>> ELSE Insert(Head(s), Sort(Tail(s)))

\* oldest rotated file first, current file last
ReadOrder(F) == Sort(SelectSeq(F, IsRot)) \o SelectSeq(F, IsCur)

RECURSIVE CatRecs(_)
CatRecs(F) == IF F = <<>> THEN <<>> ELSE Head(F).recs \o CatRecs(Tail(F))
Stream(F) == CatRecs(ReadOrder(F))

RECURSIVE SumLen(_, _)
SumLen(recs, n) == IF n = 0 THEN 0 ELSE recs[n][2] + SumLen(recs, n - 1)
Bytes(recs) == SumLen(recs, Len(recs))

(***************************************************************************)
(* C01                                                                     *)
(***************************************************************************)
AllClean(F)        == \A j \in 1..Len(F) : F[j].clean
StreamIsPrefix(F, acc) == IsPrefix(Stream(F), acc)
StreamComplete(F, acc) == Stream(F) = acc
\* a rotated name is never both plain and compressed, and never listed twice
NoTwin(F) == \A a, b \in 1..Len(F) :
               (a # b /\ IsRot(F[a]) /\ IsRot(F[b])) => ~(F[a].i = F[b].i /\ F[a].r = F[b].r)

(***************************************************************************)
(* C08: partition predicate. N = size limit; `forced` = stream positions    *)
(* after which a file boundary is legitimate although the size condition    *)
(* does not hold (restart without append, explicit rotation).               *)
(***************************************************************************)
RECURSIVE StartPos(_, _)
StartPos(RO, j) == IF j = 1 THEN 0 ELSE StartPos(RO, j - 1) + Len(RO[j-1].recs)
NotAppendedWhenOver(f, N) == Len(f.recs) = 0 \/ SumLen(f.recs, Len(f.recs) - 1) <= N
NotClosedEarly(RO, j, N, forced) ==
    \/ j = Len(RO)
    \/ Bytes(RO[j].recs) > N
    \/ (StartPos(RO, j) + Len(RO[j].recs)) \in forced
SizePartition(F, N, forced) ==
    LET RO == ReadOrder(F) IN
    \A j \in 1..Len(RO) : NotAppendedWhenOver(RO[j], N) /\ NotClosedEarly(RO, j, N, forced)
(***************************************************************************)
(* C06 / C07: order, immutability of rotated files, contiguity              *)
(***************************************************************************)
\* s is a contiguous piece of t
IsInfix(s, t) == \E a \in 0..Len(t) : a + Len(s) <= Len(t) /\ s = SubSeq(t, a + 1, a + Len(s))
SameName(a, b) == a.k = b.k /\ a.i = b.i /\ a.r = b.r
\* a rotated file (plain or compressed) present in two consecutive observations only ever grows
RotatedOnlyGrow(P, F) ==
    \A a \in 1..Len(P), b \in 1..Len(F) :
        (IsRot(P[a]) /\ SameName(P[a], F[b])) => IsPrefix(P[a].recs, F[b].recs)
AgeLen(a)    == CASE a = "s" -> 1 [] a = "m" -> 60 [] a = "h" -> 3600 [] a = "d" -> 86400 [] OTHER -> 1
Period(a, t) == t \div AgeLen(a)
(***************************************************************************)
(* C09: age criterion. Files carry their (virtual) birth time `bt`; wt[id]  *)
(* is the instant at which record id was written (ids > 0 only).            *)
(***************************************************************************)
\* no file holds records written in a period other than the one in which it was started
OnePeriodPerFile(F, age, wt) ==
    \A j \in 1..Len(F) : (~F[j].z) =>
        \A q \in 1..Len(F[j].recs) :
            LET id == F[j].recs[q][1] IN
            (id > 0 /\ id <= Len(wt)) => Period(age, wt[id]) = Period(age, F[j].bt)
\* no rotation within a period: consecutive files were started in different periods, unless the
\* boundary is forced (restart without append, explicit rotation) or explained by the size criterion
NoRotationInsidePeriod(F, age, N, forced) ==
    LET RO == ReadOrder(SelectSeq(F, LAMBDA f : ~f.z)) IN
    \A j \in 1..Len(RO) - 1 :
        \/ Period(age, RO[j].bt) # Period(age, RO[j+1].bt)
        \/ (StartPos(RO, j) + Len(RO[j].recs)) \in forced
        \/ (N >= 0 /\ Bytes(RO[j].recs) > N)
\* a timestamp-named file carries the time at which its content was started
TsNameIsStart(F, gran) ==
    \A j \in 1..Len(F) : (F[j].k = "ts" /\ ~F[j].z) => F[j].i = (F[j].bt \div gran) * gran
\* the same when the name is rendered in a zone that lies `off` seconds west of the clock's zone (use_utc)
TsNameIsStartOff(F, gran, off) ==
    \A j \in 1..Len(F) : (F[j].k = "ts" /\ ~F[j].z) => F[j].i = ((F[j].bt - off) \div gran) * gran
(***************************************************************************)
(* C18: sequences of records <<id,len>>                                     *)
(***************************************************************************)
Ascending(s) == \A a, b \in 1..Len(s) : a < b => s[a][1] < s[b][1]
\* s holds exactly the records of t, each once (order free)
SameElementsOnce(s, t) == /\ Len(s) = Len(t)
                          /\ \A a \in 1..Len(t) : \E b \in 1..Len(s) : s[b] = t[a]
                          /\ \A a, b \in 1..Len(s) : a # b => s[a][1] # s[b][1]
(***************************************************************************)
(* C11 / C19: a failed or interrupted compression leaves the original file  *)
(* next to an unfinished .gz twin; the twin is not part of the stream.      *)
(***************************************************************************)
HasPlainTwin(F, f) == \E j \in 1..Len(F) : SameName(F[j], f) /\ ~F[j].z
Untwin(F) == SelectSeq(F, LAMBDA f : ~(f.z /\ HasPlainTwin(F, f)))
=============================================================================
