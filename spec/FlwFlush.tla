------------------------------ MODULE FlwFlush ------------------------------
(***************************************************************************)
(* FlwConc.tla plus the FLUSHER thread of WriteMode::BufferAndFlush and of  *)
(* WriteMode::Async with a flush interval (state.rs start_sync_flusher,     *)
(* start_async_fs_flusher): a thread that never ends - it holds a clone of  *)
(* the Arc around the state (sync) resp. of the sender (async) - and every  *)
(* interval                                                                *)
(*   sync   locks the state and flushes the BufWriter                       *)
(*   async  sends a Flush message (ignored when the writer thread is gone)  *)
(* at any moment: between any two steps of the logging threads, during and  *)
(* AFTER shutdown(). All invariants of FlwConc must survive it; in addition  *)
(* the output may only ever grow at its end (AppendOnly), whoever flushes.   *)
(* Variant "shutdown_no_flush" (hypothetical; the seeded changes C04-A/C,    *)
(* C15-B/D, C06-K are of this kind): shutdown() of the sync modes forgets    *)
(* the final flush - C04_AfterShutdown must fail, and the flusher writes the *)
(* leftover later, i.e. after whatever a restarted logger has appended.      *)
(***************************************************************************)
EXTENDS FlwConc

CONSTANTS MaxTicks, FVariant
VARIABLE ticks
fvars == <<vars, ticks>>

FInit == Init /\ ticks = 0

FlusherTick ==
    /\ ticks < MaxTicks /\ ticks' = ticks + 1
    /\ IF Async
       THEN /\ q' = IF alive THEN Append(q, FlushMsg) ELSE q
            /\ UNCHANGED <<file, wbuf>>
       ELSE /\ file' = file \o wbuf /\ wbuf' = <<>> /\ q' = q
    /\ UNCHANGED <<pc, cnt, alive, joinable, clones, app, acked, ackAtShut, ackAtFlush, flushed, lostOk, ops, hist>>

\* the variant: shutdown() of the synchronous modes without the final flush
ShutdownNoFlush == /\ FVariant = "shutdown_no_flush" /\ ~Async /\ app = "run"
                   /\ ackAtShut' = acked /\ app' = "down"
                   /\ UNCHANGED <<pc, cnt, file, wbuf, q, alive, joinable, clones, acked, ackAtFlush, flushed, lostOk, ops, hist>>

FNext == \/ (IF FVariant = "shutdown_no_flush" /\ ~Async
             THEN ((\E p \in Producers : Format(p) \/ WriteSync(p)) \/ Flush \/ ShutdownNoFlush \/ Clone \/ DropClone)
             ELSE Next) /\ UNCHANGED ticks
         \/ FlusherTick
FSpec == FInit /\ [][FNext]_fvars /\ WF_fvars(Recv /\ UNCHANGED ticks) /\ WF_fvars(Join /\ UNCHANGED ticks)

\* the output only grows at its end
AppendOnly == [][IsPrefix(file, file')]_fvars
\* what is in the buffer and on disk together is always the accepted records in acceptance order, exactly once
NothingInLimbo == ~Async => (\A id \in acked : id \in OnDisk \/ \E j \in 1..Len(wbuf) : wbuf[j] = id)
FShutdownReturns == (app = "shutting") ~> (app = "down")
=============================================================================
