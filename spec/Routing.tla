------------------------------- MODULE Routing -------------------------------
(***************************************************************************)
(* Routing of one log record inside flexi_logger 0.30.1 (C13) and the       *)
(* fan-out of its bytes to the outputs (C20), written to be bound to the    *)
(* code: one action per public call, following the code branch by branch    *)
(* (file:line references are to /repo/src).                                 *)
(*                                                                         *)
(*   Log      FlexiLogger::log                (flexi_logger.rs:82)          *)
(*            MultiWriter::write              (primary_writer/multi_writer.rs:134) *)
(*            FileLogWriter::write            (writers/file_log_writer.rs:161)     *)
(*            SyslogWriter::write             (writers/syslog/writer.rs:68)        *)
(*   AdaptErr / AdaptOut  LoggerHandle::adapt_duplication_to_stderr/_stdout *)
(*   SetSpec  LoggerHandle::set_new_spec                                    *)
(*                                                                         *)
(* Behaviour of the code that contradicts C13 is modelled AS CODED; the     *)
(* intended behaviour sits behind `name \in Fixes` (named deviations):      *)
(*   "syslog_ceiling"  SyslogWriter::write never looks at max_log_level     *)
(*   "dup_names"       a name that occurs twice in the list is served twice *)
(* The property itself (Deliver and the predicates over an outcome) lives   *)
(* in RouteProps.tla and is shared with the monitors.                       *)
(***************************************************************************)
EXTENDS RouteProps, TLC

CONSTANTS Cfgs,      \* configurations: [writers, primary, dupe0, dupo0, spec0, ...pass-through fields];
                     \* primary = default channel: "file" (log_to_file), "pw" (log_to_writer), "both"
                     \* (log_to_file_and_writer), "none" (do_not_log), "stdout", "stderr"
          Targets,   \* targets a Log step may use ([brace, toks, plain])
          Lvls,      \* record levels (subset of 1..5)
          Mods,      \* module paths of records ("" = absent)
          Shapes,    \* record shapes [cls, hf, hl, kv, rec]: message class, file / line present,
                     \* number of key-value pairs, recursive (its Display implementation logs);
                     \* only `rec` matters to the model, the rest is enumerated for the harness
          Specs,     \* specifications SetSpec may install
          Dups,      \* Duplicate values the Adapt steps may install (subset of 0..6)
          MaxRecs, MaxAdapt, MaxSet,   \* bounds on Log / Adapt* / SetSpec steps
          Counting,  \* TRUE: the step counters tick and bound the behaviours (scenario generation);
                     \* FALSE: counters and clock frozen, behaviours are (Adapt | SetSpec)* Log - the state
                     \* space <<cfg, spec, dupe, dupo, last>> is finite by itself and explored completely
          Admit(_, _, _, _),   \* restriction of the Log arguments (TRUE = full cross product)
          Fixes,     \* names of deviations assumed repaired
          GenHist    \* TRUE: keep the action history (scenario generation)

VARIABLES cfg,       \* the configuration the logger was built with
          spec,      \* active log specification
          dupe, dupo,\* current duplication levels
          clk,       \* virtual clock in auto-tick mode: every read advances it by one
          nrec, nadapt, nset,
          last,      \* what the last Log step did: arguments, outcome, chunks per output
          hist
vars == <<cfg, spec, dupe, dupo, clk, nrec, nadapt, nset, last, hist>>

AllOutputs(c) == Names(c.writers) \cup {"err", "out", "file", "pw"}
HasFile(c)    == c.primary \in {"file", "both"}
HasPw(c)      == c.primary \in {"pw", "both"}

(***************************************************************************)
(* The code                                                                 *)
(***************************************************************************)
\* multi_writer.rs:135 / :159 - the match on Duplicate, transcribed
DupCoded(d, lvl) == CASE d = 0 -> FALSE
                      [] d = 1 -> lvl = 1
                      [] d \in {2, 3, 4} -> lvl <= d
                      [] OTHER -> TRUE

RECURSIVE FirstOccurrences(_)
FirstOccurrences(s) == IF s = <<>> THEN <<>>
                       ELSE LET front == SubSeq(s, 1, Len(s) - 1)
                                r     == FirstOccurrences(front)
                            IN IF s[Len(s)] \in ToSet(front) THEN r ELSE Append(r, s[Len(s)])

\* does writer n emit a record of level lvl that it was handed?
PassesCoded(W, n, lvl) ==
    LET w == WriterOf(W, n) IN
    CASE w.kind = "rec"    -> TRUE
      [] w.kind = "flw"    -> lvl <= w.ceil                              \* file_log_writer.rs:162
      [] w.kind = "syslog" -> IF "syslog_ceiling" \in Fixes THEN lvl <= w.ceil
                              ELSE TRUE                                  \* syslog/writer.rs:68: no check
      [] OTHER -> TRUE

\* FlexiLogger::log: the outputs that receive the record, in the order in which the code writes them,
\* and the names reported on the error channel
Route(c, tg, lvl, mod, sp, de, do) ==
    LET W      == c.writers
        \* target[1..len-1].split(','): "{}" yields one empty name
        toks   == IF ~tg.brace THEN <<>> ELSE IF tg.toks = <<>> THEN <<"">> ELSE tg.toks
        named  == SelectSeq(toks, LAMBDA t : t \in Names(W))
        served == IF "dup_names" \in Fixes THEN FirstOccurrences(named) ELSE named
        add    == SelectSeq(served, LAMBDA n : PassesCoded(W, n, lvl))
        usedef == IF tg.brace THEN DEFAULT \in ToSet(toks) ELSE TRUE
        effmod == IF tg.brace THEN mod ELSE tg.plain          \* flexi_logger.rs:116
        def    == usedef /\ Enabled(sp, lvl, effmod)
        defouts == IF ~def THEN <<>>
                   ELSE IF c.primary = "stdout" THEN <<"out">>     \* PrimaryWriter::Std: no duplication
                   ELSE IF c.primary = "stderr" THEN <<"err">>
                   ELSE (IF DupCoded(de, lvl) THEN <<"err">> ELSE <<>>)
                        \o (IF DupCoded(do, lvl) THEN <<"out">> ELSE <<>>)
                        \o (IF HasFile(c) THEN <<"file">> ELSE <<>>)
                        \o (IF HasPw(c) THEN <<"pw">> ELSE <<>>)
    IN [outs |-> add \o defouts,
        errs |-> SelectSeq(toks, LAMBDA t : t \notin Names(W) \cup {DEFAULT})]

Outcome(c, r) ==
    [got  |-> [n \in Names(c.writers) |-> Occurs(r.outs, n)],
     file |-> IF HasFile(c) THEN Occurs(r.outs, "file") ELSE -1,
     pw   |-> IF HasPw(c) THEN Occurs(r.outs, "pw") ELSE -1,
     \* stderr / stdout exist in every configuration: as duplicates (LogTarget::Multi) or as the default
     \* channel itself (primary "stderr" / "stdout": LogTarget::StdErr / StdOut, PrimaryWriter::Std)
     err  |-> Occurs(r.outs, "err"),
     out  |-> Occurs(r.outs, "out"),
     errs |-> r.errs]

(***************************************************************************)
(* Fan-out: every output formats the record itself and appends its own line *)
(* ending; the timestamp is read once per record (DeferredNow, handed to    *)
(* every output: flexi_logger.rs:84). A recursive record (its Display       *)
(* implementation logs an inner record with a plain target) is formatted    *)
(* once per output, so each output of the outer record triggers one inner   *)
(* record, which is written completely - through the fall-back buffers of   *)
(* util.rs:186 / state_handle.rs:210 - before the outer line.               *)
(***************************************************************************)
RECURSIVE AddFrames(_, _, _, _)
AddFrames(S, outs, rid, ts) ==
    IF outs = <<>> THEN S
    ELSE AddFrames([S EXCEPT ![Head(outs)] = @ \o Frame(Head(outs), rid, ts)], Tail(outs), rid, ts)

RECURSIVE Fan(_, _, _, _, _, _)
Fan(S, outs, i, rid, ts, inner) ==      \* inner = <<>>: not recursive
    IF i > Len(outs) THEN S
    ELSE LET S1 == IF inner = <<>> THEN S ELSE AddFrames(S, inner, rid * 10 + i, ts + i)
             S2 == [S1 EXCEPT ![outs[i]] = @ \o Frame(outs[i], rid, ts)]
         IN Fan(S2, outs, i + 1, rid, ts, inner)

InnerTarget == [brace |-> FALSE, toks |-> <<>>, plain |-> "m"]

(***************************************************************************)
(* Actions                                                                 *)
(***************************************************************************)
H(e) == IF GenHist THEN Append(hist, e) ELSE hist
NoLast == [none |-> TRUE]

Init == /\ cfg \in Cfgs
        /\ spec = cfg.spec0 /\ dupe = cfg.dupe0 /\ dupo = cfg.dupo0
        /\ clk = 0 /\ nrec = 0 /\ nadapt = 0 /\ nset = 0 /\ last = NoLast /\ hist = <<>>

Tick(n) == IF Counting THEN n + 1 ELSE n
Log(tg, lvl, mod, sh) ==
    /\ IF Counting THEN nrec < MaxRecs ELSE last.none
    /\ Admit(tg, lvl, mod, sh)
    /\ LET r     == Route(cfg, tg, lvl, mod, spec, dupe, dupo)
           inner == IF sh.rec THEN Route(cfg, InnerTarget, lvl, "m", spec, dupe, dupo).outs ELSE <<>>
           rid   == nrec + 1
           S0    == [o \in AllOutputs(cfg) |-> <<>>]
           reads == 1 + (IF sh.rec /\ inner # <<>> THEN Len(r.outs) ELSE 0)
       IN /\ last' = [none |-> FALSE, tg |-> tg, lvl |-> lvl, mod |-> mod, sh |-> sh, spec |-> spec, dupe |-> dupe,
                      dupo |-> dupo, rid |-> rid, o |-> Outcome(cfg, r),
                      S |-> Fan(S0, r.outs, 1, rid, clk, inner)]
          /\ clk' = IF Counting THEN clk + reads ELSE clk
    /\ nrec' = Tick(nrec)
    /\ hist' = H([op |-> "Log", brace |-> tg.brace, toks |-> tg.toks, plain |-> tg.plain, lvl |-> lvl,
                  mod |-> mod, cls |-> sh.cls, hf |-> sh.hf, hl |-> sh.hl, kv |-> sh.kv, rec |-> sh.rec])
    /\ UNCHANGED <<cfg, spec, dupe, dupo, nadapt, nset>>

\* logger_handle.rs:391: adapt_duplication_to_* is refused unless the primary writer is a MultiWriter
Adaptable == cfg.primary \notin StdPrimaries
AdaptErr(d) == /\ Adaptable
               /\ IF Counting THEN nadapt < MaxAdapt ELSE last.none
               /\ d # dupe
               /\ dupe' = d /\ nadapt' = Tick(nadapt)
               /\ hist' = H([op |-> "AdaptErr", d |-> d])
               /\ UNCHANGED <<cfg, spec, dupo, clk, nrec, nset, last>>
AdaptOut(d) == /\ Adaptable
               /\ IF Counting THEN nadapt < MaxAdapt ELSE last.none
               /\ d # dupo
               /\ dupo' = d /\ nadapt' = Tick(nadapt)
               /\ hist' = H([op |-> "AdaptOut", d |-> d])
               /\ UNCHANGED <<cfg, spec, dupe, clk, nrec, nset, last>>
SetSpec(s)  == /\ IF Counting THEN nset < MaxSet ELSE last.none
               /\ s # spec
               /\ spec' = s /\ nset' = Tick(nset)
               /\ hist' = H([op |-> "SetSpec", dflt |-> s.dflt, m |-> s.m])
               /\ UNCHANGED <<cfg, dupe, dupo, clk, nrec, nadapt, last>>

Next == \/ \E tg \in Targets, lvl \in Lvls, mod \in Mods, sh \in Shapes : Log(tg, lvl, mod, sh)
        \/ \E d \in Dups : AdaptErr(d) \/ AdaptOut(d)
        \/ \E s \in Specs : SetSpec(s)

Spec == Init /\ [][Next]_vars

(***************************************************************************)
(* Properties: the outcome of every Log step satisfies the predicates of    *)
(* RouteProps.tla for the configuration and the CURRENT (adapted) settings. *)
(***************************************************************************)
Was == ~last.none
D   == Deliver(cfg.writers, last.tg, last.lvl, last.mod, last.spec, last.dupe, last.dupo)
C13_NamedExactlyOnce == Was => NamedExactlyOnce(cfg.writers, last.tg, last.lvl, last.o)
C13_NotNamedNothing  == Was => NotNamedNothing(cfg.writers, last.tg, last.o)
C13_CeilingRespected == Was => CeilingRespected(cfg.writers, last.lvl, last.o)
C13_DefaultIff       == Was => DefaultIff(cfg.primary, D, last.o)
C13_DupIff           == Was => DupErrIff(cfg.primary, D, last.o) /\ DupOutIff(cfg.primary, D, last.o)
C13_Unknown          == Was => UnknownReported(D, last.o) /\ NoSpuriousReport(cfg.writers, last.o)
C13_All == /\ C13_NamedExactlyOnce /\ C13_NotNamedNothing /\ C13_CeilingRespected
           /\ C13_DefaultIff /\ C13_DupIff /\ C13_Unknown

\* C20: every output holds whole frames only (format output + ONE line ending, also on the recursion
\* path), and all chunks of one record carry one timestamp although the clock advances at every read
C20_Framed       == Was => \A o \in DOMAIN last.S : Framed(o, last.S[o])
C20_OneTimestamp == Was => OneTimestamp(last.S)
\* the fan-out reaches exactly the outputs the routing selected (frames per output = outcome counts)
C20_FanOut == Was => /\ \A n \in Names(cfg.writers) : FramesOf(last.S[n], last.rid) = last.o.got[n]
                     /\ FramesOf(last.S["err"], last.rid) = last.o.err
                     /\ FramesOf(last.S["out"], last.rid) = last.o.out
                     /\ HasFile(cfg) => FramesOf(last.S["file"], last.rid) = last.o.file
                     /\ HasPw(cfg) => FramesOf(last.S["pw"], last.rid) = last.o.pw
=============================================================================
