SPECIFICATION Spec
CONSTANTS
  NRot = 5
  K = 1
  M = 1
  Variant = "as_coded"
  Direct = FALSE
  GenHist = FALSE
INVARIANT C07_LimitsAtShutdown
INVARIANT C07_NotRemovedEarly
INVARIANT C07_NotCompressedEarly
INVARIANT C07_OriginalUntilFinished
INVARIANT C07_CurrentSafe
PROPERTY C07_ShutdownReturns
VIEW View
CHECK_DEADLOCK FALSE
