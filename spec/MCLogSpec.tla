------------------------------ MODULE MCLogSpec ------------------------------
(* Bounded instances of LogSpec for TLC. One module, several .cfg files.       *)
EXTENDS LogSpec, Json

CONSTANTS SpecNames,   \* sequence of module names of the specification universe SpecsU
          SpecREs      \* text filters of the universe (<<"-">> = none)

AllFixes  == {"parse_push_order", "enabled_lt", "enabled_default", "empty_name"}
RepoFixes == {"parse_push_order", "enabled_lt", "enabled_default"}   \* deviations repaired in /repo (see known_findings.json)
NoWriter  == {[on |-> FALSE, c |-> 0]}
Ceilings  == {[on |-> TRUE, c |-> c] : c \in {0, 1, 3, 5}}
NoProgs   == {<<>>}

\* ---- specification universes: every name absent (-1) or one of the six level filters, default likewise
SpecOf(NS, g, d, re) ==
    LET idx == SelectSeq([i \in 1..Len(NS) |-> i], LAMBDA i : g[i] >= 0) IN
    [f |-> [j \in DOMAIN idx |-> [n |-> NS[idx[j]], l |-> g[idx[j]]]], d |-> d,
     hasre |-> re # <<"-">>, re |-> IF re = <<"-">> THEN <<>> ELSE re]
SpecsOver(NS, REs) == {SpecOf(NS, g, d, re) : g \in [1..Len(NS) -> -1..5], d \in -1..5, re \in REs}
N2 == << <<"a">>, <<"a", "b">> >>
N3 == << <<"a">>, <<"a", "b">>, <<"info">> >>
N5 == << <<"a">>, <<"a", "b">>, <<"a", "::", "b">>, <<"b">>, <<"info">> >>
RE0 == {<<"-">>}
RE2 == {<<"-">>, <<"a", "b">>}
\* (not evaluated unless a configuration uses it: TLC would otherwise enumerate the large universes at start-up)
SpecsU == SpecsOver(SpecNames, SpecREs)

Mods == << <<"a">>, <<"a", "b">>, <<"a", "::", "b">>, <<"a", "::", "b", "::", "c">>, <<"a", "b", "c">>,
           <<"b">>, <<"b", "a">>, <<"info">>, <<"info", "::", "a">>, <<"c">>, <<>> >>
PlainTargets == [i \in DOMAIN Mods |-> PlainT(Mods[i])]
BraceTargets == << [w |-> TRUE, d |-> FALSE, m |-> <<"a">>], [w |-> TRUE, d |-> TRUE, m |-> <<"a">>],
                   [w |-> TRUE, d |-> TRUE, m |-> <<"a", "b", "c">>], [w |-> TRUE, d |-> TRUE, m |-> <<"c">>] >>
AllTargets == PlainTargets \o BraceTargets
Msgs2 == << <<"x", "a", "b">>, <<"b", "a">> >>

\* ---- C05: three distinguishable specifications (one with text filter), strings that denote them,
\*      a malformed string with a well-formed part, one with broken structure, one with a broken regex
SA == [f |-> << [n |-> <<"a">>, l |-> 4] >>, d |-> 2, hasre |-> FALSE, re |-> <<>>]
SB == [f |-> << [n |-> <<"a", "b">>, l |-> 0], [n |-> <<"info">>, l |-> 5] >>, d |-> -1, hasre |-> FALSE, re |-> <<>>]
SC == [f |-> << [n |-> <<"a", "::", "b">>, l |-> 1] >>, d |-> 3, hasre |-> TRUE, re |-> <<"a", "b">>]
U3 == {SA, SB, SC}
BadPart   == <<W("b"), EqT, LvlTok(5), CommaT, W("a"), WsT, W("b")>>          \* "b=trace,a b"
BadStruct == <<LvlTok(5), SlashT, W("a"), SlashT, W("b")>>                      \* "trace/a/b"
BadRegex  == <<LvlTok(4), SlashT, W("(")>>                                      \* "debug/("
T5 == {RenderRe(SA), RenderRe(SB), RenderRe(SC), BadPart, BadStruct}
T6 == T5 \cup {BadRegex}

\* ---- C12: specifications with different maximum levels and module sets
S1 == [f |-> << [n |-> <<"a">>, l |-> 5] >>, d |-> -1, hasre |-> FALSE, re |-> <<>>]       \* max trace
S2 == [f |-> <<>>, d |-> 1, hasre |-> FALSE, re |-> <<>>]                                  \* max error
S3 == [f |-> << [n |-> <<"b">>, l |-> 3] >>, d |-> 2, hasre |-> TRUE, re |-> <<"a", "b">>] \* max info
S0 == [f |-> <<>>, d |-> 3, hasre |-> FALSE, re |-> <<>>]
Set(S)  == [op |-> "Set", spec |-> S]
PushC(S) == [op |-> "Push", spec |-> S]
PopC    == [op |-> "Pop", spec |-> NoSpec]
CS == {S1, S2, S3}
I0 == {S0}
\* two racing set_new_spec calls, all ordered pairs of distinct specifications
P_2set == { << <<Set(p[1])>>, <<Set(p[2])>> >> : p \in {q \in CS \X CS : q[1] # q[2]} }
P_2q   == { << <<Set(S1)>>, <<Set(S2)>> >>, << <<Set(S2)>>, <<Set(S3)>> >>, << <<Set(S3)>>, <<Set(S1)>> >> }
\* push/pop nesting on one clone against a set on another; two calls in a row
P_2mix == { << <<PushC(S1), PopC>>, <<Set(S2)>> >>, << <<PushC(S2), PopC>>, <<Set(S1)>> >>,
            << <<Set(S1), Set(S2)>>, <<Set(S3)>> >>, << <<PushC(S3)>>, <<PushC(S1)>> >> }
P_3    == { << <<Set(S1)>>, <<Set(S2)>>, <<Set(S3)>> >>, << <<Set(S2)>>, <<PushC(S1), PopC>>, <<Set(S3)>> >> }
P_3q   == { << <<Set(S1)>>, <<Set(S2)>>, <<Set(S3)>> >> }

\* ---- scenario generation
\* one behaviour per distinct state; the history itself is hidden
View == <<active, Writer, Progs, pos, stack, gate, nops, last.op, last.ok, last.arg, mstack, pc, ci, tmx, tstk, tsub, lock>>
\* every behaviour (every interleaving / every call sequence)
ViewAll == vars
Cfg == [writer |-> Writer, progs |-> Progs]
Emit == (GenHist /\ Built) => PrintT(<<"REPLAY", ToJson([cfg |-> Cfg, steps |-> hist])>>)
\* one scenario per specification of the universe (C02, C17: the static enumeration)
EmitSpec == (GenHist /\ Built /\ pos = 0) => PrintT(<<"REPLAY", ToJson([cfg |-> Cfg, steps |-> hist])>>)
\* maximal concurrent behaviours only (all calls have returned)
EmitDone == (GenHist /\ Built /\ Threads # {} /\ AllDone) => PrintT(<<"REPLAY", ToJson([cfg |-> Cfg, steps |-> hist])>>)
P_2all == P_2set \cup P_2mix
P_all  == P_2set \cup P_2mix \cup P_3
\* print the counterexample as a scenario before TLC reports the violation
CexFinal == (GenHist /\ ~FinalConsistent) => PrintT(<<"REPLAY", ToJson([cfg |-> Cfg, steps |-> hist, cex |-> "FinalConsistent"])>>)
CexPop   == (GenHist /\ ~PopRestores) => PrintT(<<"REPLAY", ToJson([cfg |-> Cfg, steps |-> hist, cex |-> "PopRestores"])>>)
=============================================================================
