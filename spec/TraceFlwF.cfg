SPECIFICATION TraceSpec
CONSTANTS
  Cfgs <- NoCfgs
  Lens <- NoLens
  Dts <- NoDts
  T0 = 0
  MaxRecs = 1000000
  MaxRuns = 1000000
  MaxTrig = 1000000
  MaxExt = 1000000
  MaxSw = 1000000
  ResetCfgs <- NoCfgs
  MaxAdv = 1000000
  Fixes <- RepoFixes
  GenHist = FALSE
  MaxFrom = 0
  Bursts <- NoBursts
  Mutations <- NoBursts
CHECK_DEADLOCK FALSE
