SPECIFICATION Spec
CONSTANTS
  Cfgs <- Cfgs_C09q
  Lens <- Lens_C09
  Dts <- Dts_C09
  T0 <- T0_C09
  MaxSw = 0
  ResetCfgs <- NoReset
  MaxRecs = 3
  MaxRuns = 2
  MaxTrig = 0
  MaxExt = 0
  MaxAdv = 2
  Fixes <- RepoFixes
  GenHist = TRUE
INVARIANT Emit
VIEW View
CONSTRAINT Bound
CHECK_DEADLOCK FALSE
