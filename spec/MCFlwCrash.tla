----------------------------- MODULE MCFlwCrash -----------------------------
EXTENDS FlwCrash, TLC
Base == [naming |-> "Num", rot |-> TRUE, gran |-> 1, clean |-> FALSE, k |-> 0, m |-> 0, age |-> "-", size |-> 10,
         cap |-> 0, append |-> FALSE]
\* direct mode; without cleanup, with remove-only and with compressing cleanup; unrotated
CfgsK == {[Base EXCEPT !.naming = n] : n \in {"Num", "NumD", "Ts", "TsD"}}
         \cup {[Base EXCEPT !.naming = n, !.clean = TRUE, !.k = km[1], !.m = km[2]] :
                  n \in {"Num", "NumD", "Ts", "TsD"}, km \in {<<1, 0>>, <<0, 1>>, <<1, 1>>}}
         \cup {[Base EXCEPT !.rot = FALSE, !.size = -1]}
CfgsBuf == {[Base EXCEPT !.naming = n, !.cap = 16] : n \in {"Num", "TsD"}}
LensK == {12}
NoReset == {}
AllFixes == {"gz_index", "tsd_start", "numd_append_gz"}
NoBursts == {1}
NoMut == {}
ViewK == <<dir, files, w, clk, cfg, logged, runs, trigs, advs, gone, okgone, lostw, recov, lnk, crashed>>
=============================================================================
