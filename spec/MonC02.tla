------------------------------- MODULE MonC02 -------------------------------
(* C02: a record is written iff the active specification (and text filter)   *)
(* enables it; the gate never hides an acceptable record; enabled() never     *)
(* answers false for a record that is written.                                *)
(* Judged on every Build / Set event that carries a full probe:               *)
(*   p.en[i][v]     Log::enabled(level v, target i)                           *)
(*   p.dl[m][i][v]  copies of the record (message m) that reached the output  *)
(*   p.fl[m][i][v]  copies handed to the user-supplied line filter            *)
(*   p.dw[m][i][v]  copies written by the additional writer W                 *)
(*   p.gate         log::max_level()                                          *)
(* The active specification is the event's argument `spec`.                   *)
EXTENDS MonSpecBase

Judged(e) == e.ev \in {"Build", "Set"} /\ e.ret = "ok" /\ e.p.full

\* passed on to the default output (or line filter): addressed to the default channel, level enabled
\* for the target by the longest specified prefix, message matches the text filter
PassOn(S, T, Ms) ==
    [m \in DOMAIN Ms |-> LET ok == TextOk(S, Ms[m]) IN
        [i \in DOMAIN T |-> LET v == IF T[i].d THEN EffLevel(S, T[i].m) ELSE 0 IN
            [lv \in Levels |-> IF ok /\ lv <= v THEN 1 ELSE 0]]]
\* the line filter of the harness drops exactly one level and passes everything else on
AfterLineFilter(x, drop) == [m \in DOMAIN x |-> [i \in DOMAIN x[m] |-> [lv \in Levels |-> IF lv = drop THEN 0 ELSE x[m][i][lv]]]]

Cells(T, Ms) == (DOMAIN Ms) \X (DOMAIN T) \X Levels

Check ==
    LET e == E IN
    IF e.ev = "Begin" THEN TRUE
    ELSE IF Panicked(e) THEN Chk(e, "NoPanic", FALSE)
    ELSE IF ~Judged(e) THEN Cnt(9, TRUE)
    ELSE
    LET S  == e.spec
        T  == c.targets
        Ms == c.msgs
        p  == e.p
        x  == PassOn(S, T, Ms)
        written(q) == p.dl[q[1]][q[2]][q[3]] > 0 \/ p.dw[q[1]][q[2]][q[3]] > 0
    IN
    IF ~UniqueNames(S) THEN Cnt(10, TRUE) ELSE
    /\ Cnt(1, TRUE)
    /\ IF c.lf.on
       THEN /\ Chk(e, "PassedToLineFilterIffEnabled", p.fl = x)
            /\ Chk(e, "LineFilterAloneDecides", p.dl = AfterLineFilter(x, c.lf.drop))
            /\ Cnt(5, TRUE)
       ELSE Chk(e, "WrittenIffEnabled", p.dl = x)
    \* the gate: every record that reached an output is admitted; the gate covers the specification's
    \* maximum and the additional writer's ceiling
    /\ Chk(e, "GateAdmitsWritten", \A q \in Cells(T, Ms) : written(q) => q[3] <= p.gate)
    /\ Chk(e, "GateCoversSpec", p.gate >= MaxLevel(S))
    /\ Chk(e, "GateCoversWriter", c.writer.on => p.gate >= c.writer.c)
    \* enabled() is never false for a record that is written
    /\ Chk(e, "EnabledNeverFalseForWritten",
           \A q \in Cells(T, Ms) : (~T[q[2]].w /\ written(q)) => p.en[q[2]][q[3]])
    /\ Chk(e, "EnabledFalseAtWriterCeiling",
           \A q \in Cells(T, Ms) : (T[q[2]].w /\ p.dw[q[1]][q[2]][q[3]] > 0 /\ q[3] = c.writer.c) => p.en[q[2]][q[3]])
    /\ Chk(e, "EnabledFalseBelowWriterCeiling",
           \A q \in Cells(T, Ms) : (T[q[2]].w /\ p.dw[q[1]][q[2]][q[3]] > 0 /\ q[3] # c.writer.c) => p.en[q[2]][q[3]])
    /\ Chk(e, "EnabledFalseForDefaultViaBraces",
           \A q \in Cells(T, Ms) : (T[q[2]].w /\ p.dl[q[1]][q[2]][q[3]] > 0 /\ p.dw[q[1]][q[2]][q[3]] = 0) => p.en[q[2]][q[3]])
    \* how often the antecedents were exercised
    /\ Add(2, Pos3(x))                                           \* cells that must be passed on
    /\ Add(3, Cardinality(Cells(T, Ms)) - Pos3(x))               \* cells that must not
    /\ Add(4, Cardinality({q \in Cells(T, Ms) : T[q[2]].d /\ Enabled(S, q[3], T[q[2]].m) /\ ~TextOk(S, Ms[q[1]])}))
    /\ Cnt(6, c.writer.on)
    /\ Add(7, Cardinality({i \in DOMAIN T : Cardinality(Matching(S, T[i].m)) >= 2}))   \* nested prefixes compete
    /\ Add(8, Pos3(p.dw))
    /\ Cnt(11, e.ev = "Set") /\ Cnt(12, e.ev = "Build" /\ e.how = "parse")

Init == BaseInit
Next == BaseStep /\ Check /\ Finish
Spec == Init /\ [][Next]_<<l, c>>
=============================================================================
