SPECIFICATION Spec
CONSTANTS
  Mode = "toks"
  Alphabet <- A_7
  MaxLen = 7
  NameSeq <- N3
  GenHist = FALSE
INVARIANT ErrIffMalformed
INVARIANT SalvagedExact
INVARIANT LaxDiffersOnlyOnEmptyName
CHECK_DEADLOCK FALSE
