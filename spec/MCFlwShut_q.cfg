SPECIFICATION Spec
CONSTANTS
  Apps <- Apps2
  NRecs = 3
  Fixes <- AsCoded
INVARIANT TypeOK
INVARIANT AfterShutdownAllPresent
INVARIANT OnlyAccepted
PROPERTY ShutdownReturns
CHECK_DEADLOCK FALSE
