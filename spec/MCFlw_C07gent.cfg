SPECIFICATION Spec
CONSTANTS
  Cfgs <- Cfgs_C07q
  Lens <- Lens_C06
  Dts = {1}
  T0 = 1000
  MaxSw = 0
  ResetCfgs <- NoReset
  MaxRecs = 4
  MaxRuns = 2
  MaxTrig = 2
  MaxExt = 0
  MaxAdv = 1
  Fixes <- RepoFixes
  GenHist = TRUE
INVARIANT Emit
VIEW View
CONSTRAINT Bound
CHECK_DEADLOCK FALSE
