SPECIFICATION CSpec
CONSTANTS
  Cfgs <- CfgsBuf
  Lens <- LensK
  Dts = {1}
  T0 = 1000
  MaxSw = 0
  ResetCfgs <- NoReset
  MaxRecs = 4
  MaxRuns = 2
  MaxTrig = 1
  MaxExt = 0
  MaxAdv = 1
  Fixes <- AllFixes
  GenHist = FALSE
  MaxFrom = 0
  Bursts <- NoBursts
  Mutations <- NoMut
INVARIANT C11_AckedPresentAnyMode
INVARIANT C11_NoDestruction
INVARIANT C11_KeptWhatLimitPermits
INVARIANT C11_TwinsOnlyUnfinished
VIEW ViewK
CHECK_DEADLOCK FALSE
