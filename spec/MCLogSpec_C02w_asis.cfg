SPECIFICATION Spec
CONSTANTS
  InitSpecs <- SpecsU
  SpecNames <- N2
  SpecREs <- RE0
  OpSpecs = {}
  OpTexts = {}
  MaxOps = 0
  Writers <- Ceilings
  Targets <- AllTargets
  Msgs <- Msgs2
  ProgSets <- NoProgs
  GateUnderLock = TRUE
  Fixes <- RepoFixes
  GenHist = FALSE
INVARIANT MatcherAsDefined
INVARIANT CodedMaxAsDefined
INVARIANT GateAdmits
INVARIANT QueryNeverFalse
CHECK_DEADLOCK FALSE
