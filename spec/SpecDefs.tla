------------------------------ MODULE SpecDefs ------------------------------
(***************************************************************************)
(* Definitions shared by the log-specification family (C02 C05 C12 C17):   *)
(* what a log specification IS and what it DECIDES. These operators are    *)
(* the properties' own wording; they are evaluated (a) by the model        *)
(* checker on LogSpec.tla / SpecText.tla and (b) by the monitors MonC02,   *)
(* MonC05, MonC12, MonC17 on data recorded from the real code.             *)
(*                                                                         *)
(* Levels: 0 = off, 1 = error, 2 = warn, 3 = info, 4 = debug, 5 = trace.   *)
(* A record of level l (1..5) passes a level filter v (0..5) iff l <= v.   *)
(* Module names, targets, messages and (literal) text filters are          *)
(* sequences of "letters" (short strings of a prefix-free alphabet); the   *)
(* harness joins them to real strings, so "name is a prefix of target" is  *)
(* IsPrefix on sequences.                                                  *)
(*                                                                         *)
(* A specification is a record                                             *)
(*   [f |-> Seq([n |-> Seq(STRING), l |-> 0..5]),  module filters          *)
(*    d |-> -1..5,                                 default level, -1: none *)
(*    hasre |-> BOOLEAN, re |-> Seq(STRING)]       literal text filter     *)
(***************************************************************************)
EXTENDS Naturals, Integers, Sequences, FiniteSets, SequencesExt

Levels  == 1..5
Filters == 0..5
NoSpec  == [f |-> <<>>, d |-> -1, hasre |-> FALSE, re |-> <<>>]

UniqueNames(S) == \A i, j \in DOMAIN S.f : i # j => S.f[i].n # S.f[j].n

\* the filters whose name is a prefix of the target
Matching(S, t) == {i \in DOMAIN S.f : IsPrefix(S.f[i].n, t)}
Longest(S, M)  == CHOOSE i \in M : \A j \in M : Len(S.f[j].n) <= Len(S.f[i].n)

(* C02: "the level filter of the longest specified module name that is a    *)
(* prefix of the target, else the default level, else off"                  *)
EffLevel(S, t) ==
    LET M == Matching(S, t) IN
    IF M # {} THEN S.f[Longest(S, M)].l
    ELSE IF S.d >= 0 THEN S.d
    ELSE 0
Enabled(S, l, t) == l <= EffLevel(S, t)

\* s is a contiguous piece of t
IsInfixOf(s, t) == \E a \in 0..Len(t) : a + Len(s) <= Len(t) /\ s = SubSeq(t, a + 1, a + Len(s))
(* "when a text filter is set, its message matches the regular expression"  *)
(* (literal patterns only: match = the pattern occurs in the message)       *)
TextOk(S, msg) == ~S.hasre \/ IsInfixOf(S.re, msg)

Max2(a, b) == IF a >= b THEN a ELSE b
RECURSIVE MaxF(_, _)
MaxF(f, n) == IF n = 0 THEN 0 ELSE Max2(f[n].l, MaxF(f, n - 1))
\* the highest level any record can have that the specification enables for some target
MaxLevel(S) == Max2(MaxF(S.f, Len(S.f)), IF S.d >= 0 THEN S.d ELSE 0)

\* decision grid of a specification: targets (sequence) x levels, as observed through enabled()
Grid(S, T) == [i \in DOMAIN T |-> LET v == EffLevel(S, T[i]) IN [l \in Levels |-> l <= v]]
\* what reaches the output: messages x targets x levels -> 0 / 1
Deliveries(S, T, Ms) ==
    [m \in DOMAIN Ms |-> LET ok == TextOk(S, Ms[m]) IN
        [i \in DOMAIN T |-> LET v == EffLevel(S, T[i]) IN
            [l \in Levels |-> IF ok /\ l <= v THEN 1 ELSE 0]]]

\* two specifications decide identically on the given targets
DecideAlike(S1, S2, T) == Grid(S1, T) = Grid(S2, T)
SameSpec(S1, S2) ==
    /\ S1.d = S2.d /\ S1.hasre = S2.hasre /\ (S1.hasre => S1.re = S2.re)
    /\ {S1.f[i] : i \in DOMAIN S1.f} = {S2.f[i] : i \in DOMAIN S2.f}
    /\ Len(S1.f) = Len(S2.f)

(***************************************************************************)
(* The matcher AS CODED (log_specification.rs:393, :681): module filters    *)
(* and the default entry (name length 0) in one list, stably sorted by      *)
(* descending name length; the first entry whose name is a prefix of the    *)
(* target (the default entry matches everything) decides.                   *)
(* An entry is [n, l, dflt].                                                *)
(***************************************************************************)
RECURSIVE InsertByLen(_, _)
InsertByLen(x, s) ==
    IF s = <<>> THEN <<x>>
    ELSE IF Len(x.n) > Len(Head(s).n) THEN <<x>> \o s
    ELSE <<Head(s)>> \o InsertByLen(x, Tail(s))
RECURSIVE LevelSort(_)
\* stable: an entry is placed behind all earlier entries of the same length
LevelSort(s) == IF s = <<>> THEN <<>> ELSE InsertByLen(s[Len(s)], LevelSort(SubSeq(s, 1, Len(s) - 1)))

\* entries in "insertion order": `pos` = position of the default entry among the filters (0..Len(f))
Entries(S, pos) ==
    LET fe == [i \in DOMAIN S.f |-> [n |-> S.f[i].n, l |-> S.f[i].l, dflt |-> FALSE]]
        de == IF S.d >= 0 THEN <<[n |-> <<>>, l |-> S.d, dflt |-> TRUE]>> ELSE <<>>
    IN  SubSeq(fe, 1, pos) \o de \o SubSeq(fe, pos + 1, Len(fe))
RECURSIVE FirstMatch(_, _)
\* level filter of the first entry that matches; off if none does
FirstMatch(es, t) ==
    IF es = <<>> THEN 0
    ELSE IF Head(es).dflt \/ IsPrefix(Head(es).n, t) THEN Head(es).l
    ELSE FirstMatch(Tail(es), t)
CodedList(S, pos) == LevelSort(Entries(S, pos))
CodedEnabled(es, l, t) == l <= FirstMatch(es, t)
RECURSIVE MaxE(_)
MaxE(es) == IF es = <<>> THEN 0 ELSE Max2(Head(es).l, MaxE(Tail(es)))
=============================================================================
