---------------------------- MODULE MCFlwCleanQF ----------------------------
EXTENDS FlwCleanQF, Json
FView == <<plain, gz, nrot, chan, cst, snap, zs, app, nfail, fin, snapAt, good>>
Done2 == app = "down" /\ nrot = NRot
Emit == (GenHist /\ Done2) => PrintT(<<"REPLAY", ToJson([cfg |-> [k |-> K, m |-> M, direct |-> Direct], steps |-> hist])>>)
=============================================================================
