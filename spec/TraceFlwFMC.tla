---------------------------- MODULE TraceFlwFMC ----------------------------
EXTENDS TraceFlwF
NoCfgs == {}
NoLens == {}
NoDts == {}
NoBursts == {}
RepoFixes == {"gz_index", "tsd_start", "numd_append_gz"}     \* deviations repaired in /repo
=============================================================================
