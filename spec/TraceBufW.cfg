SPECIFICATION TSpec
CONSTANTS
  MaxSize = 0
  Lens = {}
  MaxRecs = 0
  Mutations = {}
CHECK_DEADLOCK FALSE
