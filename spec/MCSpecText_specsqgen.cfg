SPECIFICATION Spec
CONSTANTS
  Mode = "specs"
  Alphabet <- A_q
  MaxLen = 0
  NameSeq <- N3
  GenHist = TRUE
INVARIANT Emit
CHECK_DEADLOCK FALSE
