SPECIFICATION Spec
CONSTANTS
  Apps <- Apps3
  NRecs = 4
  Fixes <- AsCoded
INVARIANT TypeOK
INVARIANT AfterShutdownAllPresent
INVARIANT OnlyAccepted
PROPERTY ShutdownReturns
CHECK_DEADLOCK FALSE
