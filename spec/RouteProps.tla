----------------------------- MODULE RouteProps -----------------------------
(***************************************************************************)
(* Property predicates of C13 (routing) and of the fan-out part of C20,     *)
(* written over plain values so that the same operators are evaluated       *)
(*   (a) by the model checker on the outcome computed by Routing.tla and    *)
(*   (b) by the monitors MonC13 / MonC20 on outcomes observed on the code.  *)
(*                                                                         *)
(* Encodings (shared with the harness, JSON ints only):                     *)
(*   level      log::Level        Error=1 Warn=2 Info=3 Debug=4 Trace=5     *)
(*   ceiling    log::LevelFilter  Off=0 .. Trace=5                          *)
(*   duplicate  flexi_logger::Duplicate None=0 Error=1 .. Trace=5 All=6     *)
(*   writers    Seq([name, kind, ceil]); kind "rec" = custom recording      *)
(*              LogWriter (observes what it is HANDED), "flw" =             *)
(*              FileLogWriter with max_level, "syslog" = SyslogWriter with  *)
(*              max_log_level (both observed by what they EMIT)             *)
(*   target     [brace |-> BOOLEAN, toks |-> Seq(STRING), plain |-> STRING] *)
(*              brace: the target string is "{" tok1 "," tok2 ... "}"       *)
(*              plain: the target string is `plain` (a module path)         *)
(*   spec       [dflt |-> 0..5, m |-> -1..5]: default level and the level   *)
(*              of the module filter "m" (-1 = no such filter)              *)
(*   module     module_path of the record, "" = absent                      *)
(*   outcome    [got |-> [name -> Nat], file, pw, err, out |-> Nat or -1,   *)
(*               errs |-> Seq(STRING)]; -1 = sink not configured            *)
(***************************************************************************)
EXTENDS Naturals, Integers, Sequences, FiniteSets

DEFAULT == "_Default"
\* module paths of the catalogue that the module filter "m" matches (prefix match, log_specification.rs:398)
UnderM  == {"m", "m::sub"}

Names(W)       == {W[i].name : i \in 1..Len(W)}
WriterOf(W, n) == W[CHOOSE i \in 1..Len(W) : W[i].name = n]
ToSet(s)       == {s[i] : i \in 1..Len(s)}
Occurs(s, x)   == Cardinality({i \in 1..Len(s) : s[i] = x})

SpecLevel(spec, mod)    == IF mod \in UnderM /\ spec.m >= 0 THEN spec.m ELSE spec.dflt
Enabled(spec, lvl, mod) == lvl <= SpecLevel(spec, mod)

(***************************************************************************)
(* THE PROPERTY C13, as a function of the call and of the configuration     *)
(***************************************************************************)
\* a registered additional writer is handed the record exactly once iff it is named in the brace list
\* - regardless of the log specification - and never otherwise
Handed(tg, n)  == IF tg.brace /\ n \in ToSet(tg.toks) THEN 1 ELSE 0
\* no writer emits a record above its ceiling (a recording writer shows everything it is handed)
Passes(w, lvl) == w.kind = "rec" \/ lvl <= w.ceil
Emitted(W, tg, lvl, n) == IF Passes(WriterOf(W, n), lvl) THEN Handed(tg, n) ELSE 0
\* default channel: plain target iff the specification enables target/level; brace list iff _Default is
\* in the list and the specification enables the record's MODULE
ToDefault(tg, lvl, mod, spec) ==
    IF tg.brace THEN DEFAULT \in ToSet(tg.toks) /\ Enabled(spec, lvl, mod)
    ELSE Enabled(spec, lvl, tg.plain)
\* duplication: exactly the records of the default channel whose level is at or above the current
\* duplication level (Duplicate::All = 6 admits every level)
DupTo(d, lvl)  == d > 0 /\ lvl <= d
Unknown(W, tg) == IF tg.brace THEN ToSet(tg.toks) \ (Names(W) \cup {DEFAULT}) ELSE {}

B2N(b) == IF b THEN 1 ELSE 0
Deliver(W, tg, lvl, mod, spec, dupe, dupo) ==
    LET d == ToDefault(tg, lvl, mod, spec) IN
    [ got     |-> [n \in Names(W) |-> Emitted(W, tg, lvl, n)],
      def     |-> B2N(d),
      err     |-> B2N(d /\ DupTo(dupe, lvl)),
      out     |-> B2N(d /\ DupTo(dupo, lvl)),
      unknown |-> Unknown(W, tg) ]

(***************************************************************************)
(* Predicates comparing an outcome `o` (modelled or observed) with Deliver  *)
(***************************************************************************)
Configured(x) == x >= 0
\* the default channel may also be one of the standard streams (Logger::log_to_stdout / log_to_stderr);
\* then there is no duplication, and nothing may reach the other stream
StdPrimaries == {"stdout", "stderr"}
\* each registered writer named in the list: exactly once (if its ceiling admits the level)
NamedExactlyOnce(W, tg, lvl, o) ==
    \A n \in Names(W) : (Handed(tg, n) = 1 /\ Passes(WriterOf(W, n), lvl)) => o.got[n] = 1
\* ... and no other additional writer
NotNamedNothing(W, tg, o) == \A n \in Names(W) : Handed(tg, n) = 0 => o.got[n] = 0
\* no writer emits a record above its configured maximum level
CeilingRespected(W, lvl, o) ==
    \A n \in Names(W) : (~Passes(WriterOf(W, n), lvl)) => o.got[n] = 0
DefaultIff(prim, D, o) == /\ Configured(o.file) => o.file = D.def
                          /\ Configured(o.pw)   => o.pw = D.def
                          /\ prim = "stdout" => o.out = D.def
                          /\ prim = "stderr" => o.err = D.def
\* frames expected on stderr / stdout for a default channel `prim`
ExpErr(prim, D) == IF prim = "stderr" THEN D.def ELSE IF prim = "stdout" THEN 0 ELSE D.err
ExpOut(prim, D) == IF prim = "stdout" THEN D.def ELSE IF prim = "stderr" THEN 0 ELSE D.out
DupErrIff(prim, D, o)  == (Configured(o.err) /\ prim # "stderr") => o.err = ExpErr(prim, D)
DupOutIff(prim, D, o)  == (Configured(o.out) /\ prim # "stdout") => o.out = ExpOut(prim, D)
\* unknown names are reported ...
UnknownReported(D, o)   == D.unknown \subseteq ToSet(o.errs)
\* ... and nothing else is (no report names a registered writer or _Default)
NoSpuriousReport(W, o)  == ToSet(o.errs) \cap (Names(W) \cup {DEFAULT}) = {}

C13Holds(W, prim, tg, lvl, mod, spec, dupe, dupo, o) ==
    LET D == Deliver(W, tg, lvl, mod, spec, dupe, dupo) IN
    /\ NamedExactlyOnce(W, tg, lvl, o) /\ NotNamedNothing(W, tg, o) /\ CeilingRespected(W, lvl, o)
    /\ DefaultIff(prim, D, o) /\ DupErrIff(prim, D, o) /\ DupOutIff(prim, D, o)
    /\ UnknownReported(D, o) /\ NoSpuriousReport(W, o)

(***************************************************************************)
(* C20, fan-out part. The bytes a record leaves in an output are a sequence *)
(* of CHUNKS; format functions are uninterpreted:                           *)
(*    [k |-> "fmt", o |-> output, rid |-> record, ts |-> instant]           *)
(*    [k |-> "le",  o |-> output]                                           *)
(* Frame(o, rid, ts) = Fmt_o(rec, ts) \o LE_o.                              *)
(***************************************************************************)
Frame(o, rid, ts) == <<[k |-> "fmt", o |-> o, rid |-> rid, ts |-> ts], [k |-> "le", o |-> o, rid |-> rid, ts |-> ts]>>
\* the content of output o is a concatenation of whole frames of o: format output, then ONE line ending
Framed(o, s) ==
    /\ Len(s) % 2 = 0
    /\ \A i \in 1..Len(s) :
          /\ s[i].o = o
          /\ (i % 2 = 1) => (s[i].k = "fmt" /\ s[i+1].k = "le" /\ s[i+1].rid = s[i].rid)
          /\ (i % 2 = 0) => s[i].k = "le"
\* all outputs of one record carry the same timestamp (S = function output -> chunks)
OneTimestamp(S) ==
    \A a, b \in DOMAIN S : \A i \in 1..Len(S[a]), j \in 1..Len(S[b]) :
        S[a][i].rid = S[b][j].rid => S[a][i].ts = S[b][j].ts
\* number of frames of record rid in s
FramesOf(s, rid) == Cardinality({i \in 1..Len(s) : s[i].k = "fmt" /\ s[i].rid = rid})

(***************************************************************************)
(* helpers for byte strings given as hex text (monitors)                    *)
(***************************************************************************)
RECURSIVE Cat(_)
Cat(ss) == IF ss = <<>> THEN "" ELSE Head(ss) \o Cat(Tail(ss))
=============================================================================
