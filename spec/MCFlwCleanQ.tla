---------------------------- MODULE MCFlwCleanQ ----------------------------
EXTENDS FlwCleanQ, Json
View == <<plain, gz, nrot, chan, cst, snap, zs, app>>
Done == app = "down" /\ nrot = NRot
Emit == (GenHist /\ Done) => PrintT(<<"REPLAY", ToJson([cfg |-> [k |-> K, m |-> M, direct |-> Direct], steps |-> hist])>>)
=============================================================================
