SPECIFICATION Spec
CONSTANTS
  Cfgs <- Cfgs_C06
  Lens <- Lens_C06
  Dts = {1}
  T0 = 1000
  MaxSw = 0
  ResetCfgs <- NoReset
  MaxRecs = 4
  MaxRuns = 3
  MaxTrig = 1
  MaxExt = 1
  MaxAdv = 1
  Fixes <- AllFixes
  GenHist = FALSE
INVARIANT C06_NoDestruction
INVARIANT C06_Ordered
INVARIANT C07_CurrentSafe
INVARIANT C01_NoTwin
CONSTRAINT Bound
CHECK_DEADLOCK FALSE
