SPECIFICATION Spec
CONSTANTS
  Cfgs <- Cfgs_C01q
  Lens <- Lens_C01
  Dts = {1}
  T0 = 1000
  MaxSw = 0
  ResetCfgs <- NoReset
  MaxRecs = 3
  MaxRuns = 1
  MaxTrig = 1
  MaxExt = 0
  MaxAdv = 1
  Fixes <- RepoFixes
  GenHist = TRUE
INVARIANT Emit
VIEW View
CONSTRAINT Bound
CHECK_DEADLOCK FALSE
