------------------------------ MODULE MonC04c ------------------------------
(* C04 under concurrency: "in the synchronous buffered modes, once flush()   *)
(* has returned every record whose log call had completed before is          *)
(* physically present" - while 2-8 threads keep logging. The trace is the     *)
(* totally ordered event list of a free-running execution (flv conc, see      *)
(* TraceFlwConc.tla): E p k = the k-th log call of thread p has returned,     *)
(* FlB = the application thread calls flush(), FlE = it has returned and the  *)
(* application thread has read the file (seen = record ids found). A call     *)
(* whose E precedes FlB had completed before flush() was called.              *)
EXTENDS Naturals, Integers, Sequences, FiniteSets, TLC, Json, IOUtils

Rec == ndJsonDeserialize(IOEnv.TRACE)
VARIABLES l, done, atFl, mode
vars == <<l, done, atFl, mode>>
E == Rec[l]
NCounters == 4
Init == l = 1 /\ done = {} /\ atFl = {} /\ mode = "" /\ \A i \in 1..NCounters : TLCSet(i, 0)
Chk(e, name, ok) == IF ok THEN TRUE ELSE PrintT(<<"BAD", e.sc, e.n, name>>)
Cnt(i, cond) == IF cond THEN TLCSet(i, TLCGet(i) + 1) ELSE TRUE
Finish == IF l = Len(Rec) THEN PrintT(<<"COUNTS", [i \in 1..NCounters |-> TLCGet(i)], "\"">>) /\ PrintT(<<"CONSUMED", l>>)
          ELSE TRUE
Next ==
    /\ l <= Len(Rec) /\ l' = l + 1
    /\ LET e == E IN
       /\ mode' = IF e.ev = "Begin" THEN e.norm.mode ELSE mode
       /\ done' = IF e.ev = "Begin" THEN {} ELSE IF e.ev = "E" THEN done \cup {e.p * 100000 + e.k} ELSE done
       /\ atFl' = IF e.ev = "Begin" THEN {} ELSE IF e.ev = "FlB" THEN done ELSE atFl
       /\ IF e.ev = "FlE" /\ mode \in {"direct", "buf", "bufflush"}
          THEN /\ Chk(e, "AfterFlushAllPresentConcurrent", atFl \subseteq {e.seen[j] : j \in 1..Len(e.seen)})
               /\ Cnt(1, TRUE) /\ Cnt(2, Cardinality(atFl) > 0) /\ Cnt(3, Cardinality(atFl) < Len(e.seen))
          ELSE TRUE
       /\ IF e.ev = "Final" THEN Chk(e, "Returned", e.ret = "ok") /\ Cnt(4, TRUE) ELSE TRUE
    /\ Finish
Spec == Init /\ [][Next]_vars
=============================================================================
