SPECIFICATION Spec
CONSTANTS
  Cfgs <- Cfgs_C20t
  Targets <- TargetsC20
  Lvls <- Levels5
  Mods <- ModsC20
  Shapes <- Shapes_C20
  Specs <- NoSpecs
  Dups <- NoDups
  MaxRecs = 1
  MaxAdapt = 0
  MaxSet = 0
  Counting = TRUE
  Admit <- AdmitC20t
  Fixes <- RepoFixes
  GenHist = TRUE
INVARIANT Emit
VIEW View
CHECK_DEADLOCK FALSE
