SPECIFICATION Spec
CONSTANTS
  Cfgs <- Cfgs_C20mc
  Targets <- TargetsC20mc
  Lvls <- Levels5
  Mods <- ModsC20
  Shapes <- Shapes_C20mc
  Specs <- SpecsDup
  Dups <- Dups_C20mc
  MaxRecs = 1
  MaxAdapt = 2
  MaxSet = 1
  Counting = FALSE
  Admit <- AdmitAll
  Fixes <- AllFixes
  GenHist = FALSE
INVARIANT C20_Framed
INVARIANT C20_OneTimestamp
INVARIANT C20_FanOut
INVARIANT C13_NamedExactlyOnce
INVARIANT C13_NotNamedNothing
INVARIANT C13_CeilingRespected
INVARIANT C13_DefaultIff
INVARIANT C13_DupIff
INVARIANT C13_Unknown
CHECK_DEADLOCK FALSE
