------------------------------ MODULE LogSpec ------------------------------
(***************************************************************************)
(* Filtering and run-time reconfiguration of flexi_logger (0.30.1):        *)
(* the active log specification, the per-handle stack of saved             *)
(* specifications, and the log facade's global max level ("gate").         *)
(* References are to /repo/src.                                            *)
(*                                                                         *)
(* Part 1 (C02): the matcher as coded (level_sort + first prefix match,    *)
(*   log_specification.rs:393,:681), the gate as computed by reconfigure   *)
(*   (logger_handle.rs:517) and FlexiLogger::enabled (flexi_logger.rs:56)  *)
(*   against the definitions of SpecDefs.                                  *)
(* Part 2 (C05): the five reconfiguration calls of one LoggerHandle, one   *)
(*   action each (logger_handle.rs:139-190).                               *)
(* Part 3 (C12): the same calls issued by concurrent threads through       *)
(*   handle clones; WritersHandle::set_new_spec (logger_handle.rs:507) is  *)
(*   three steps: compute the maximum level, replace the specification     *)
(*   under the RwLock, write the gate.                                     *)
(*                                                                         *)
(* Behaviour of the code that contradicts a property is modelled AS CODED; *)
(* the intended behaviour sits behind `name \in Fixes`:                    *)
(*   "parse_push_order"  parse_and_push_temp_spec pushes the active spec   *)
(*                       BEFORE parsing: a rejected string grows the stack *)
(*   "enabled_lt"        enabled() compares `level < writer.max_log_level` *)
(*   "enabled_default"   enabled() matches the brace target string itself  *)
(*                       against the module filters for {..,_Default}      *)
(*   "empty_name"        parse accepts a part with an empty module name    *)
(* and the atomicity of set_new_spec is the constant GateUnderLock         *)
(* (FALSE = as coded: the gate is written after the lock is released).     *)
(***************************************************************************)
EXTENDS SpecText, TLC

CONSTANTS InitSpecs,     \* specifications a scenario may start with
          OpSpecs,       \* specifications passed to set_new_spec / push_temp_spec
          OpTexts,       \* token strings passed to parse_new_spec / parse_and_push_temp_spec
          MaxOps,        \* bound on the number of sequential calls
          Writers,       \* additional writer, one of: [on |-> BOOLEAN, c |-> ceiling 0..5]
          Targets,       \* sequence of targets [w, d, m] used by the invariants
          Msgs,          \* sequence of messages
          ProgSets,      \* threads: set of program tuples; a program = sequence of calls [op, spec]
          GateUnderLock, \* TRUE: the gate is written while the specification lock is held
          Fixes,
          GenHist

VARIABLES active,   \* the active specification
          Writer,   \* the additional writer of this behaviour (constant per behaviour)
          Progs,    \* the thread programs of this behaviour (constant per behaviour; <<>> = sequential)
          pos,      \* position of the default entry in the coded filter list before sorting (C02 only)
          stack,    \* saved specifications of the handle (as coded)
          gate,     \* log::max_level()
          nops,
          last,     \* the call just made: [op, ok, arg, pa, ps, pm] (pa/ps/pm: active/stack/mstack before it)
          mstack,   \* history: the specification that was active before each still open successful push
          pc, ci, tmx, tstk, tsub, lock,   \* threads: program counter, call index, local max level,
                                           \* per-clone stack, specification being submitted, lock holder
          subm,     \* history: specifications submitted by calls that have started
          hist
vars == <<active, Writer, Progs, pos, stack, gate, nops, last, mstack, pc, ci, tmx, tstk, tsub, lock, subm, hist>>

Threads == DOMAIN Progs
H(e) == IF GenHist THEN Append(hist, e) ELSE hist
NoCall == [op |-> "-", ok |-> TRUE, arg |-> <<>>, pa |-> NoSpec, ps |-> <<>>, pm |-> <<>>]

(***************************************************************************)
(* Part 1: decisions                                                       *)
(***************************************************************************)
Ceiling == IF Writer.on THEN Writer.c ELSE 0
\* reconfigure(): the maximum of the specification's levels and the additional writers' ceilings
GateFor(S) == Max2(MaxLevel(S), Ceiling)

PlainT(m) == [w |-> FALSE, d |-> TRUE, m |-> m]
\* a brace target is itself no module path: as a "module" it matches no specified name
BraceString == <<"{W}">>
\* would the record reach an output? (the additional writer honours its own ceiling)
ToWriter(l, tg)       == Writer.on /\ tg.w /\ l <= Writer.c
ToDefault(S, l, tg, msg) == tg.d /\ Enabled(S, l, tg.m) /\ TextOk(S, msg)
WouldBeWritten(S, l, tg, msg) == ToWriter(l, tg) \/ ToDefault(S, l, tg, msg)

\* FlexiLogger::enabled as coded (flexi_logger.rs:56-81)
Query(S, l, tg) ==
    IF Writer.on /\ tg.w
    THEN \/ IF "enabled_lt" \in Fixes THEN l <= Writer.c ELSE l < Writer.c
         \/ IF "enabled_default" \in Fixes
            THEN tg.d /\ l <= MaxLevel(S)          \* the module is unknown to enabled(): answer conservatively
            ELSE Enabled(S, l, BraceString)
    ELSE Enabled(S, l, tg.m)

Built == last.op # "-"
\* the coded matcher decides like the definition, whatever the insertion order of the default entry
MatcherAsDefined ==
    (Built /\ UniqueNames(active)) =>
        LET es == CodedList(active, pos) IN
        \A i \in DOMAIN Targets : \A l \in Levels :
            CodedEnabled(es, l, Targets[i].m) = Enabled(active, l, Targets[i].m)
CodedMaxAsDefined == Built => MaxE(Entries(active, pos)) = MaxLevel(active)
\* the gate never hides a record that the specification or the additional writer accepts
GateAdmits ==
    (Built /\ \A t \in Threads : pc[t] = "done") =>
        /\ \A i \in DOMAIN Targets : \A l \in Levels : \A m \in DOMAIN Msgs :
              WouldBeWritten(active, l, Targets[i], Msgs[m]) => l <= gate
        /\ gate >= MaxLevel(active)
\* enabled() never answers false for a record that would be written
QueryNeverFalse ==
    Built =>
        \A i \in DOMAIN Targets : \A l \in Levels : \A m \in DOMAIN Msgs :
            WouldBeWritten(active, l, Targets[i], Msgs[m]) => Query(active, l, Targets[i])

(***************************************************************************)
(* Part 2: the calls of one handle                                         *)
(***************************************************************************)
Strict      == "empty_name" \in Fixes
ParseText(toks) == Parse(toks, ModelReOk(toks), Strict)

Called(op, ok, arg) == [op |-> op, ok |-> ok, arg |-> arg, pa |-> active, ps |-> stack, pm |-> mstack]
SeqIdle == Built /\ nops < MaxOps /\ Threads = {}
ConcUnch == UNCHANGED <<pc, ci, tmx, tstk, tsub, lock, subm, pos, Writer, Progs>>

\* Logger::with(spec)...build(): the scenario's first step (logger.rs:709)
Build ==
    /\ last.op = "-" /\ last' = [NoCall EXCEPT !.op = "Build"]
    /\ hist' = H([op |-> "Build", spec |-> active, rtoks |-> RenderRe(active)])
    /\ UNCHANGED <<active, stack, gate, nops, mstack>> /\ ConcUnch

SetNew(S) ==
    /\ SeqIdle /\ nops' = nops + 1
    /\ active' = S /\ gate' = GateFor(S)
    /\ UNCHANGED <<stack, mstack>>
    /\ last' = Called("Set", TRUE, S)
    /\ hist' = H([op |-> "Set", spec |-> S]) /\ ConcUnch

ParseNew(toks) ==
    LET pr == ParseText(toks) IN
    /\ SeqIdle /\ nops' = nops + 1
    /\ IF pr.ok THEN active' = ToSpec(pr) /\ gate' = GateFor(ToSpec(pr))
                ELSE UNCHANGED <<active, gate>>          \* `?` returns before set_new_spec
    /\ UNCHANGED <<stack, mstack>>
    /\ last' = Called("ParseNew", pr.ok, toks)
    /\ hist' = H([op |-> "ParseNew", toks |-> toks]) /\ ConcUnch

Push(S) ==
    /\ SeqIdle /\ nops' = nops + 1
    /\ stack' = Append(stack, active) /\ mstack' = Append(mstack, active)
    /\ active' = S /\ gate' = GateFor(S)
    /\ last' = Called("Push", TRUE, S)
    /\ hist' = H([op |-> "Push", spec |-> S]) /\ ConcUnch

ParsePush(toks) ==
    LET pr == ParseText(toks) IN
    /\ SeqIdle /\ nops' = nops + 1
    /\ IF pr.ok
       THEN /\ stack' = Append(stack, active) /\ mstack' = Append(mstack, active)
            /\ active' = ToSpec(pr) /\ gate' = GateFor(ToSpec(pr))
       ELSE /\ UNCHANGED <<active, gate, mstack>>
            \* logger_handle.rs:171-180: spec_stack.push(..) comes first, then parse(..)?
            /\ stack' = IF "parse_push_order" \in Fixes THEN stack ELSE Append(stack, active)
    /\ last' = Called("ParsePush", pr.ok, toks)
    /\ hist' = H([op |-> "ParsePush", toks |-> toks]) /\ ConcUnch

Pop ==
    /\ SeqIdle /\ nops' = nops + 1
    /\ IF stack # <<>>
       THEN /\ active' = stack[Len(stack)] /\ gate' = GateFor(stack[Len(stack)])
            /\ stack' = SubSeq(stack, 1, Len(stack) - 1)
       ELSE UNCHANGED <<active, gate, stack>>
    /\ mstack' = IF mstack # <<>> THEN SubSeq(mstack, 1, Len(mstack) - 1) ELSE mstack
    /\ last' = Called("Pop", TRUE, <<>>)
    /\ hist' = H([op |-> "Pop"]) /\ ConcUnch

SeqNext == \/ Build
           \/ \E S \in OpSpecs : SetNew(S) \/ Push(S)
           \/ \E x \in OpTexts : ParseNew(x) \/ ParsePush(x)
           \/ Pop

\* C05 -------------------------------------------------------------------
\* after the call returns, filtering follows the specification that the call made active
TakesEffect ==
    /\ (last.op \in {"Set", "Push"}) => active = last.arg
    /\ (last.op \in {"ParseNew", "ParsePush"} /\ last.ok) => active = ToSpec(ParseText(last.arg))
\* pop re-activates precisely the specification that was active before the matching push
PopRestores ==
    last.op = "Pop" => active = IF last.pm # <<>> THEN last.pm[Len(last.pm)] ELSE last.pa
\* a rejected string leaves the active specification and the stack unchanged
FailedParseChangesNothing ==
    (last.op \in {"ParseNew", "ParsePush"} /\ ~last.ok) => active = last.pa /\ stack = last.ps
StackExact == stack = mstack

(***************************************************************************)
(* Part 3: concurrent calls. Each thread owns a handle clone (own stack).   *)
(* Three steps per call, pc: "prep" (up to sc:sns_enter: push reads the     *)
(* active specification, pop takes its saved one, the maximum level of the  *)
(* new specification is computed - all thread-local but the read), "spec"   *)
(* (sc:sns_enter -> sc:sns_updated: specification replaced under the lock), *)
(* "gate" (sc:sns_updated -> sc:sns_exit: gate written); then "done".       *)
(***************************************************************************)
CallOf(t) == Progs[t][ci[t]]
StartPc(p) == IF p = <<>> THEN "done" ELSE "prep"
SeqUnch == UNCHANGED <<stack, nops, last, mstack, pos, Writer, Progs>>

\* advance to the next call of the program (or finish)
Advance(t, k) ==
    /\ ci' = [ci EXCEPT ![t] = k]
    /\ pc' = [pc EXCEPT ![t] = IF k > Len(Progs[t]) THEN "done" ELSE "prep"]

\* up to sc:sns_enter and the computation of the maximum level (thread-local)
Prep(t) ==
    /\ pc[t] = "prep"
    /\ LET c == CallOf(t) IN
       CASE c.op = "Set" ->
              /\ tsub' = [tsub EXCEPT ![t] = c.spec] /\ tmx' = [tmx EXCEPT ![t] = MaxLevel(c.spec)]
              /\ pc' = [pc EXCEPT ![t] = "spec"] /\ UNCHANGED <<ci, tstk>>
         [] c.op = "Push" ->
              \* spec_stack.push(spec.read().clone()); not while another thread holds the write lock
              /\ lock = 0
              /\ tstk' = [tstk EXCEPT ![t] = Append(@, active)]
              /\ tsub' = [tsub EXCEPT ![t] = c.spec] /\ tmx' = [tmx EXCEPT ![t] = MaxLevel(c.spec)]
              /\ pc' = [pc EXCEPT ![t] = "spec"] /\ UNCHANGED ci
         [] c.op = "Pop" ->
              IF tstk[t] # <<>>
              THEN /\ tsub' = [tsub EXCEPT ![t] = tstk[t][Len(tstk[t])]]
                   /\ tmx' = [tmx EXCEPT ![t] = MaxLevel(tstk[t][Len(tstk[t])])]
                   /\ tstk' = [tstk EXCEPT ![t] = SubSeq(@, 1, Len(@) - 1)]
                   /\ pc' = [pc EXCEPT ![t] = "spec"] /\ UNCHANGED ci
              ELSE /\ Advance(t, ci[t] + 1) /\ UNCHANGED <<tstk, tsub, tmx>>     \* nothing to pop: no call
    /\ UNCHANGED <<active, gate, lock, subm>>
    /\ hist' = H([t |-> t, st |-> "prep"]) /\ SeqUnch

\* sc:sns_enter -> sc:sns_updated: the specification is replaced as a whole under the write lock
SpecStep(t) ==
    /\ pc[t] = "spec" /\ lock = 0
    /\ active' = tsub[t]
    /\ subm' = subm \cup {tsub[t]}
    /\ lock' = IF GateUnderLock THEN t ELSE 0
    /\ pc' = [pc EXCEPT ![t] = "gate"]
    /\ UNCHANGED <<gate, ci, tmx, tstk, tsub>>
    /\ hist' = H([t |-> t, st |-> "spec"]) /\ SeqUnch

\* sc:sns_updated -> sc:sns_exit: reconfigure() writes the gate from the locally computed maximum
GateStep(t) ==
    /\ pc[t] = "gate"
    /\ gate' = Max2(tmx[t], Ceiling)
    /\ lock' = 0
    /\ Advance(t, ci[t] + 1)
    /\ UNCHANGED <<active, tmx, tstk, tsub, subm>>
    /\ hist' = H([t |-> t, st |-> "gate"]) /\ SeqUnch

ConcNext == Built /\ \E t \in Threads : Prep(t) \/ SpecStep(t) \/ GateStep(t)

AllDone == \A t \in Threads : pc[t] = "done"
\* C12: once all changes have returned the logger filters according to exactly one of the submitted
\* specifications as a whole, and the gate admits every record that this specification enables
FinalConsistent ==
    (Threads # {} /\ AllDone /\ subm # {}) => active \in subm /\ gate >= MaxLevel(active)

(***************************************************************************)
Init == /\ active \in InitSpecs /\ Writer \in Writers /\ Progs \in ProgSets
        /\ pos \in IF MaxOps = 0 /\ Progs = <<>> THEN 0..Len(active.f) ELSE {0}
        /\ stack = <<>> /\ mstack = <<>> /\ gate = GateFor(active) /\ nops = 0 /\ last = NoCall
        /\ pc = [t \in Threads |-> StartPc(Progs[t])] /\ ci = [t \in Threads |-> 1]
        /\ tmx = [t \in Threads |-> 0] /\ tstk = [t \in Threads |-> <<>>] /\ tsub = [t \in Threads |-> NoSpec]
        /\ lock = 0 /\ subm = {} /\ hist = <<>>
Next == SeqNext \/ ConcNext
Spec == Init /\ [][Next]_vars
=============================================================================
