SPECIFICATION Spec
CONSTANTS
  InitSpecs <- SpecsU
  SpecNames <- N5
  SpecREs <- RE0
  OpSpecs = {}
  OpTexts = {}
  MaxOps = 0
  Writers <- NoWriter
  Targets <- PlainTargets
  Msgs <- Msgs2
  ProgSets <- NoProgs
  GateUnderLock = TRUE
  Fixes <- AllFixes
  GenHist = FALSE
INVARIANT MatcherAsDefined
INVARIANT CodedMaxAsDefined
INVARIANT GateAdmits
INVARIANT QueryNeverFalse
CHECK_DEADLOCK FALSE
