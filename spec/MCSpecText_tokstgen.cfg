SPECIFICATION Spec
CONSTANTS
  Mode = "toks"
  Alphabet <- A_t
  MaxLen = 5
  NameSeq <- N3
  GenHist = TRUE
INVARIANT Emit
CHECK_DEADLOCK FALSE
