SPECIFICATION Spec
CONSTANTS
  Cfgs <- Cfgs_C01
  Lens <- Lens_C01
  Dts = {1}
  T0 = 1000
  MaxSw = 0
  ResetCfgs <- NoReset
  MaxRecs = 4
  MaxRuns = 1
  MaxTrig = 2
  MaxExt = 0
  MaxAdv = 2
  Fixes <- AllFixes
  GenHist = FALSE
INVARIANT C01_Prefix
INVARIANT C01_Complete
INVARIANT C01_Buffered
INVARIANT C01_NoTwin
INVARIANT C07_CurrentSafe
INVARIANT C08_Partition
INVARIANT C06_NoDestruction
CONSTRAINT Bound
CHECK_DEADLOCK FALSE
