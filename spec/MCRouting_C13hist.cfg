SPECIFICATION Spec
CONSTANTS
  Cfgs <- Cfgs_C13hist
  Targets <- TargetsDup
  Lvls <- Levels5
  Mods <- ModsM
  Shapes <- Shapes_Id
  Specs <- SpecsDup
  Dups <- Dups_hist
  MaxRecs = 2
  MaxAdapt = 1
  MaxSet = 1
  Counting = TRUE
  Admit <- AdmitAll
  Fixes <- RepoFixes
  GenHist = TRUE
INVARIANT Emit
VIEW View
CHECK_DEADLOCK FALSE
