------------------------------ MODULE MCModes ------------------------------
EXTENDS Modes, Json
\* messages: a record line (ends with the line ending "n"), raw chunks incl. the single bytes F and S,
\* the empty chunk, a chunk without line ending, a chunk longer than the buffer
MsgsAll == { <<"a", "n">>, <<"b", "b", "b", "n">>, <<"F">>, <<"S">>, <<>>, <<"x">>, <<"F", "S">>,
             <<"y", "y", "y", "y", "y", "y">> }
MsgsQ   == { <<"a", "n">>, <<"F">>, <<"S">>, <<>>, <<"x">>, <<"y", "y", "y", "y", "y", "y">> }
NoRot == -1
AllFixes == {"async_ctrl_by_content"}
RepoFixes == AllFixes
View == <<fD, szD, fB, szB, bufB, fA, szA, q, runA, nops, down>>
GenView == <<hist, down, Len(q), runA>>
Done == down /\ (~runA \/ q = <<>>)
Emit == (GenHist /\ Done) => PrintT(<<"REPLAY", ToJson([cfg |-> [cap |-> Cap, size |-> N], steps |-> hist])>>)
\* no forced rotation while messages are queued (see Modes!ModeIndependent)
NoOvertake == [][(fA' # fA /\ Len(fA') > Len(fA) /\ szA' = 0 /\ UNCHANGED q) => q = <<>>]_vars
=============================================================================
