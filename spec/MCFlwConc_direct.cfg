SPECIFICATION Spec
CONSTANTS
  Producers <- P2
  PerProducer = 2
  Mode = "direct"
  MaxAppOps = 2
  Fixes <- AllFixes
  GenHist = FALSE
INVARIANT C03_NoDuplicate
INVARIANT C03_PerProducerOrder
INVARIANT C03_OnlyAccepted
INVARIANT C03_AllArrive
INVARIANT C04_AfterShutdown
INVARIANT C04_AfterFlush
INVARIANT C04_CloneDropKeepsWriter
PROPERTY C04_ShutdownReturns
CHECK_DEADLOCK FALSE
