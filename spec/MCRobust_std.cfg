SPECIFICATION Spec
CONSTANTS
  DirCls <- DirClsEmpty
  Namings <- NamingsNum
  FmtCls <- FmtClsAll
  OutCls <- OutClsAll
  OpCls <- OpClsStd
  MaxOps = 3
  GenHist = TRUE
INVARIANT Emit
VIEW View
CHECK_DEADLOCK FALSE
