SPECIFICATION Spec
CONSTANTS
  NRot = 3
  K = 1
  M = 1
  Variant = "as_coded"
  Direct = TRUE
  GenHist = TRUE
INVARIANT Emit
CHECK_DEADLOCK FALSE
