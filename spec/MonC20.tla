------------------------------- MODULE MonC20 -------------------------------
(***************************************************************************)
(* C20: each record is framed as format output plus one line ending; the    *)
(* provided format functions are faithful; all outputs of one record carry  *)
(* the same timestamp.                                                      *)
(* Trace monitor for `flv route` traces (scenario kind "frame"). For every  *)
(* Log event the harness recorded, per output: the raw bytes the output     *)
(* received during the call (hex), the bytes of the public format function  *)
(* called by the harness itself at the same instant plus the configured     *)
(* line ending (hex), and the fields its own parser decoded from the raw    *)
(* bytes. Everything is COMPARED HERE:                                      *)
(*   which outputs must hold the record: Deliver of RouteProps.tla          *)
(*   bytes:      raw = expected where routed, raw = "" elsewhere            *)
(*   fields:     decoded level / module / file / line / message / key-      *)
(*               values / thread = the inputs of the call                   *)
(*   timestamp:  decoded instant of every output = the one instant of the   *)
(*               call, although the virtual clock advances at every read    *)
(*   JSON:       parses, single line                                        *)
(*   recursion:  the bytes are whole frames of the outer and inner records  *)
(*   files:      whole file = concatenation of the expected frames          *)
(***************************************************************************)
EXTENDS Naturals, Integers, Sequences, FiniteSets, TLC, Json, IOUtils, RouteProps

Rec == ndJsonDeserialize(IOEnv.TRACE)

VARIABLES l, c, spec, dupe, dupo,
          want,      \* sink -> hex of everything the sink must hold so far
          skipfin    \* the expected file content is unknown (recursive record in a deferred sink, panic)
mvars == <<l, c, spec, dupe, dupo, want, skipfin>>

E == Rec[l]
Ok(e) == e.ret = "ok"
NCounters == 14
Chk(e, name, ok) == IF ok THEN TRUE ELSE PrintT(<<"BAD", e.sc, e.n, name>>)
Cnt(i, cond) == IF cond THEN TLCSet(i, TLCGet(i) + 1) ELSE TRUE
Counters == [i \in 1..NCounters |-> TLCGet(i)]
\* TLC pretty-prints a value wider than 80 columns over several lines, which the line-oriented reader of
\* bin/check would miss; a string with an escaped quote makes the pretty-printer give up and print one line
Finish == IF l = Len(Rec) THEN PrintT(<<"COUNTS", Counters, "\"">>) /\ PrintT(<<"CONSUMED", l>>) ELSE TRUE

LevelName == <<"ERROR", "WARN", "INFO", "DEBUG", "TRACE">>
Base(f)   == CASE f = "cdefault" -> "default" [] f = "cdetailed" -> "detailed" [] f = "copt" -> "opt"
               [] f = "cthread" -> "thread" [] OTHER -> f
Provided(f) == Base(f) \in {"default", "detailed", "opt", "thread", "json"}
HasTs(f)    == Base(f) \in {"detailed", "opt", "thread", "json", "syslog"}
HasMp(f)    == Base(f) \in {"default", "detailed"}
HasLoc(f)   == Base(f) \in {"detailed", "opt", "thread"}
HasThr(f)   == Base(f) = "thread"
UNNAMED == "<unnamed>"

NoCfg == [kind |-> "-"]
Init == /\ l = 1 /\ c = NoCfg /\ spec = [dflt |-> 0, m |-> -1] /\ dupe = 0 /\ dupo = 0
        /\ want = <<>> /\ skipfin = FALSE
        /\ \A i \in 1..NCounters : TLCSet(i, 0)

\* number of frames of the record that output `s` must hold, by the property C13
Expect(D, W, s) == CASE s \in Names(W) -> D.got[s]
                     [] s = "err" -> ExpErr(c.primary, D)
                     [] s = "out" -> ExpOut(c.primary, D)
                     [] OTHER -> D.def          \* "file", "pw"
Tgt(e)  == [brace |-> e.brace, toks |-> e.toks, plain |-> e.plain]
Del(e)  == Deliver(c.writers, Tgt(e), e.lvl, e.mod, spec, dupe, dupo)
\* the inner record of a recursive call: its own target (default plain "m"), module "m", same level
DelIn(e) == Deliver(c.writers, [brace |-> e.ibrace, toks |-> e.itoks, plain |-> e.iplain], e.lvl, "m",
                    spec, dupe, dupo)

\* frames output x must hold after a recursive call, in any order
FramesRec(e, x) ==
    LET k  == Expect(Del(e), c.writers, x.sink)
        ki == Expect(DelIn(e), c.writers, x.sink)
        inn == IF ki = 1 THEN [i \in 1..Len(e.inner) |-> e.inner[i][x.sink]] ELSE <<>>
    IN (IF k = 1 THEN <<x.exp>> ELSE <<>>) \o inn
SomeOrder(F, hx) == \E p \in Permutations(1..Len(F)) : hx = Cat([i \in 1..Len(F) |-> F[p[i]]])

\* what output x must hold after this (ok) call
Grow(e, x) == IF x.fmt = "syslog" THEN ""
              ELSE IF e.rec THEN x.hex
              ELSE IF Expect(Del(e), c.writers, x.sink) = 1 THEN x.exp ELSE ""

Step ==
    /\ l <= Len(Rec)
    /\ l' = l + 1
    /\ LET e == E IN
       CASE e.ev = "Begin" ->
              /\ c' = e.norm /\ spec' = e.norm.spec /\ dupe' = e.norm.dupe /\ dupo' = e.norm.dupo
              /\ want' = [i \in 1..Len(e.norm.fmts) |-> ""] /\ skipfin' = FALSE
         [] e.ev = "AdaptErr" /\ Ok(e) -> dupe' = e.d /\ UNCHANGED <<c, spec, dupo, want, skipfin>>
         [] e.ev = "AdaptOut" /\ Ok(e) -> dupo' = e.d /\ UNCHANGED <<c, spec, dupe, want, skipfin>>
         [] e.ev = "SetSpec" /\ Ok(e)  -> /\ spec' = [dflt |-> e.dflt, m |-> e.m]
                                          /\ UNCHANGED <<c, dupe, dupo, want, skipfin>>
         [] e.ev = "Log" /\ c.kind = "frame" ->
              /\ want' = IF Ok(e) THEN [i \in 1..Len(want) |-> want[i] \o Grow(e, e.outs[i])] ELSE want
              /\ skipfin' = (skipfin \/ ~Ok(e) \/ (e.rec /\ \E i \in 1..Len(e.outs) : e.outs[i].defer))
              /\ UNCHANGED <<c, spec, dupe, dupo>>
         [] e.ev = "Crash" -> skipfin' = TRUE /\ UNCHANGED <<c, spec, dupe, dupo, want>>
         [] OTHER -> UNCHANGED <<c, spec, dupe, dupo, want, skipfin>>

SinkIdx(s) == CHOOSE i \in 1..Len(c.fmts) : c.fmts[i][1] = s

CheckOut(e, x) ==
    LET k  == Expect(Del(e), c.writers, x.sink)
        d  == x.dec
        f  == x.fmt
        js == f = "json"
        judged == k = 1 /\ ~x.defer /\ ~e.rec        \* one frame expected and observable per call
    IN
    IF f = "syslog"
    THEN \* no line framing in a datagram; the header carries the record's timestamp
         IF k = 1 /\ x.n = 1 THEN Chk(e, "OneTimestamp", d.ok /\ d.t = e.t) /\ Cnt(9, TRUE) ELSE TRUE
    ELSE IF x.defer THEN Cnt(10, TRUE)
    ELSE IF e.rec
    THEN LET F == FramesRec(e, x) IN
         IF Len(F) <= 6 THEN Chk(e, "RecursionFramed", SomeOrder(F, x.hex)) /\ Cnt(8, Len(F) > 1)
         ELSE Cnt(11, TRUE)
    ELSE
    \* the record occupies exactly the bytes of the format function followed by one line ending -
    \* once where it is routed, and nothing elsewhere
    /\ Chk(e, "FramedOnce", x.hex = (IF k = 1 THEN x.exp ELSE ""))
    /\ Cnt(2, k = 1) /\ Cnt(3, k = 1 /\ x.le = "0d0a")
    /\ IF ~(judged /\ Provided(f)) THEN TRUE ELSE
       /\ Chk(e, "Decodes", d.ok)
       /\ IF ~d.ok THEN TRUE ELSE
          /\ Cnt(4, TRUE)
          /\ Chk(e, "LevelFaithful", d.lvl = LevelName[e.lvl])
          /\ Chk(e, "MessageVerbatim", d.msghex = e.msghex)
          /\ IF HasTs(f) THEN Chk(e, "OneTimestamp", d.t = e.t /\ d.ts = e.ts) /\ Cnt(5, c.tick > 0) ELSE TRUE
          /\ IF js
             THEN /\ Chk(e, "JsonSingleLine", d.lf = 0 /\ d.cr = 0)
                  /\ Chk(e, "ModuleFaithful", d.hasmp = e.hasmp /\ (e.hasmp => d.mp = e.mod))
                  /\ Chk(e, "FileLineFaithful", /\ d.hasfile = e.hasfile /\ (e.hasfile => d.file = e.file)
                                                /\ d.hasline = e.hasline /\ (e.hasline => d.line = e.line))
                  /\ Chk(e, "ThreadFaithful", d.hasthread = (e.thread # "") /\ d.thread = e.thread)
                  /\ Chk(e, "KvFaithful", d.kvj = e.kvj)
                  /\ Cnt(6, TRUE)
             ELSE /\ IF HasMp(f) THEN Chk(e, "ModuleFaithful", d.mp = (IF e.hasmp THEN e.mod ELSE UNNAMED))
                     ELSE TRUE
                  /\ IF HasLoc(f)
                     THEN Chk(e, "FileLineFaithful", /\ d.file = (IF e.hasfile THEN e.file ELSE UNNAMED)
                                                     /\ d.line = (IF e.hasline THEN e.line ELSE 0))
                     ELSE TRUE
                  /\ IF HasThr(f) THEN Chk(e, "ThreadFaithful", d.thread = (IF e.thread = "" THEN UNNAMED ELSE e.thread))
                     ELSE TRUE
                  /\ Chk(e, "KvFaithful", d.kv = e.kvtxt)
          /\ Cnt(7, Len(e.kvj) > 0)

Check ==
    LET e == E IN
    IF e.ev = "Crash" THEN Chk(e, "Returned", FALSE)
    ELSE IF e.ev = "Begin" THEN Chk(e, "LoggerBuilt", Ok(e))
    ELSE IF c.kind # "frame" THEN TRUE
    ELSE IF e.ev = "Log" THEN
        /\ Chk(e, "Returned", Ok(e))
        /\ IF ~Ok(e) THEN TRUE ELSE
           /\ Cnt(1, TRUE)
           /\ \A i \in 1..Len(e.outs) : CheckOut(e, e.outs[i])
           /\ Cnt(12, e.rec)
    ELSE IF e.ev = "Final" THEN
        \* every file holds exactly the concatenation of the expected frames (this is the only check
        \* for outputs written asynchronously)
        IF skipfin THEN Cnt(13, TRUE)
        ELSE /\ \A i \in 1..Len(e.tot) :
                   Chk(e, "FileIsConcatenation", e.tot[i].hex = want[SinkIdx(e.tot[i].sink)])
             /\ Cnt(14, TRUE)
    ELSE TRUE

Next == Step /\ Check /\ Finish
Spec == Init /\ [][Next]_mvars
=============================================================================
