SPECIFICATION Spec
CONSTANTS
  Apps <- Apps2
  NRecs = 2
  Fixes <- Mutant
INVARIANT AfterShutdownAllPresent
CHECK_DEADLOCK FALSE
