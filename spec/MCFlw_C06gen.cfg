SPECIFICATION Spec
CONSTANTS
  Cfgs <- Cfgs_C06
  Lens <- Lens_C06
  Dts = {1}
  T0 = 1000
  MaxSw = 0
  ResetCfgs <- NoReset
  MaxRecs = 2
  MaxRuns = 3
  MaxTrig = 1
  MaxExt = 1
  MaxAdv = 1
  Fixes <- RepoFixes
  GenHist = TRUE
INVARIANT Emit
VIEW View
CONSTRAINT Bound
CHECK_DEADLOCK FALSE
