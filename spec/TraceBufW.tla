------------------------------ MODULE TraceBufW ------------------------------
(* Conform mode for the memory buffer: every record of a `flv route` trace whose *)
(* default channel is Logger::log_to_buffer carries the buffer's lines after the *)
(* call (their byte lengths, oldest first). The call must be BufW's write with   *)
(* the length of the line that arrived, and the buffer afterwards must be the    *)
(* specification's. One TLC state per trace line.                                *)
EXTENDS BufW, Json, IOUtils

Rec == ndJsonDeserialize(IOEnv.TRACE)
VARIABLES l, mx, chk
tvars == <<vars, l, mx, chk>>
E == Rec[l]
LensOf(b) == [k \in 1..Len(b) |-> b[k].len]
Has(e, f) == f \in DOMAIN e
\* number of chunks the buffer output received in this call (0: the line was empty and ignored)
Arrived(e) == \E k \in 1..Len(e.outs) : e.outs[k].sink = "pw" /\ e.outs[k].n > 0

TInit == Init /\ l = 1 /\ mx = 0 /\ chk = 0
Resync(e) == /\ buf' = [k \in 1..Len(e.snap) |-> [id |-> n + k, len |-> e.snap[k]]]
             /\ n' = n + Len(e.snap) /\ size' = Sum(buf')
TNext ==
    /\ l <= Len(Rec) /\ l' = l + 1
    /\ UNCHANGED <<held, stack, dead, calls>>
    /\ LET e == E IN
       IF e.ev = "Begin"
       THEN /\ buf' = <<>> /\ size' = 0 /\ n' = 0 /\ chk' = chk
            /\ mx' = IF Has(e.norm, "buffer") /\ e.norm.buffer THEN e.norm.bufmax ELSE 0
       ELSE IF mx = 0 \/ e.ev # "Log" \/ ~Has(e, "snap") \/ e.ret # "ok" THEN UNCHANGED <<buf, size, n, mx, chk>>
       ELSE IF e.rec
       THEN \* a record that logs while it is formatted adds several lines: the buffer is taken over as observed
            Resync(e) /\ UNCHANGED <<mx, chk>>
       ELSE LET len == IF Arrived(e) /\ Len(e.snap) > 0 THEN e.snap[Len(e.snap)] ELSE 0
                r == PushTo(buf, size, n, len, mx) IN
            /\ buf' = r.buf /\ size' = r.size /\ n' = r.n /\ mx' = mx /\ chk' = chk + 1
            /\ LensOf(r.buf) = e.snap                      \* the buffer is the specification's
            /\ (r.size <= mx \/ Len(r.buf) = 1)            \* WithinLimit on the observed run
    /\ IF l = Len(Rec) THEN PrintT(<<"CONSUMED", l>>) /\ PrintT(<<"STAT", chk'>>) ELSE TRUE
TSpec == TInit /\ [][TNext]_tvars
=============================================================================
