------------------------------ MODULE MCRobust ------------------------------
EXTENDS Robust, Json
DirClsAll == {"empty", "earlier_run", "near_miss", "multibyte_at_infix", "multibyte_in_infix", "malformed_restart",
              "dir_named_like_rotated", "dir_at_current_path", "only_gz", "high_index", "huge_file", "unicode_digits",
              "symlink_dangling", "many_files"}
NamingsAll == {"Num", "NumD", "Ts", "TsD", "TsC", "TsCD"}
\* (formats that chrono cannot parse back into a date or date-time - literal text only, year+month only - violate the
\* documented precondition of TimestampsCustomFormat and are not in the catalogue)
FmtClsAll == {"std", "with_dot", "no_r", "date_only", "with_space", "percent", "compact", "with_millis_literal"}
OpClsAll == {"log_plain", "log_empty_msg", "log_multiline", "log_nonascii", "log_huge", "log_no_fields",
             "log_target_empty", "log_brace_open", "log_brace_empty", "log_brace_unbalanced", "log_brace_trailing_comma",
             "log_brace_multibyte", "log_brace_unknown", "log_brace_default", "trigger", "flush", "elf", "reopen",
             "parse_garbage", "parse_unicode", "restart", "reset", "dir_removed", "log_recursive"}
OpClsQ == {"log_plain", "log_no_fields", "log_brace_open", "log_brace_multibyte", "log_brace_unknown", "trigger", "elf",
           "parse_garbage", "restart", "dir_removed", "log_recursive"}
DirClsEmpty == {"empty"}
NamingsNum == {"Num"}
OutClsFile == {"file"}
OutClsAll == {"file_direct", "file_buf", "file_async", "stdout_direct", "stdout_buf", "stdout_async", "stderr_direct",
              "stderr_buf", "stderr_async", "both_direct", "both_buf", "both_async", "pw_direct", "buffer_direct"}
OpClsStd == {"log_plain", "log_recursive", "log_recursive_brace", "log_recursive_to_writer", "log_brace_default",
             "log_brace_open", "adapt_dup", "log_recursive_respec"}
View == <<dirc, naming, fmtc, append, outc, ops, hist>>
Emit == (GenHist /\ ops = MaxOps) =>
          PrintT(<<"REPLAY", ToJson([cfg |-> [dirc |-> dirc, naming |-> naming, fmtc |-> fmtc, append |-> append, outc |-> outc], steps |-> hist])>>)
=============================================================================
