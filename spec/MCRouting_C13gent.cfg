SPECIFICATION Spec
CONSTANTS
  Cfgs <- Cfgs_C13gent
  Targets <- Targets3
  Lvls <- Levels5
  Mods <- Mods3
  Shapes <- Shapes_Id
  Specs <- NoSpecs
  Dups <- NoDups
  MaxRecs = 1
  MaxAdapt = 0
  MaxSet = 0
  Counting = TRUE
  Admit <- AdmitAll
  Fixes <- RepoFixes
  GenHist = TRUE
INVARIANT Emit
VIEW View
CHECK_DEADLOCK FALSE
