------------------------------- MODULE Robust -------------------------------
(***************************************************************************)
(* C10: logging operations never panic or hang, whatever the input or the  *)
(* directory content. The specification is a TOTALITY requirement over an   *)
(* input-class catalogue: whatever class the directory content, the naming  *)
(* configuration and the operation's arguments belong to, every operation   *)
(* returns (ok, an error result, or a report on the error channel) and      *)
(* leaves a logger that accepts further operations - the state `poisoned`   *)
(* is unreachable. TLC's job is combinatorial: every (directory class x     *)
(* naming x format class x append) with every sequence of <= MaxOps         *)
(* operation classes; each behaviour is instantiated on the real code with  *)
(* fixed representatives and seeded random members of the classes.          *)
(* A second catalogue (MCRobust_std.cfg) varies the OUTPUT class instead:   *)
(* default channel = file / stdout / stderr / file+writer / writer x write   *)
(* mode, with operation classes that include records whose message logs     *)
(* itself when it is formatted (recursive logging).                         *)
(***************************************************************************)
EXTENDS Naturals, Sequences, TLC

CONSTANTS DirCls,     \* what the log directory holds before the logger starts
          Namings,    \* naming schemes
          FmtCls,     \* classes of custom timestamp formats (by length / content)
          OpCls,      \* operation classes (op + argument class)
          OutCls,     \* where the default channel goes (file / stdout / stderr / both / a writer) x write mode
          MaxOps, GenHist

VARIABLES dirc, naming, fmtc, append, outc, ops, outcome, poisoned, hist
vars == <<dirc, naming, fmtc, append, outc, ops, outcome, poisoned, hist>>

Outcomes == {"ok", "error_result", "reported"}
Custom(n) == n \in {"TsC", "TsCD"}

Init == /\ dirc \in DirCls /\ naming \in Namings /\ append \in BOOLEAN /\ outc \in OutCls
        /\ fmtc \in (IF Custom(naming) THEN FmtCls ELSE {"std"})
        /\ ops = 0 /\ outcome = "ok" /\ poisoned = FALSE /\ hist = <<>>

\* every operation is total: it has one of the three outcomes, and none of them poisons the logger
Apply(o) == /\ ops < MaxOps /\ ~poisoned
            /\ ops' = ops + 1
            /\ outcome' \in Outcomes
            /\ poisoned' = FALSE
            /\ hist' = IF GenHist THEN Append(hist, o) ELSE hist
            /\ UNCHANGED <<dirc, naming, fmtc, append, outc>>

Next == \E o \in OpCls : Apply(o)
Spec == Init /\ [][Next]_vars

NeverPoisoned == ~poisoned
AlwaysAnotherOperationPossible == (ops < MaxOps) => ENABLED Next
=============================================================================
