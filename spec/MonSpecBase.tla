----------------------------- MODULE MonSpecBase -----------------------------
(***************************************************************************)
(* Common part of the trace monitors of the log-specification family       *)
(* (MonC02, MonC05, MonC12, MonC17). Reads the ndjson trace named by the    *)
(* environment variable TRACE, one state per trace line; many scenarios     *)
(* share one trace, a Begin event opens a scenario. Monitors never          *)
(* constrain the behaviour: a failed predicate is reported with a "BAD"     *)
(* line and the trace is consumed to its end, so every failure of a run is  *)
(* reported. The predicates are the properties' own statements (operators   *)
(* of SpecDefs / SpecText) evaluated on the observed data; the active       *)
(* specification is known from the event arguments.                         *)
(***************************************************************************)
EXTENDS SpecText, TLC, Json, IOUtils

Rec == ndJsonDeserialize(IOEnv.TRACE)

VARIABLES l,    \* index of the next trace line
          c     \* the Begin event of the current scenario
E == Rec[l]
\* the scenario context valid for the event being consumed
Ctx == IF E.ev = "Begin" THEN E ELSE c
NCounters == 16
BaseInit == /\ l = 1 /\ c = [ev |-> "none"]
            /\ \A i \in 1..NCounters : TLCSet(i, 0)
BaseStep == /\ l <= Len(Rec) /\ l' = l + 1
            /\ c' = Ctx

Chk(e, name, ok) == IF ok THEN TRUE ELSE PrintT(<<"BAD", e.sc, e.n, name>>)
Cnt(i, cond) == IF cond THEN TLCSet(i, TLCGet(i) + 1) ELSE TRUE
Add(i, k) == TLCSet(i, TLCGet(i) + k)
Counters == [i \in 1..NCounters |-> TLCGet(i)]
AtEnd == l = Len(Rec)
\* TLC pretty-prints a tuple that is longer than 80 characters over several lines, which the driver's
\* line parser does not read: the counters are therefore also written to the file <trace>.counts
Finish == IF AtEnd
          THEN /\ ndJsonSerialize(IOEnv.TRACE \o ".counts", <<[counts |-> Counters]>>)
               /\ PrintT(<<"COUNTS", ToString(Counters)>>) /\ PrintT(<<"CONSUMED", l>>)
          ELSE TRUE

Panicked(e) == Len(e.ret) >= 5 /\ SubSeq(e.ret, 1, 5) = "panic"
\* plain module sequences of the scenario's targets
ModsOfT(T) == [i \in DOMAIN T |-> T[i].m]
\* number of cells of a messages x targets x levels array that are > 0
Pos3(a) == Cardinality({<<m, i, v>> \in (DOMAIN a) \X (1..(IF Len(a) = 0 THEN 0 ELSE Len(a[1]))) \X Levels : a[m][i][v] > 0})
=============================================================================
