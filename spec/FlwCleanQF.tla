----------------------------- MODULE FlwCleanQF -----------------------------
(***************************************************************************)
(* FlwCleanQ.tla with FAILING effects inside the background cleanup thread  *)
(* (C19 "cleanup resumes", C07 after a failed cleanup):                     *)
(*   CFail    the effect the thread is about to perform fails; the run ends *)
(*            there (`?` in remove_or_compress_too_old_logfiles_impl), the  *)
(*            error is dropped (`.ok()` in the thread's loop), the thread    *)
(*            waits for the next Act                                        *)
(* A compression that fails after fs:gz_create leaves the .gz next to its   *)
(* original; the next run first removes every .gz whose original still      *)
(* exists (list_and_cleanup.rs:128-144, one fs:remove each, counted as the   *)
(* original in the listing) and then decides by position as usual.           *)
(* Properties: nothing inside the limits is ever removed, nothing among the  *)
(* newest K is compressed, a compressed file without its original is a       *)
(* FINISHED one (no record is lost through a failing cleanup), and as soon as *)
(* one run that started after the last rotation completes without failure    *)
(* the limits hold exactly again (CleanupResumes).                           *)
(***************************************************************************)
EXTENDS FlwCleanQ, Integers

CONSTANT MaxFail
VARIABLES nfail,   \* failures so far
          fin,     \* indexes whose .gz was finished (fs:gz_finish done)
          snapAt,  \* number of rotations when the current run took its listing
          good     \* a run that listed after the last rotation has completed without failure
fvars == <<vars, nfail, fin, snapAt, good>>

FInit == Init /\ nfail = 0 /\ fin = {} /\ snapAt = 0 /\ good = TRUE

RECURSIVE Desc(_)
Desc(S) == IF S = {} THEN <<>> ELSE LET i == CHOOSE x \in S : \A y \in S : y <= x IN <<i>> \o Desc(S \ {i})

RotateF == Rotate /\ good' = FALSE /\ UNCHANGED <<nfail, fin, snapAt>>
CRecvF == CRecv /\ UNCHANGED <<nfail, fin, snapAt, good>>
ShutdownF == Shutdown /\ UNCHANGED <<nfail, fin, snapAt, good>>
JoinF == Join /\ UNCHANGED <<nfail, fin, snapAt, good>>

CListF == /\ cst = "got"
          /\ LET tw == Desc(plain \cap gz)
                 un == [j \in 1..Len(tw) |-> [i |-> tw[j], z |-> TRUE, pos |-> -1]]
                 L == Listing(Existing, 0)
                 todo == un \o SelectSeq(L, LAMBDA f : f.pos >= KK + M \/ (f.pos >= KK /\ ~f.z))
             IN /\ snap' = todo
                /\ cst' = IF todo = <<>> THEN "wait" ELSE "run"
                /\ good' = IF todo = <<>> THEN TRUE ELSE good
          /\ zs' = 0 /\ snapAt' = nrot
          /\ hist' = H([op |-> "CList"])
          /\ UNCHANGED <<plain, gz, nrot, chan, app, nfail, fin>>

Done == Len(snap) = 1
CStepF == /\ cst = "run" /\ snap # <<>>
          /\ LET f == Head(snap) IN
             IF f.pos = -1
             THEN \* the .gz of an interrupted compression goes first (fs:remove)
                  /\ gz' = gz \ {f.i} /\ fin' = fin \ {f.i} /\ plain' = plain /\ Advance
                  /\ good' = IF Done /\ snapAt = nrot THEN TRUE ELSE good
             ELSE IF f.pos >= KK + M
             THEN /\ plain' = plain \ {f.i} /\ gz' = gz \ {f.i} /\ fin' = fin \ {f.i} /\ Advance
                  /\ good' = IF Done /\ snapAt = nrot THEN TRUE ELSE good
             ELSE CASE zs = 0 -> gz' = gz \cup {f.i} /\ zs' = 1 /\ UNCHANGED <<plain, snap, cst, fin, good>>
                    [] zs = 1 -> zs' = 2 /\ UNCHANGED <<plain, gz, snap, cst, fin, good>>
                    [] zs = 2 -> zs' = 3 /\ fin' = fin \cup {f.i} /\ UNCHANGED <<plain, gz, snap, cst, good>>
                    [] zs = 3 -> /\ plain' = plain \ {f.i} /\ gz' = gz /\ fin' = fin /\ Advance
                                 /\ good' = IF Done /\ snapAt = nrot THEN TRUE ELSE good
          /\ hist' = H([op |-> "CStep"])
          /\ UNCHANGED <<nrot, chan, app, nfail, snapAt>>

CFail == /\ cst = "run" /\ snap # <<>> /\ nfail < MaxFail
         /\ nfail' = nfail + 1 /\ snap' = <<>> /\ cst' = "wait" /\ zs' = 0 /\ good' = FALSE
         /\ hist' = H([op |-> "CFail"])
         /\ UNCHANGED <<plain, gz, nrot, chan, app, fin, snapAt>>

FNext == RotateF \/ CRecvF \/ CListF \/ CStepF \/ CFail \/ ShutdownF \/ JoinF
FSpec == FInit /\ [][FNext]_fvars /\ WF_fvars(CRecvF) /\ WF_fvars(CListF) /\ WF_fvars(CStepF) /\ WF_fvars(JoinF)

\* once a run that listed after the last rotation has completed without failure, the limits hold exactly (also at shutdown)
CleanupResumes == (good /\ cst \in {"wait", "dead"} /\ (chan = <<>> \/ cst = "dead")) =>
    /\ plain = Newest(KK) /\ gz = Newest(KK + M) \ Newest(KK)
\* no record is lost through a failing cleanup: a compressed file that has replaced its original is a finished one
OnlyFinishedReplace == (gz \ plain) \subseteq fin
FShutdownReturns == (app = "shutting") ~> (app = "down")
=============================================================================
