---------------------------- MODULE TraceFlwConc ----------------------------
(***************************************************************************)
(* Conform mode for FREE-RUNNING threads: an execution of the real code in  *)
(* which 2-16 threads log concurrently (no schedule control) is recorded as *)
(* one totally ordered list of events and must be a behaviour of            *)
(* FlwConc.tla.                                                             *)
(*                                                                         *)
(* Events (recorded under one mutex of the harness, which orders them):     *)
(*   B  p k   thread p is about to call log() for its k-th record           *)
(*   Fm p     hook sc:formatted  (sync: formatted, state mutex not yet held) *)
(*   W  p     hook fs:write hit by thread p>0 INSIDE the critical section    *)
(*            under the state mutex = the linearisation point of WriteSync  *)
(*   Bs p     hook sc:before_send (async: formatted, not yet sent)          *)
(*   Rv 0     hook sc:writer_recv: the writer thread has dequeued a message *)
(*   W  0     hook fs:write hit by the writer thread                        *)
(*   E  p k   log() has returned to thread p                                *)
(*   SdB/SdE  the application thread calls shutdown() / it has returned     *)
(*   FlB/FlE  the application thread calls flush() / it has returned, with   *)
(*            the record ids it then reads from the file (histories without  *)
(*            rotation)                                                      *)
(*   Final    the files, read after shutdown                               *)
(*                                                                         *)
(* Binding to the actions of FlwConc:                                       *)
(*   Fm, Bs -> Format(p)        W p>0 -> WriteSync(p)     SdB -> Shutdown    *)
(*   Rv     -> Recv, the kind of the message (data / control) taken from the *)
(*             writer thread's own next event (a data message is followed by *)
(*             its fs:write before the next Rv)                             *)
(*   SdE    -> Join (async) - enabled only when the writer thread has ended  *)
(*   B, E   -> no step of the specification, but E REQUIRES that the record  *)
(*             is acknowledged in the specification's state (written under   *)
(*             the mutex resp. sent)                                        *)
(* The channel send of the async mode is lock-free and has no hook of its    *)
(* own: Send(p) is an internal step. The order of the sends is the order in  *)
(* which the records arrive in the files (single consumer, FIFO), so the     *)
(* step is taken for the record that is next in the final stream, as early   *)
(* as it is enabled, and events are consumed only when no send is pending    *)
(* (earliest-possible sending is complete: any real send time lies between   *)
(* Bs and E of the call, after the send of the record before it in the       *)
(* stream). Messages of the flusher thread (Flush) are not modelled: an Rv   *)
(* of a control message that the model's queue does not explain is a         *)
(* stuttering step, allowed only when a flusher is configured.               *)
(* At Final the specification's `file` must be EXACTLY the stream read from  *)
(* the files: same records, same order - the order of the critical sections  *)
(* (sync) resp. of the dequeues (async).                                     *)
(***************************************************************************)
EXTENDS FlwConc, Json, IOUtils

Rec == ndJsonDeserialize(IOEnv.TRACE)
TrMode == IOEnv.MODE            \* one TLC run per write-mode class: "direct" | "buf" | "async"
TrProducers == 1..16
TrFixes == {"clone_drop_shutdown"}

VARIABLES l,      \* position in Rec
          F,      \* ids of the final stream of the current scenario (from its Final event)
          ns,     \* number of data messages sent so far (async)
          wr,     \* number of fs:write events of the writer thread (async)
          fl,     \* a flusher thread is configured
          on      \* the current scenario is checked (conf)
tvars == <<vars, l, F, ns, wr, fl, on>>

E == Rec[l]
Num(id) == id[1] * 100000 + id[2]

\* the final stream of the scenario that begins at line j: rotated files oldest first (the harness lists the files in
\* reading order), decompressed, then the current file
RECURSIVE Flat(_, _)
Flat(files, j) == IF j > Len(files) THEN <<>>
                  ELSE [x \in 1..Len(files[j].recs) |-> files[j].recs[x][1]] \o Flat(files, j + 1)
FinalOf(j) == LET fe == Rec[j + Rec[j].nev + 1] IN Flat(fe.files, 1)

\* the writer thread's next event after line j
RECURSIVE NextOfWriter(_)
NextOfWriter(j) == IF j > Len(Rec) \/ Rec[j].ev \in {"Final", "Begin"} THEN "none"
                   ELSE IF Rec[j].ev \in {"Rv", "W"} /\ Rec[j].p = 0 THEN Rec[j].ev
                   ELSE NextOfWriter(j + 1)

TInit == Init /\ l = 1 /\ F = <<>> /\ ns = 0 /\ wr = 0 /\ fl = FALSE /\ on = FALSE

Reset == /\ pc' = [p \in Producers |-> "idle"] /\ cnt' = [p \in Producers |-> 0]
         /\ file' = <<>> /\ wbuf' = <<>> /\ q' = <<>> /\ alive' = Async /\ joinable' = Async
         /\ clones' = 0 /\ app' = "run" /\ acked' = {} /\ ackAtShut' = {} /\ ackAtFlush' = {} /\ flushed' = FALSE
         /\ lostOk' = {} /\ ops' = 0 /\ hist' = <<>>

NextToSend == IF ns < Len(F) THEN F[ns + 1] ELSE 0
CanSend == Async /\ on /\ \E p \in Producers : pc[p] = "formatted" /\ Num(Id(p, cnt[p])) = NextToSend
\* the internal step: the channel send of the record that is next in the stream
SilentSend == /\ CanSend
              /\ \E p \in Producers : pc[p] = "formatted" /\ Num(Id(p, cnt[p])) = NextToSend /\ Send(p)
              /\ ns' = ns + 1
              /\ UNCHANGED <<l, F, wr, fl, on>>

Consume(e) ==
    IF e.ev = "Begin"
    THEN /\ Reset /\ ns' = 0 /\ wr' = 0
         /\ on' = (e.conf /\ e.nev > 0)
         /\ F' = IF e.conf /\ e.nev > 0 THEN FinalOf(l) ELSE <<>>
         /\ fl' = ("flush_ms" \in DOMAIN e.cfg /\ e.cfg.flush_ms > 0)
    ELSE IF ~on THEN UNCHANGED <<vars, F, ns, wr, fl, on>>
    ELSE CASE e.ev = "B" -> /\ pc[e.p] = "idle" /\ cnt[e.p] = e.k - 1
                            /\ UNCHANGED <<vars, F, ns, wr, fl, on>>
           [] e.ev = "Fm" -> ~Async /\ Format(e.p) /\ UNCHANGED <<F, ns, wr, fl, on>>
           [] e.ev = "Bs" -> Async /\ Format(e.p) /\ UNCHANGED <<F, ns, wr, fl, on>>
           [] e.ev = "W" /\ e.p > 0 -> ~Async /\ WriteSync(e.p) /\ UNCHANGED <<F, ns, wr, fl, on>>
           [] e.ev = "E" -> \* the call returns: its record is acknowledged in the specification's state
                            /\ pc[e.p] = "idle" /\ cnt[e.p] = e.k /\ Id(e.p, e.k) \in acked
                            /\ UNCHANGED <<vars, F, ns, wr, fl, on>>
           [] e.ev = "Rv" ->
                 IF NextOfWriter(l + 1) = "W"
                 THEN \* a data message: the head of the specification's queue
                      /\ q # <<>> /\ Head(q).t = "data" /\ Recv /\ UNCHANGED <<F, ns, wr, fl, on>>
                 ELSE \* a control message: the application's (in the queue) or the flusher's (not modelled)
                      \/ /\ q # <<>> /\ Head(q).t # "data" /\ Recv /\ UNCHANGED <<F, ns, wr, fl, on>>
                      \/ /\ fl /\ UNCHANGED <<vars, F, ns, wr, fl, on>>
           [] e.ev = "W" /\ e.p = 0 -> \* the effect of the data message dequeued last: exactly one write per message
                            /\ Async /\ Len(file) = wr + 1 /\ wr' = wr + 1
                            /\ UNCHANGED <<vars, F, ns, fl, on>>
           \* the application thread calls flush() while the threads log (sync: under the state mutex, somewhere between
           \* FlB and FlE; the specification flushes at FlB, which demands less): when it has returned, everything that
           \* was acknowledged when it was called must be in the file the application thread then reads
           [] e.ev = "FlB" -> Flush /\ UNCHANGED <<F, ns, wr, fl, on>>
           [] e.ev = "FlE" -> /\ Async \/ {Num(id) : id \in ackAtFlush} \subseteq {e.seen[j] : j \in 1..Len(e.seen)}
                              /\ UNCHANGED <<vars, F, ns, wr, fl, on>>
           [] e.ev = "SdB" -> Shutdown /\ UNCHANGED <<F, ns, wr, fl, on>>
           [] e.ev = "SdE" -> /\ IF app = "shutting" THEN Join ELSE (app = "down" /\ UNCHANGED vars)
                              /\ UNCHANGED <<F, ns, wr, fl, on>>
           [] e.ev = "Final" -> \* what is in the files is what the specification wrote, in its order
                            /\ app = "down" /\ wbuf = <<>> /\ (Async => (~alive /\ q = <<>>))
                            /\ [j \in 1..Len(file) |-> Num(file[j])] = F
                            /\ UNCHANGED <<vars, F, ns, wr, fl, on>>
           [] OTHER -> FALSE

EventStep == /\ l <= Len(Rec) /\ ~CanSend
             /\ Consume(E)
             /\ l' = l + 1
             /\ TLCSet(42, IF TLCGet(42) < l THEN l ELSE TLCGet(42))
             /\ IF l = Len(Rec) THEN PrintT(<<"CONSUMED", l>>) ELSE TRUE

TNext == SilentSend \/ EventStep
TSpec == TInit /\ TLCSet(42, 0) /\ [][TNext]_tvars
\* the highest line that was explained (reported when the trace is not consumed)
Reached == PrintT(<<"REACHED", TLCGet(42)>>)
=============================================================================
