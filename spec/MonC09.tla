------------------------------- MODULE MonC09 -------------------------------
(* C09: age criterion - rotate exactly at the first write in a later period; *)
(* timestamp-named files carry the start time of their content.              *)
(* Judged on observations in which every accepted record is on disk.         *)
EXTENDS MonBase

Gran(cc) == IF cc.fmt = "r%Y-%m-%d_%H-%M-%S" \/ cc.fmt = "r%Y%m%d-%H%M%S" THEN 1
            ELSE IF cc.fmt = "r%Y-%m-%d_%H-%M" THEN 60
            ELSE IF cc.fmt = "r%Y-%m-%d_%H" THEN 3600 ELSE 86400

Check ==
    LET e == E
        a == acc'
        cc == c'
    IN  IF ~HasObs(e) \/ ~cc.rot THEN TRUE ELSE
        LET F == e.obs.files IN
        \* with use_utc() the infix is the start time rendered in UTC (the zones of the harness have a fixed offset)
        /\ Chk(e, "TsNameIsStart", cc.clean \/ IF cc.utc THEN TsNameIsStartOff(F, Gran(cc), cc.utcoff)
                                                ELSE TsNameIsStart(F, Gran(cc)))
        /\ Cnt(6, cc.utc /\ cc.utcoff # 0 /\ \E j \in 1..Len(F) : F[j].k = "ts")
        /\ IF cc.age = "" \/ cc.clean \/ Stream(F) # a THEN Cnt(5, TRUE) ELSE
           /\ Chk(e, "OnePeriodPerFile", OnePeriodPerFile(F, cc.age, wts'))
           /\ Chk(e, "NoRotationInsidePeriod", NoRotationInsidePeriod(F, cc.age, cc.size, forced'))
           /\ Cnt(1, TRUE)
           /\ Cnt(2, Len(ReadOrder(F)) > 1)
           /\ Cnt(3, runs' > 1)
           /\ Cnt(4, \E j \in 1..Len(F) : F[j].k = "ts")

Init == BaseInit
Next == BaseStep /\ Check /\ Finish
Spec == Init /\ [][Next]_bvars
=============================================================================
