------------------------------- MODULE MonC14 -------------------------------
(* C14: files outside the logger's naming pattern are never touched and      *)
(* never disturb it. Every history is executed twice (same group `grp`):     *)
(* first in a directory without foreign files (the reference), then with a   *)
(* set of near-miss foreign files created before the first start; event      *)
(* numbers are aligned (the reference has Nop steps where the other run      *)
(* creates the foreign files).                                               *)
EXTENDS Naturals, Integers, Sequences, FiniteSets, TLC, Json, IOUtils, SequencesExt

Rec == ndJsonDeserialize(IOEnv.TRACE)
VARIABLES l, grp, isref, ref, fset, started
vars == <<l, grp, isref, ref, fset, started>>
E == Rec[l]
NCounters == 6
Init == /\ l = 1 /\ grp = -1 /\ isref = TRUE /\ ref = <<>> /\ fset = <<>> /\ started = FALSE
        /\ \A i \in 1..NCounters : TLCSet(i, 0)
Chk(e, name, ok) == IF ok THEN TRUE ELSE PrintT(<<"BAD", e.sc, e.n, name>>)
Cnt(i, cond) == IF cond THEN TLCSet(i, TLCGet(i) + 1) ELSE TRUE
Finish == IF l = Len(Rec) THEN PrintT(<<"COUNTS", [i \in 1..NCounters |-> TLCGet(i)]>>) /\ PrintT(<<"CONSUMED", l>>)
          ELSE TRUE

\* what the logger writes, rotates, lists, cleans up - as observable
Fam(e) == IF e.ev = "Begin" \/ ~e.o THEN <<>>
          ELSE [j \in 1..Len(e.obs.files) |-> <<e.obs.files[j].name, e.obs.files[j].recs, e.obs.files[j].clean>>]
Listed(e) == IF e.ev = "Elf" /\ "result" \in DOMAIN e THEN e.result ELSE <<>>
Sig(e) == [ev |-> e.ev, ret |-> IF e.ev = "Begin" THEN "" ELSE e.ret, fam |-> Fam(e), listed |-> Listed(e),
           errs |-> IF e.ev = "Begin" THEN <<>> ELSE SelectSeq(e.errs, LAMBDA c : c # "Palette"),
           link |-> IF e.ev = "Begin" \/ ~e.o THEN "" ELSE e.obs.link]
\* identity of the foreign files: name, kind, size, content hash, inode, modification time
Foreign(e) == [j \in 1..Len(e.obs.foreign) |->
                 LET f == e.obs.foreign[j] IN <<f.name, f.kind, f.size, f.sha, f.ino, f.mtime>>]

Next ==
    /\ l <= Len(Rec) /\ l' = l + 1
    /\ LET e == E
           newgrp == e.ev = "Begin" /\ e.grp # grp
       IN
       /\ grp' = IF e.ev = "Begin" THEN e.grp ELSE grp
       /\ isref' = IF e.ev = "Begin" THEN newgrp ELSE isref
       /\ ref' = IF newgrp THEN <<Sig(e)>> ELSE IF isref /\ e.ev # "Begin" THEN Append(ref, Sig(e)) ELSE ref
       /\ started' = IF e.ev = "Begin" THEN FALSE ELSE (started \/ e.ev = "Start")
       /\ fset' = IF e.ev = "Begin" THEN <<>>
                  ELSE IF e.ev = "Start" /\ ~started /\ e.o THEN Foreign(e) ELSE fset
       /\ IF e.ev # "Begin" /\ ~isref
          THEN /\ Chk(e, "Aligned", e.n <= Len(ref) /\ (ref[e.n].ev = e.ev \/ ref[e.n].ev = "Nop"))
               /\ IF e.n <= Len(ref) /\ ref[e.n].ev = e.ev
                  THEN /\ Chk(e, "SameResult", ref[e.n].ret = e.ret)
                       /\ Chk(e, "FamilyUnaffected", ref[e.n].fam = Fam(e))
                       /\ Chk(e, "ListingUnaffected", ref[e.n].listed = Listed(e))
                       /\ Chk(e, "ErrorsUnaffected", ref[e.n].errs = Sig(e).errs)
                       /\ Chk(e, "LinkUnaffected", ref[e.n].link = Sig(e).link)
                       /\ Cnt(1, TRUE) /\ Cnt(2, Len(Fam(e)) > 1) /\ Cnt(3, e.ev = "Elf")
                  ELSE TRUE
               /\ IF started /\ e.o
                  THEN Chk(e, "ForeignUntouched", Foreign(e) = fset) /\ Cnt(4, Len(fset) > 0)
                  ELSE TRUE
          ELSE TRUE
    /\ Finish
Spec == Init /\ [][Next]_vars
=============================================================================
