SPECIFICATION Spec
CONSTANTS
  DirCls <- DirClsAll
  Namings <- NamingsAll
  FmtCls <- FmtClsAll
  OutCls <- OutClsFile
  OpCls <- OpClsAll
  MaxOps = 2
  GenHist = FALSE
INVARIANT NeverPoisoned
INVARIANT AlwaysAnotherOperationPossible
CHECK_DEADLOCK FALSE
