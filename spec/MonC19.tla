------------------------------- MODULE MonC19 -------------------------------
(* C19: I/O failures are reported, lose only the failing write, and logging  *)
(* recovers. A scenario arms the fault injector (Fault event): from the k-th *)
(* file-system effect on, a burst of effects fails with an io::Error; the    *)
(* events carry the number (inj) and the hook names (injp) of the failures   *)
(* injected while they ran, and the new error-channel lines (errs).          *)
EXTENDS MonBase

VARIABLES failed,    \* ids of records during whose log call a failure was injected
          seenids,   \* ids seen on disk at the previous observation
          clearId    \* number of accepted records when the failures ended (-1: not yet)
fvars == <<bvars, failed, seenids, clearId>>

Ids(s) == {s[j][1] : j \in 1..Len(s)}
Errs(e) == SelectSeq(e.errs, LAMBDA x : x # "Palette")
\* failures that keep a record from being written or a rotation from completing
Blocking(e) == \E j \in 1..Len(e.injp) : e.injp[j] \in {"fs:write", "fs:open", "fs:rename"}

Upd ==
    LET e == E IN
    IF e.ev = "Begin" THEN failed' = {} /\ seenids' = {} /\ clearId' = -1
    ELSE /\ failed' = IF e.ev = "Log" /\ e.inj > 0 THEN failed \cup {e.id} ELSE failed
         /\ seenids' = IF e.o THEN Ids(Stream(Untwin(e.obs.files))) ELSE seenids
         /\ clearId' = IF clearId < 0 /\ e.inj > 0 /\ e.faultleft = 0 THEN Len(acc')
                       ELSE IF e.ev = "FaultOff" /\ clearId < 0 THEN Len(acc') ELSE clearId

Check ==
    LET e == E
        a == acc'
        cc == c'
    IN  IF e.ev = "Begin" THEN TRUE ELSE
        \* the affected call returns normally
        /\ Chk(e, "CallReturns", e.retk \in {"ok", "noop", "err"})
        /\ Chk(e, "LogReturnsOk", e.ev # "Log" \/ e.retk \in {"ok", "noop"})
        \* every failure that kept a record from being written or a rotation from completing is reported:
        \* on the error channel, or - for the explicit calls - as error result
        /\ IF e.inj > 0 /\ Blocking(e)
           THEN Chk(e, "FailureReported", Len(Errs(e)) > 0 \/ (e.ev # "Log" /\ e.retk = "err")) /\ Cnt(1, TRUE)
           ELSE TRUE
        /\ IF ~HasObs(e) THEN TRUE ELSE
           LET F == Untwin(e.obs.files)     \* an unfinished .gz next to its original does not count
               S == Stream(F)
           IN
           /\ Chk(e, "AllClean", AllClean(F))
           /\ Chk(e, "NoDuplicate", \A x, y \in 1..Len(S) : x # y => S[x][1] # S[y][1])
           \* no previously written record is lost (cleanup limits aside)
           /\ Chk(e, "NothingEarlierLost", cc.clean \/ e.ev \in {"ExtRemove", "ExtRename"} \/ seenids \subseteq Ids(S))
           /\ Chk(e, "OrderKept", Ascending(S))
           /\ Cnt(2, e.inj > 0)
           \* at the end: only records whose own log call saw a failure may be missing
           /\ IF SyncEv(e) /\ e.ev = "Stop"
              THEN LET must == SelectSeq(a, LAMBDA p : p[1] \notin failed \/ p[1] \in Ids(S)) IN
                   /\ Chk(e, "MissingOnlyOwnFailure", IF cc.clean THEN IsSuffix(S, must) ELSE S = must)
                   /\ Cnt(3, Len(must) < Len(a)) /\ Cnt(4, failed # {})
                   \* once operations succeed again, rotation resumes: no record is appended to a file that
                   \* already exceeds the size limit (records logged at least two calls after the failures ended)
                   /\ IF cc.rot /\ cc.size >= 0 /\ clearId >= 0
                      THEN Chk(e, "RotationResumes",
                               \A j \in 1..Len(F) : \A q \in 2..Len(F[j].recs) :
                                   (F[j].recs[q][1] > clearId + 2 /\ F[j].recs[q-1][1] > clearId + 1)
                                       => SumLen(F[j].recs, q - 1) <= cc.size)
                           \* ... and no rotation without need: a file boundary in front of a record logged after the
                           \* failures ended is explained by the size criterion or by an explicit rotation / restart
                           /\ Chk(e, "NoNeedlessRotationAfterRecovery",
                                  cc.age # "" \/
                                  LET RO == ReadOrder(F) IN
                                  \A j \in 1..Len(RO) - 1 :
                                      (Len(RO[j].recs) > 0 /\ Len(RO[j+1].recs) > 0 /\ RO[j+1].recs[1][1] > clearId + 1)
                                         => (Bytes(RO[j].recs) > cc.size
                                             \/ RO[j].recs[Len(RO[j].recs)][1] \in forced'
                                             \/ RO[j+1].recs[1][1] - 1 \in forced'))
                           /\ Cnt(5, TRUE)
                      ELSE TRUE
              ELSE TRUE

Init == BaseInit /\ failed = {} /\ seenids = {} /\ clearId = -1
Next == BaseStep /\ Upd /\ Check /\ Finish
Spec == Init /\ [][Next]_fvars
=============================================================================
