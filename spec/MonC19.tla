------------------------------- MODULE MonC19 -------------------------------
(* C19: I/O failures are reported, lose only the failing write, and logging  *)
(* recovers. A scenario arms the fault injector (Fault event): from the k-th *)
(* file-system effect on, a burst of effects fails with an io::Error; the    *)
(* events carry the number (inj) and the hook names (injp) of the failures   *)
(* injected while they ran, and the new error-channel lines (errs).          *)
EXTENDS MonBase

VARIABLES failed,    \* ids of records that may be missing: their own write failed (fs:write), or the writer could not be
                     \* initialised for them (a failure during the call while no file was open yet: "opening or creating a
                     \* file"). A record whose call only saw a failing ROTATION is written to the file that is still open.
          active,    \* a file is open: a record of this run has been written by a call without any injected failure
          starts,    \* stream positions at which a logger was started (after a failed open the next start finds no current file)
          seenids,   \* ids seen on disk at the previous observation
          clearId,   \* number of accepted records when the failures ended (-1: not yet)
          remfail    \* a removal by the cleanup failed (fs:remove): the file it wanted to delete is still there, and
                     \* a later cleanup - which deletes newest first among the files beyond the limit - may remove a NEWER
                     \* file and fail again at this one: the stream then has a legitimate hole that is not at its beginning
fvars == <<bvars, failed, active, seenids, clearId, starts, remfail>>

Ids(s) == {s[j][1] : j \in 1..Len(s)}
Errs(e) == SelectSeq(e.errs, LAMBDA x : x # "Palette")
\* failures that keep a record from being written or a rotation from completing
Blocking(e) == \E j \in 1..Len(e.injp) : e.injp[j] \in {"fs:write", "fs:open", "fs:rename"}

Upd ==
    LET e == E IN
    IF e.ev = "Begin" THEN failed' = {} /\ seenids' = {} /\ clearId' = -1 /\ active' = FALSE /\ starts' = {} /\ remfail' = FALSE
    ELSE /\ remfail' = (remfail \/ \E j \in 1..Len(e.injp) : e.injp[j] = "fs:remove")
         /\ starts' = IF e.ev = "Start" THEN starts \cup {Len(acc)} ELSE starts
         /\ failed' = IF e.ev = "Log" /\ e.inj > 0 /\ (~active \/ \E j \in 1..Len(e.injp) : e.injp[j] = "fs:write")
                       THEN failed \cup {e.id} ELSE failed
         /\ active' = IF e.ev \in {"Start", "Stop", "Reset"} THEN FALSE
                       ELSE IF e.ev = "Log" /\ Ok(e) /\ e.inj = 0 THEN TRUE ELSE active
         /\ seenids' = IF e.o THEN Ids(Stream(Untwin(e.obs.files))) ELSE seenids
         /\ clearId' = IF clearId < 0 /\ e.inj > 0 /\ e.faultleft = 0 THEN Len(acc')
                       ELSE IF e.ev = "FaultOff" /\ clearId < 0 THEN Len(acc') ELSE clearId

Check ==
    LET e == E
        a == acc'
        cc == c'
    IN  IF e.ev = "Begin" THEN TRUE ELSE
        \* the affected call returns normally
        /\ Chk(e, "CallReturns", e.retk \in {"ok", "noop", "err"})
        /\ Chk(e, "LogReturnsOk", e.ev # "Log" \/ e.retk \in {"ok", "noop"})
        \* every failure that kept a record from being written or a rotation from completing is reported:
        \* on the error channel, or - for the explicit calls - as error result
        /\ IF e.inj > 0 /\ Blocking(e)
           THEN Chk(e, "FailureReported", Len(Errs(e)) > 0 \/ (e.ev # "Log" /\ e.retk = "err")) /\ Cnt(1, TRUE)
           ELSE TRUE
        \* ... also a failure that the environment causes (nothing injected): when a record of this call lands behind content
        \* that already exceeded the size limit, the rotation that was due has not taken place - that must have been reported
        /\ IF HasObs(e) /\ e.ev = "Log" /\ Ok(e) /\ cc.rot /\ cc.size >= 0 /\ cc.mode = "direct" /\ e.inj = 0
           THEN LET F0 == Untwin(e.obs.files) IN
                /\ Chk(e, "SkippedRotationReported",
                       (\E j \in 1..Len(F0) : Len(F0[j].recs) > 1 /\ F0[j].recs[Len(F0[j].recs)][1] = e.id
                                                /\ SumLen(F0[j].recs, Len(F0[j].recs) - 1) > cc.size)
                           => Len(Errs(e)) > 0)
                /\ Cnt(8, Len(Errs(e)) > 0)
           ELSE TRUE
        /\ IF ~HasObs(e) THEN TRUE ELSE
           LET F == Untwin(e.obs.files)     \* an unfinished .gz next to its original does not count
               S == Stream(F)
           IN
           \* (while the cleanup THREAD is at work a .gz may be half written: judged when shutdown() has returned)
           /\ Chk(e, "AllClean", (cc.bg /\ cc.clean /\ e.ev # "Stop") \/ AllClean(F))
           /\ Chk(e, "NoDuplicate", \A x, y \in 1..Len(S) : x # y => S[x][1] # S[y][1])
           \* no previously written record is lost (cleanup limits aside)
           /\ Chk(e, "NothingEarlierLost", cc.clean \/ e.ev \in {"ExtRemove", "ExtRename"} \/ seenids \subseteq Ids(S))
           /\ Chk(e, "OrderKept", Ascending(S))
           /\ Cnt(2, e.inj > 0)
           \* at the end: only records whose own log call saw a failure may be missing
           /\ IF SyncEv(e) /\ e.ev = "Stop"
              THEN LET must == SelectSeq(a, LAMBDA p : p[1] \notin failed \/ p[1] \in Ids(S)) IN
                   /\ Chk(e, "MissingOnlyOwnFailure",
                          IF ~cc.clean THEN S = must
                          ELSE IF ~remfail' THEN IsSuffix(S, must)
                          \* (after a failed removal: every surviving record is one that must be there - order and
                          \* uniqueness are checked above. Nothing more can be demanded without knowing the files: the
                          \* files the limit keeps may be empty ones left by forced rotations, and with the newest-first
                          \* deletion order a newer file goes while the one whose removal failed stays)
                          ELSE \A x \in 1..Len(S) : \E y \in 1..Len(must) : must[y] = S[x])
                   /\ Cnt(7, cc.clean /\ remfail')
                   /\ Cnt(3, Len(must) < Len(a)) /\ Cnt(4, failed # {})
                   \* once operations succeed again, rotation resumes: no record is appended to a file that
                   \* already exceeds the size limit (records logged at least two calls after the failures ended)
                   /\ IF cc.rot /\ cc.size >= 0 /\ clearId >= 0
                      THEN Chk(e, "RotationResumes",
                               \A j \in 1..Len(F) : \A q \in 2..Len(F[j].recs) :
                                   (F[j].recs[q][1] > clearId + 2 /\ F[j].recs[q-1][1] > clearId + 1)
                                       => SumLen(F[j].recs, q - 1) <= cc.size)
                           \* ... and no rotation without need: a file boundary in front of a record logged after the
                           \* failures ended is explained by the size criterion or by an explicit rotation / restart
                           /\ Chk(e, "NoNeedlessRotationAfterRecovery",
                                  cc.age # "" \/
                                  LET RO == ReadOrder(F) IN
                                  \A j \in 1..Len(RO) - 1 :
                                      (Len(RO[j].recs) > 0 /\ Len(RO[j+1].recs) > 0 /\ RO[j+1].recs[1][1] > clearId + 1
                                       \* (the file is judged by what it holds: a record that is missing between the two
                                       \* although its call saw no failure - MissingOnlyOwnFailure reports that - has counted
                                       \* for the size criterion, the boundary cannot be judged)
                                       /\ \A x \in (RO[j].recs[Len(RO[j].recs)][1] + 1)..(RO[j+1].recs[1][1] - 1) : x \in failed)
                                         => (Bytes(RO[j].recs) > cc.size
                                             \/ RO[j].recs[Len(RO[j].recs)][1] \in forced'
                                             \/ RO[j+1].recs[1][1] - 1 \in forced'
                                             \* (a restart: after a failed open the renamed file was still in use and the
                                             \* new logger finds no current file to continue)
                                             \/ RO[j+1].recs[1][1] - 1 \in starts'))
                           /\ Cnt(5, TRUE)
                      ELSE TRUE
                   \* ... and cleanup resumes (also in the cleanup thread): if a rotated file was begun AND closed after the
                   \* failures ended - so that a cleanup ran after them - the limits hold again once shutdown() has returned
                   /\ IF cc.clean /\ clearId >= 0 /\ cc.size >= 0 /\
                         (\E j \in 1..Len(F) : IsRot(F[j]) /\ Len(F[j].recs) > 0 /\ F[j].recs[1][1] > clearId + 2)
                      THEN Chk(e, "CleanupResumes",
                               LET kk == IF cc.k < 0 THEN 0 ELSE cc.k
                                   mm == IF cc.m < 0 THEN 0 ELSE cc.m
                                   ke == IF cc.direct /\ kk = 0 THEN 1 ELSE kk
                               IN Len(SelectSeq(F, LAMBDA f : IsRot(f) /\ ~f.z)) <= ke
                                  /\ Len(SelectSeq(F, LAMBDA f : IsRot(f) /\ f.z)) <= mm)
                           /\ Cnt(6, cc.bg)
                      ELSE TRUE
              ELSE TRUE

Init == BaseInit /\ failed = {} /\ active = FALSE /\ seenids = {} /\ clearId = -1 /\ starts = {} /\ remfail = FALSE
Next == BaseStep /\ Upd /\ Check /\ Finish
Spec == Init /\ [][Next]_fvars
=============================================================================
