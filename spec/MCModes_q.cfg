SPECIFICATION Spec
CONSTANTS
  Msgs <- MsgsQ
  Cap = 4
  N = 3
  MaxOps = 4
  WithTrigger = FALSE
  Fixes <- AllFixes
  GenHist = FALSE
INVARIANT SyncModesAgree
INVARIANT ModeIndependent
PROPERTY ShutdownCompletes
CHECK_DEADLOCK FALSE
