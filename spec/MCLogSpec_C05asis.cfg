SPECIFICATION Spec
CONSTANTS
  InitSpecs <- U3
  SpecNames <- N2
  SpecREs <- RE0
  OpSpecs <- U3
  OpTexts <- T5
  MaxOps = 5
  Writers <- NoWriter
  Targets <- PlainTargets
  Msgs <- Msgs2
  ProgSets <- NoProgs
  GateUnderLock = TRUE
  Fixes <- RepoFixes
  GenHist = TRUE
INVARIANT TakesEffect
INVARIANT CexPop
INVARIANT PopRestores
INVARIANT GateAdmits
VIEW View
CHECK_DEADLOCK FALSE
