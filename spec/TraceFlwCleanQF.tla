-------------------------- MODULE TraceFlwCleanQF --------------------------
(***************************************************************************)
(* Conform mode for the background cleanup thread WITH INJECTED FAILURES     *)
(* (a CFail step = the harness arms the fault injector for the very next     *)
(* file-system effect, then releases the thread): behaviours of FlwCleanQF,  *)
(* otherwise as TraceFlwCleanQ: behaviours of                               *)
(* FlwCleanQ.tla are stepped through the real code with the cleanup thread  *)
(* held at its hook points (in front of every recv, at the start of every   *)
(* run, in front of every file-system effect) and released one step at a    *)
(* time. Every event carries the action it stands for (q); the action must  *)
(* be enabled, and afterwards                                               *)
(*   - the rotated files that exist uncompressed / compressed must be       *)
(*     exactly the specification's sets plain / gz, and                     *)
(*   - the point at which the thread parked again must be the one the       *)
(*     specification's state predicts (the next effect of the run, the next *)
(*     recv, or the end of the thread).                                     *)
(* One TLC run per cleanup configuration (K, M are constants of FlwCleanQ). *)
(***************************************************************************)
EXTENDS FlwCleanQF, Json, IOUtils

Rec == ndJsonDeserialize(IOEnv.TRACE)
TrK == atoi(IOEnv.K)
TrM == atoi(IOEnv.M)
TrDirect == IOEnv.DIRECT = "1" 
VARIABLE l
tvars == <<fvars, l>>
E == Rec[l]
Has(e, f) == f \in DOMAIN e

ObsPlain(e) == {e.obs.files[j].i : j \in {x \in 1..Len(e.obs.files) : e.obs.files[x].k = "num" /\ ~e.obs.files[x].z}}
ObsGz(e) == {e.obs.files[j].i : j \in {x \in 1..Len(e.obs.files) : e.obs.files[x].k = "num" /\ e.obs.files[x].z}}
Match(e) == Has(e, "obs") => (ObsPlain(e) = plain' /\ ObsGz(e) = gz')
\* where the specification expects the thread to stop next
ParkOf == CASE cst' = "got" -> "sc:cleanup_act"
            [] cst' = "wait" -> "sc:cleanup_wait"
            [] cst' = "dead" -> "exit"
            [] cst' = "run" -> IF Head(snap').pos >= KK + M \/ Head(snap').pos = -1 THEN "fs:remove"
                               ELSE CASE zs' = 0 -> "fs:gz_create" [] zs' = 1 -> "fs:gz_copy"
                                      [] zs' = 2 -> "fs:gz_finish" [] OTHER -> "fs:remove_orig"

TInit == FInit /\ l = 1
Reset == /\ plain' = (IF Direct THEN {0} ELSE {}) /\ gz' = {} /\ nrot' = 0 /\ chan' = <<>> /\ cst' = "wait" /\ snap' = <<>> /\ zs' = 0
         /\ app' = "run" /\ hist' = <<>> /\ nfail' = 0 /\ fin' = {} /\ snapAt' = 0 /\ good' = TRUE
TNext ==
    /\ l <= Len(Rec) /\ l' = l + 1
    /\ LET e == E IN
       /\ (IF e.ev = "Begin" THEN TRUE ELSE e.ret = "ok")
       /\ CASE e.ev = "Begin" -> Reset
            [] e.ev = "Trigger" -> RotateF /\ Match(e)
            [] e.ev = "CGo" -> /\ CASE e.q = "CRecv" -> CRecvF [] e.q = "CList" -> CListF [] e.q = "CStep" -> CStepF [] e.q = "CFail" -> CFail
                               /\ Match(e) /\ e.at = ParkOf
            [] e.ev = "ShutdownBegin" -> ShutdownF /\ Match(e)
            [] e.ev = "ShutdownEnd" -> JoinF /\ Match(e) /\ CleanupResumes'
            [] OTHER -> UNCHANGED fvars
    /\ IF l = Len(Rec) THEN PrintT(<<"CONSUMED", l>>) ELSE TRUE
TSpec == TInit /\ [][TNext]_tvars
=============================================================================
