SPECIFICATION Spec
CONSTANTS
  InitSpecs <- I0
  SpecNames <- N2
  SpecREs <- RE0
  OpSpecs = {}
  OpTexts = {}
  MaxOps = 0
  Writers <- NoWriter
  Targets <- PlainTargets
  Msgs <- Msgs2
  ProgSets <- P_all
  GateUnderLock = TRUE
  Fixes <- AllFixes
  GenHist = FALSE
INVARIANT FinalConsistent
INVARIANT GateAdmits
CHECK_DEADLOCK FALSE
