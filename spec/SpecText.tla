------------------------------ MODULE SpecText ------------------------------
(***************************************************************************)
(* The documented text form of a log specification (log_specification.rs,  *)
(* doc comment of LogSpecification):                                       *)
(*                                                                         *)
(*   spec  ::= part { "," part } [ "/" regex ]                             *)
(*   part  ::= name | level | name "=" level | name "="                    *)
(*                                                                         *)
(* "a bit more tolerant with spaces": blanks around parts, names, levels   *)
(* and "=" are ignored, empty parts are skipped. A name is a non-empty run *)
(* of non-blank characters other than "," "=" "/"; a level is one of the   *)
(* level words in any case; a single level word is the default level, a    *)
(* name without level means trace.                                         *)
(*                                                                         *)
(* Transcribed as operators on TOKEN sequences. A token is a record        *)
(*    [k |-> "w" | "lvl" | "eq" | "comma" | "slash" | "ws",                *)
(*     s |-> the characters, v |-> level value of a level word, else -1].  *)
(* Adjacent "w"/"lvl" tokens form one word (the harness joins the s        *)
(* fields); a word is a level iff it is exactly one "lvl" token.           *)
(* Whether the text behind a single "/" is a valid regular expression is   *)
(* an input fact (`reok`), not modelled.                                   *)
(*                                                                         *)
(* Two independent formulations:                                           *)
(*   Parse(toks, reok, strict)  - operational, shaped like the code        *)
(*                                (split, trim, classify, collect errors)  *)
(*   WellFormed / WfParts       - declarative membership in the grammar    *)
(* TLC checks them against each other on all token strings up to a length  *)
(* (MCSpecText), the monitors evaluate both on what the code returned.     *)
(***************************************************************************)
EXTENDS SpecDefs

W(s)      == [k |-> "w", s |-> s, v |-> -1]
L(s, v)   == [k |-> "lvl", s |-> s, v |-> v]
EqT       == [k |-> "eq", s |-> "=", v |-> -1]
CommaT    == [k |-> "comma", s |-> ",", v |-> -1]
SlashT    == [k |-> "slash", s |-> "/", v |-> -1]
WsT       == [k |-> "ws", s |-> " ", v |-> -1]
LevelWord == <<"error", "warn", "info", "debug", "trace">>     \* LevelWord[v], v in 1..5
LvlTok(v) == IF v = 0 THEN L("off", 0) ELSE L(LevelWord[v], v)
IsLevelWord(s) == s = "off" \/ \E v \in 1..5 : LevelWord[v] = s
LevelOfWord(s) == IF s = "off" THEN 0 ELSE CHOOSE v \in 1..5 : LevelWord[v] = s
\* token of a name letter (a letter that is a level word lexes as a level token)
LetterTok(x) == IF IsLevelWord(x) THEN L(x, LevelOfWord(x)) ELSE W(x)

IsWs(x)   == x.k = "ws"
IsWord(x) == x.k \in {"w", "lvl"}
AllWs(p)  == \A i \in DOMAIN p : IsWs(p[i])
HasWs(p)  == \E i \in DOMAIN p : IsWs(p[i])
Strs(p)   == [i \in DOMAIN p |-> p[i].s]          \* a name: the strings of its tokens
Count(p, kind) == Cardinality({i \in DOMAIN p : p[i].k = kind})

(***************************************************************************)
(* Operational transcription                                               *)
(***************************************************************************)
RECURSIVE SplitOn(_, _)
\* pieces between tokens of the given kind (like str::split): always at least one piece
SplitOn(p, kind) ==
    IF \A i \in DOMAIN p : p[i].k # kind THEN <<p>>
    ELSE LET i == CHOOSE j \in DOMAIN p : p[j].k = kind /\ \A q \in 1..(j - 1) : p[q].k # kind
         IN  <<SubSeq(p, 1, i - 1)>> \o SplitOn(SubSeq(p, i + 1, Len(p)), kind)
RECURSIVE TrimL(_)
TrimL(p) == IF p # <<>> /\ IsWs(Head(p)) THEN TrimL(Tail(p)) ELSE p
RECURSIVE TrimR(_)
TrimR(p) == IF p # <<>> /\ IsWs(p[Len(p)]) THEN TrimR(SubSeq(p, 1, Len(p) - 1)) ELSE p
Trim(p) == TrimR(TrimL(p))

IsLevelField(x) == Len(x) = 1 /\ x[1].k = "lvl"
Skip      == [r |-> "skip"]
Bad       == [r |-> "err"]
Mod(n, l) == [r |-> "mod", n |-> n, l |-> l]
Dflt(l)   == [r |-> "dflt", l |-> l]

\* one comma-separated piece, already trimmed. strict: an empty module name is an error
PartResult(p, strict) ==
    IF p = <<>> THEN Skip
    ELSE LET fs == SplitOn(p, "eq")
             f0 == Trim(fs[1])
         IN  IF Len(fs) = 1 THEN
                 IF HasWs(f0) THEN Bad
                 ELSE IF IsLevelField(f0) THEN Dflt(f0[1].v)
                 ELSE Mod(Strs(f0), 5)
             ELSE IF Len(fs) = 2 THEN
                 LET f1 == Trim(fs[2]) IN
                 IF HasWs(f0) THEN Bad
                 ELSE IF strict /\ f0 = <<>> THEN Bad
                 ELSE IF f1 = <<>> THEN Mod(Strs(f0), 5)
                 ELSE IF IsLevelField(f1) THEN Mod(Strs(f0), f1[1].v)
                 ELSE Bad
             ELSE Bad

\* entries of the resulting specification in input order: [n, l, dflt]
EntryOf(r) == IF r.r = "mod" THEN [n |-> r.n, l |-> r.l, dflt |-> FALSE]
              ELSE [n |-> <<>>, l |-> r.l, dflt |-> TRUE]

Parse(toks, reok, strict) ==
    LET secs == SplitOn(toks, "slash") IN
    IF Len(secs) > 2
    THEN [ok |-> FALSE, struct |-> FALSE, es |-> <<>>, hasre |-> FALSE, re |-> <<>>]
    ELSE LET parts == SplitOn(secs[1], "comma")
             rs    == [i \in DOMAIN parts |-> PartResult(Trim(parts[i]), strict)]
             good  == SelectSeq(rs, LAMBDA r : r.r \in {"mod", "dflt"})
             nerr  == Cardinality({i \in DOMAIN rs : rs[i].r = "err"})
             slash == Len(secs) = 2
         IN  [ok     |-> nerr = 0 /\ (slash => reok),
              struct |-> TRUE,
              es     |-> [i \in DOMAIN good |-> EntryOf(good[i])],
              hasre  |-> slash /\ reok,
              re     |-> IF slash /\ reok THEN Strs(secs[2]) ELSE <<>>]

\* In the MODELS (not in the monitors, which take `reok` from the trace) the text behind "/" is built from
\* the model alphabet, whose only invalid regular expressions are those with an unclosed "("
ReSection(toks) == IF Count(toks, "slash") = 1 THEN SplitOn(toks, "slash")[2] ELSE <<>>
ModelReOk(toks) == \A i \in DOMAIN ReSection(toks) : ReSection(toks)[i].s # "("

\* the specification a parse result denotes (first default entry; at most one is in the properties' domain)
DefaultsOf(es) == SelectSeq(es, LAMBDA e : e.dflt)
ModsOf(es)     == SelectSeq(es, LAMBDA e : ~e.dflt)
ToSpec(pr) ==
    LET ms == ModsOf(pr.es)
        ds == DefaultsOf(pr.es)
    IN  [f |-> [i \in DOMAIN ms |-> [n |-> ms[i].n, l |-> ms[i].l]],
         d |-> IF ds = <<>> THEN -1 ELSE ds[1].l,
         hasre |-> pr.hasre, re |-> pr.re]
\* inside the quantifier of C02/C05/C17: every module at most once, at most one default, no empty name
Regular(pr) ==
    /\ Len(DefaultsOf(pr.es)) <= 1
    /\ UniqueNames(ToSpec(pr))
    /\ \A i \in DOMAIN pr.es : pr.es[i].dflt \/ pr.es[i].n # <<>>

(***************************************************************************)
(* Declarative grammar                                                     *)
(***************************************************************************)
IsName(x)    == x # <<>> /\ \A i \in DOMAIN x : IsWord(x[i])
\* x = blanks, core, blanks with core satisfying P
Padded(x, P(_)) == \E a, b \in 0..Len(x) :
                      /\ a <= b /\ AllWs(SubSeq(x, 1, a)) /\ AllWs(SubSeq(x, b + 1, Len(x)))
                      /\ P(SubSeq(x, a + 1, b))
IsPart(p) ==
    \/ AllWs(p)                                                     \* empty part: skipped
    \/ Padded(p, IsName)                                            \* name | level
    \/ \E e \in DOMAIN p :
          /\ p[e].k = "eq"
          /\ Padded(SubSeq(p, 1, e - 1), IsName)                    \* name "=" [level]
          /\ LET right == SubSeq(p, e + 1, Len(p)) IN AllWs(right) \/ Padded(right, IsLevelField)

\* the maximal comma-free segments of x as pairs <<first, last>> of positions
Segments(x) ==
    LET B == {0, Len(x) + 1} \cup {i \in DOMAIN x : x[i].k = "comma"} IN
    {<<p[1] + 1, p[2] - 1>> : p \in {q \in B \X B : q[1] < q[2] /\ \A m \in B : ~(q[1] < m /\ m < q[2])}}
AllParts(x) == \A sg \in Segments(x) : IsPart(SubSeq(x, sg[1], sg[2]))

StructOk(toks) == Count(toks, "slash") <= 1
ModSection(toks) ==
    IF Count(toks, "slash") = 0 THEN toks
    ELSE SubSeq(toks, 1, (CHOOSE i \in DOMAIN toks : toks[i].k = "slash" /\ \A q \in 1..(i - 1) : toks[q].k # "slash") - 1)
WellFormed(toks, reok) ==
    /\ StructOk(toks)
    /\ AllParts(ModSection(toks))
    /\ (Count(toks, "slash") = 1 => reok)

\* meaning of one well-formed, non-empty part
Meaning(p) ==
    LET core == Trim(p) IN
    IF \A i \in DOMAIN core : core[i].k # "eq"
    THEN IF IsLevelField(core) THEN [n |-> <<>>, l |-> core[1].v, dflt |-> TRUE]
         ELSE [n |-> Strs(core), l |-> 5, dflt |-> FALSE]
    ELSE LET e     == CHOOSE i \in DOMAIN core : core[i].k = "eq"
             right == Trim(SubSeq(core, e + 1, Len(core)))
         IN  [n |-> Strs(Trim(SubSeq(core, 1, e - 1))), l |-> IF right = <<>> THEN 5 ELSE right[1].v, dflt |-> FALSE]
\* "exactly the well-formed module and level parts (none at all if the overall structure is malformed)":
\* the set of <<first position, entry>> of the well-formed non-empty parts
WfParts(toks) ==
    IF ~StructOk(toks) THEN {}
    ELSE LET x == ModSection(toks) IN
         {<<sg[1], Meaning(SubSeq(x, sg[1], sg[2]))>> :
             sg \in {s \in Segments(x) : IsPart(SubSeq(x, s[1], s[2])) /\ ~AllWs(SubSeq(x, s[1], s[2]))}}
\* the entries of WfParts in input order
RECURSIVE InOrder(_)
InOrder(PS) == IF PS = {} THEN <<>>
               ELSE LET m == CHOOSE p \in PS : \A q \in PS : p[1] <= q[1] IN <<m[2]>> \o InOrder(PS \ {m})
WfEntries(toks) == InOrder(WfParts(toks))

\* a part with an empty module name ("=info", "="): not a <path_to_module>, accepted by the code
\* (the only difference between the strict and the lax reading of a part)
HasEmptyNamePart(toks) ==
    StructOk(toks) /\
    \E sg \in Segments(ModSection(toks)) :
        LET p == Trim(SubSeq(ModSection(toks), sg[1], sg[2])) IN
        PartResult(p, FALSE).r = "mod" /\ PartResult(p, TRUE).r = "err"

\* bag equality of two sequences
Occ(s, x) == Cardinality({i \in DOMAIN s : s[i] = x})
SameBag(s, t) == Len(s) = Len(t) /\ \A i \in DOMAIN s : Occ(s, s[i]) = Occ(t, s[i])

(***************************************************************************)
(* Rendering (Display form: default level first, then "name = level")      *)
(***************************************************************************)
RECURSIVE Flat(_)
Flat(ss) == IF ss = <<>> THEN <<>> ELSE Head(ss) \o Flat(Tail(ss))
NameToks(n) == [i \in DOMAIN n |-> LetterTok(n[i])]
RenderMods(S) ==
    Flat([i \in DOMAIN S.f |->
            (IF i > 1 \/ S.d >= 0 THEN <<CommaT, WsT>> ELSE <<>>)
            \o NameToks(S.f[i].n) \o <<WsT, EqT, WsT, LvlTok(S.f[i].l)>>])
Render(S) == (IF S.d >= 0 THEN <<LvlTok(S.d)>> ELSE <<>>) \o RenderMods(S)
\* with the text filter, which the Display form of the code does not carry
RenderRe(S) == Render(S) \o (IF S.hasre THEN <<SlashT>> \o [i \in DOMAIN S.re |-> W(S.re[i])] ELSE <<>>)
=============================================================================
