SPECIFICATION FSpec
CONSTANTS
  NRot = 3
  K = 1
  M = 0
  MaxFail = 2
  Variant = "as_coded"
  Direct = FALSE
  GenHist = FALSE
INVARIANT CleanupResumes
INVARIANT OnlyFinishedReplace
INVARIANT C07_NotRemovedEarly
INVARIANT C07_NotCompressedEarly
INVARIANT C07_CurrentSafe
PROPERTY FShutdownReturns
VIEW FView
CHECK_DEADLOCK FALSE
