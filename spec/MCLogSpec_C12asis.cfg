SPECIFICATION Spec
CONSTANTS
  InitSpecs <- I0
  SpecNames <- N2
  SpecREs <- RE0
  OpSpecs = {}
  OpTexts = {}
  MaxOps = 0
  Writers <- NoWriter
  Targets <- PlainTargets
  Msgs <- Msgs2
  ProgSets <- P_2q
  GateUnderLock = FALSE
  Fixes <- RepoFixes
  GenHist = TRUE
INVARIANT CexFinal
INVARIANT FinalConsistent
VIEW View
CHECK_DEADLOCK FALSE
