SPECIFICATION FSpec
CONSTANTS
  Cfgs <- CfgsF
  Lens <- LensF
  Dts = {1}
  T0 = 1000
  MaxSw = 0
  ResetCfgs <- NoReset
  MaxRecs = 4
  MaxRuns = 1
  MaxTrig = 1
  MaxExt = 0
  MaxAdv = 1
  Fixes <- AllFixes
  GenHist = FALSE
  MaxFrom = 10
  Bursts <- BurstsT
  Mutations <- NoMut
INVARIANT C19_OnlyOwnFailureMissing
INVARIANT C19_NoDestruction
INVARIANT C19_RotationResumes
INVARIANT C19_WriterFileLinked
INVARIANT C19_LinkResolves
INVARIANT C01_NoTwin
VIEW ViewF
CHECK_DEADLOCK FALSE
