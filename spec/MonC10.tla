------------------------------- MODULE MonC10 -------------------------------
(* C10: logging operations never panic or hang, whatever the input or the    *)
(* directory content; problems are reported and logging continues.           *)
EXTENDS MonBase

Errs(e) == SelectSeq(e.errs, LAMBDA x : x # "Palette")
Ids(s) == {s[j][1] : j \in 1..Len(s)}

VARIABLES probes,   \* ids of ordinary records (default target) whose log call reported nothing
          respec,   \* a specification string was accepted: from then on the probes may be filtered out legitimately
          dirgone   \* the environment removed the log directory under the running logger: what is written into the
                    \* unlinked file is gone with it, so probes are not demanded back until the next start
pvars == <<bvars, probes, respec, dirgone>>

Upd == LET e == E IN
       /\ respec' = IF e.ev = "Begin" THEN FALSE ELSE (respec \/ (e.ev = "ParseNew" /\ Ok(e)))
       /\ dirgone' = IF e.ev \in {"Begin", "Start"} THEN FALSE ELSE (dirgone \/ e.ev = "RmDir")
       /\ probes' = IF e.ev = "Begin" THEN {}
                 ELSE IF e.ev = "Log" /\ Ok(e) /\ e.id > 0 /\ "probe" \in DOMAIN e /\ e.probe /\ Len(Errs(e)) = 0 /\ ~respec /\ ~dirgone
                      THEN probes \cup {e.id}
                 ELSE IF e.ev \in {"ExtRemove", "ExtRename", "Reset", "Start", "RmDir"} THEN {} ELSE probes

Check ==
    LET e == E
        cc == c'
    IN  IF e.ev = "Begin" THEN TRUE ELSE
        /\ Chk(e, "NoPanic", e.retk # "panic")
        /\ Chk(e, "NoHang", e.retk # "hang")
        /\ Chk(e, "ReturnsResult", e.retk \in {"ok", "noop", "err", "panic", "hang"})
        /\ Cnt(1, TRUE) /\ Cnt(2, e.retk = "err") /\ Cnt(3, Len(Errs(e)) > 0)
        \* logging continues: ordinary records whose call reported no problem are in the files at the end
        /\ IF HasObs(e) /\ e.ev = "Stop" /\ Ok(e) /\ ~cc.clean
           THEN Chk(e, "LoggingContinues", probes' \subseteq {e.obs.anyids[j] : j \in 1..Len(e.obs.anyids)})
                /\ Cnt(4, probes' # {})
           ELSE TRUE

Init == BaseInit /\ probes = {} /\ respec = FALSE /\ dirgone = FALSE
Next == BaseStep /\ Upd /\ Check /\ Finish
Spec == Init /\ [][Next]_pvars
=============================================================================
