SPECIFICATION Spec
CONSTANTS
  NRot = 5
  K = 2
  M = 0
  Variant = "as_coded"
  GenHist = FALSE
INVARIANT C07_LimitsAtShutdown
INVARIANT C07_NotRemovedEarly
INVARIANT C07_NotCompressedEarly
INVARIANT C07_OriginalUntilFinished
PROPERTY C07_ShutdownReturns
VIEW View
CHECK_DEADLOCK FALSE
