------------------------------ MODULE MCNames ------------------------------
(* Design check of the name pattern (C16): within one configuration, two     *)
(* different files of the family never get the same name, and the name       *)
(* without infix is not the name of a file with infix.                       *)
EXTENDS Names, FiniteSets
VARIABLE x
Parts == { [basename |-> b, has_discr |-> hd, discr |-> "d1", use_ts |-> ut, has_suffix |-> hs, suffix |-> "log"] :
             b \in {"app", "", "my.prog", "a_r1"}, hd \in BOOLEAN, ut \in BOOLEAN, hs \in BOOLEAN }
Files == { [k |-> "cur", i |-> -1, r |-> -1, istr |-> ""], [k |-> "plain", i |-> -1, r |-> -1, istr |-> ""] }
         \cup { [k |-> "num", i |-> i, r |-> -1, istr |-> ""] : i \in {0, 1, 12, 99999} }
         \cup { [k |-> "ts", i |-> 0, r |-> r, istr |-> t] : r \in {-1, 0, 1, 12}, t \in {"r2030-01-01_00-00-00", "r2030-01-01_00-00-01"} }
Name(p, f, z) == NameStr(p, "rCURRENT", "2030-01-01_00-00-00", f.k, f.i, f.istr, f.r, z)
Injective == \A p \in Parts : \A f, g \in Files : \A y, z \in BOOLEAN :
                (f # g \/ y # z) => Name(p, f, y) # Name(p, g, z)
NoLeadingSeparator == \A p \in Parts : \A f \in Files :
                LET n == Name(p, f, FALSE) IN n = "" \/ SubSeq(n, 1, 1) # "_"
Init == x = 0
Next == x' = x
Spec == Init /\ [][Next]_x
=============================================================================
