----------------------------- MODULE MCFlwClean -----------------------------
EXTENDS FlwClean
RepoFixes == {"flush_before_rename"}      \* repaired in /repo
AsPinned == {}
=============================================================================
