SPECIFICATION Spec
CONSTANTS
  Cfgs <- Cfgs_C13q
  Targets <- Targets2
  Lvls <- Levels5
  Mods <- Mods3
  Shapes <- Shapes_Id
  Specs <- Specs5
  Dups <- Dups7
  MaxRecs = 1
  MaxAdapt = 2
  MaxSet = 1
  Counting = FALSE
  Admit <- AdmitAll
  Fixes <- CexFixes
  GenHist = TRUE
CHECK_DEADLOCK FALSE
INVARIANT CexC13
