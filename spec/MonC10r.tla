------------------------------- MODULE MonC10r -------------------------------
(* C10, output classes: no log call panics or hangs whatever the default      *)
(* channel (file, stdout, stderr, file + writer, writer) and the write mode,  *)
(* including records whose message logs itself while it is formatted.         *)
(* Monitor for `flv route` traces (scenario kind "frame"); one state per line. *)
EXTENDS Naturals, Integers, Sequences, FiniteSets, TLC, Json, IOUtils

Rec == ndJsonDeserialize(IOEnv.TRACE)
VARIABLES l
E == Rec[l]
Ok(e) == e.ret = "ok"
NCounters == 12
Chk(e, name, ok) == IF ok THEN TRUE ELSE PrintT(<<"BAD", e.sc, e.n, name>>)
Cnt(i, cond) == IF cond THEN TLCSet(i, TLCGet(i) + 1) ELSE TRUE
Counters == [i \in 1..NCounters |-> TLCGet(i)]
Finish == IF l = Len(Rec) THEN PrintT(<<"COUNTS", Counters, "\"">>) /\ PrintT(<<"CONSUMED", l>>) ELSE TRUE
Pfx(s, p) == Len(s) >= Len(p) /\ SubSeq(s, 1, Len(p)) = p

Init == l = 1 /\ \A i \in 1..NCounters : TLCSet(i, 0)
Check == LET e == E IN
         IF e.ev = "Crash" THEN /\ Chk(e, "NoHang", e.ret # "hang") /\ Chk(e, "NoPanic", e.ret = "hang")
         ELSE IF e.ev = "Begin" THEN Chk(e, "LoggerBuilt", Ok(e))
         ELSE /\ Chk(e, "NoPanic", ~Pfx(e.ret, "panic"))
              /\ Chk(e, "ReturnsResult", Ok(e) \/ e.ret = "noop" \/ Pfx(e.ret, "err") \/ Pfx(e.ret, "panic"))
              /\ Cnt(1, TRUE) /\ Cnt(2, e.ev = "Log" /\ e.rec) /\ Cnt(3, e.ev = "Final")
Next == l <= Len(Rec) /\ l' = l + 1 /\ Check /\ Finish
Spec == Init /\ [][Next]_l
=============================================================================
