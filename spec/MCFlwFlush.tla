----------------------------- MODULE MCFlwFlush -----------------------------
EXTENDS FlwFlush
AllFixes == {"clone_drop_shutdown"}
P2 == {1, 2}
FView == <<pc, cnt, file, wbuf, q, alive, joinable, clones, app, acked, ackAtShut, ackAtFlush, flushed, lostOk, ops, ticks>>
=============================================================================
