---------------------------- MODULE FlwConcApa ----------------------------
(***************************************************************************)
(* Typed copy of ../FlwConc.tla for Apalache, plus an inductive invariant  *)
(* (IndInv) that implies the safety properties C03_* / C04_* for an        *)
(* unbounded number of records per producer.                               *)
(*                                                                         *)
(* The actions are the actions of FlwConc.tla, minus the TLC-only history  *)
(* variable `hist` (and GenHist / H(..)).  All differences are listed in   *)
(* README.md.  The module uses nothing Apalache-specific (the annotations  *)
(* are comments), so TLC can check it too (MCFlwConcApa_*.cfg).            *)
(* The generators for the inductive step are in FlwConcApaInd.tla.         *)
(***************************************************************************)
EXTENDS Naturals, Integers, Sequences, FiniteSets

CONSTANTS
    \* @type: Set(Int);
    Producers,   \* set of logging threads
    \* @type: Int;
    PerProducer, \* records each logs
    \* @type: Str;
    Mode,        \* "direct" | "buf" | "async"
    \* @type: Int;
    MaxAppOps,   \* bound on Flush/Clone/DropClone operations of the application thread
    \* @type: Set(Str);
    Fixes

VARIABLES
    \* @type: Int -> Str;
    pc,       \* producer -> "idle" | "formatted"
    \* @type: Int -> Int;
    cnt,      \* producer -> number of records it has logged (started)
    \* @type: Seq(<<Int, Int>>);
    file,     \* record ids on disk, in order
    \* @type: Seq(<<Int, Int>>);
    wbuf,     \* record ids in the BufWriter (sync buffered)
    \* @type: Seq({t: Str, id: <<Int, Int>>});
    q,        \* channel: Seq of messages
    \* @type: Bool;
    alive,    \* the async writer thread is running
    \* @type: Bool;
    joinable, \* its JoinHandle has not been taken yet
    \* @type: Int;
    clones,   \* number of live handle clones beyond the original
    \* @type: Str;
    app,      \* "run" | "shutting" | "down"
    \* @type: Set(<<Int, Int>>);
    acked,    \* ids whose log call has returned
    \* @type: Set(<<Int, Int>>);
    ackAtShut,\* acked when the (first) shutdown started
    \* @type: Set(<<Int, Int>>);
    ackAtFlush, \* acked when the last completed sync flush started
    \* @type: Bool;
    flushed,  \* a sync flush has completed and nothing was logged since
    \* @type: Set(<<Int, Int>>);
    lostOk,   \* ids whose send failed
    \* @type: Int;
    ops

vars == <<pc, cnt, file, wbuf, q, alive, joinable, clones, app, acked, ackAtShut, ackAtFlush, flushed, lostOk, ops>>

\* @type: (Int, Int) => <<Int, Int>>;
Id(p, n) == <<p, n>>
Async == Mode = "async"
\* @type: <<Int, Int>> => {t: Str, id: <<Int, Int>>};
Data(id) == [t |-> "data", id |-> id]
\* FlwConc.tla uses id |-> <<>> in the two control messages; <<0, 0>> keeps the record type uniform.
\* The id field of a control message is never read by any action or property.
\* @type: <<Int, Int>>;
NoId == <<0, 0>>
FlushMsg == [t |-> "flush", id |-> NoId]
ShutMsg  == [t |-> "shut", id |-> NoId]

Init == /\ pc = [p \in Producers |-> "idle"] /\ cnt = [p \in Producers |-> 0]
        /\ file = <<>> /\ wbuf = <<>> /\ q = <<>> /\ alive = Async /\ joinable = Async
        /\ clones = 0 /\ app = "run" /\ acked = {} /\ ackAtShut = {} /\ ackAtFlush = {} /\ flushed = FALSE
        /\ lostOk = {} /\ ops = 0

\* ---------------- logging threads
Format(p) == /\ pc[p] = "idle" /\ cnt[p] < PerProducer
             /\ pc' = [pc EXCEPT ![p] = "formatted"] /\ cnt' = [cnt EXCEPT ![p] = @ + 1]
             /\ UNCHANGED <<file, wbuf, q, alive, joinable, clones, app, acked, ackAtShut, ackAtFlush, flushed, lostOk, ops>>

WriteSync(p) == /\ ~Async /\ pc[p] = "formatted"
                /\ IF Mode = "direct" THEN file' = Append(file, Id(p, cnt[p])) /\ wbuf' = wbuf
                   ELSE wbuf' = Append(wbuf, Id(p, cnt[p])) /\ file' = file
                /\ pc' = [pc EXCEPT ![p] = "idle"] /\ acked' = acked \cup {Id(p, cnt[p])}
                /\ flushed' = FALSE
                /\ UNCHANGED <<cnt, q, alive, joinable, clones, app, ackAtShut, ackAtFlush, lostOk, ops>>

Send(p) == /\ Async /\ pc[p] = "formatted"
           /\ IF alive THEN q' = Append(q, Data(Id(p, cnt[p]))) /\ acked' = acked \cup {Id(p, cnt[p])} /\ lostOk' = lostOk
              ELSE q' = q /\ acked' = acked /\ lostOk' = lostOk \cup {Id(p, cnt[p])}
           /\ pc' = [pc EXCEPT ![p] = "idle"]
           /\ UNCHANGED <<cnt, file, wbuf, alive, joinable, clones, app, ackAtShut, ackAtFlush, flushed, ops>>

\* ---------------- the async writer thread
Recv == /\ Async /\ alive /\ q # <<>>
        /\ LET m == Head(q) IN
           /\ q' = Tail(q)
           /\ CASE m.t = "data" -> file' = Append(file, m.id) /\ alive' = alive
                [] m.t = "flush" -> UNCHANGED <<file, alive>>
                [] m.t = "shut" -> UNCHANGED file /\ alive' = FALSE
        /\ UNCHANGED <<pc, cnt, wbuf, joinable, clones, app, acked, ackAtShut, ackAtFlush, flushed, lostOk, ops>>

\* ---------------- the application thread
DoShutdownStart ==
    /\ IF Async
       THEN /\ q' = IF alive THEN Append(Append(q, FlushMsg), ShutMsg) ELSE q
            /\ UNCHANGED <<file, wbuf>>
       ELSE /\ file' = file \o wbuf /\ wbuf' = <<>> /\ q' = q

Flush == /\ app = "run" /\ ops < MaxAppOps /\ ops' = ops + 1
         /\ IF Async THEN q' = (IF alive THEN Append(q, FlushMsg) ELSE q) /\ UNCHANGED <<file, wbuf, ackAtFlush, flushed>>
            ELSE file' = file \o wbuf /\ wbuf' = <<>> /\ q' = q /\ ackAtFlush' = acked /\ flushed' = TRUE
         /\ UNCHANGED <<pc, cnt, alive, joinable, clones, app, acked, ackAtShut, lostOk>>

Shutdown == /\ app = "run"
            /\ DoShutdownStart
            /\ ackAtShut' = acked
            /\ app' = IF Async /\ joinable THEN "shutting" ELSE "down"
            /\ UNCHANGED <<pc, cnt, alive, joinable, clones, acked, ackAtFlush, flushed, lostOk, ops>>

Join == /\ app = "shutting" /\ ~alive
        /\ app' = "down" /\ joinable' = FALSE
        /\ UNCHANGED <<pc, cnt, file, wbuf, q, alive, clones, acked, ackAtShut, ackAtFlush, flushed, lostOk, ops>>

Clone == /\ app = "run" /\ ops < MaxAppOps /\ ops' = ops + 1 /\ clones' = clones + 1
         /\ UNCHANGED <<pc, cnt, file, wbuf, q, alive, joinable, app, acked, ackAtShut, ackAtFlush, flushed, lostOk>>

DropClone == /\ app = "run" /\ clones > 0 /\ ops < MaxAppOps /\ ops' = ops + 1 /\ clones' = clones - 1
             /\ IF "clone_drop_shutdown" \in Fixes
                THEN UNCHANGED <<file, wbuf, q, joinable>>
                ELSE /\ DoShutdownStart
                     /\ joinable' = IF Async THEN FALSE ELSE joinable
             /\ UNCHANGED <<pc, cnt, alive, app, acked, ackAtShut, ackAtFlush, flushed, lostOk>>

Next == (\E p \in Producers : Format(p) \/ WriteSync(p) \/ Send(p)) \/ Recv
        \/ Flush \/ Shutdown \/ Join \/ Clone \/ DropClone

Fairness == WF_vars(Recv) /\ WF_vars(Join)
Spec == Init /\ [][Next]_vars /\ Fairness

(***************************************************************************)
(* Properties (as in FlwConc.tla; 1..Len(s) is written DOMAIN s)           *)
(***************************************************************************)
OnDisk == {file[j] : j \in DOMAIN file}
C03_NoDuplicate == \A a, b \in DOMAIN file : a # b => file[a] # file[b]
C03_PerProducerOrder == \A a, b \in DOMAIN file :
                           (a < b /\ file[a][1] = file[b][1]) => file[a][2] < file[b][2]
C03_OnlyAccepted == OnDisk \subseteq acked
Quiet == app = "down" /\ (\A p \in Producers : pc[p] = "idle") /\ (Async => (~alive \/ q = <<>>))
C03_AllArrive == (Quiet /\ \A p \in Producers : cnt[p] = PerProducer) =>
                     \A id \in acked : id \in OnDisk \/ id \notin ackAtShut
C04_AfterShutdown == app = "down" => ackAtShut \subseteq OnDisk
C04_AfterFlush == (~Async /\ flushed) => ackAtFlush \subseteq OnDisk
C04_CloneDropKeepsWriter == (Async /\ app = "run") => alive

Safety == /\ C03_NoDuplicate /\ C03_PerProducerOrder /\ C03_OnlyAccepted /\ C03_AllArrive
          /\ C04_AfterShutdown /\ C04_AfterFlush /\ C04_CloneDropKeepsWriter

(***************************************************************************)
(* The inductive invariant                                                 *)
(***************************************************************************)
InWbuf == {wbuf[j] : j \in DOMAIN wbuf}
\* ids of the data messages in the channel
InQ == {q[j].id : j \in {k \in DOMAIN q : q[k].t = "data"}}

\* I0: shape of the state (no bound on cnt, clones, ops, PerProducer, MaxAppOps, on the lengths or on the sets)
TypeOK ==
    /\ Mode \in {"direct", "buf", "async"}
    /\ DOMAIN pc = Producers /\ DOMAIN cnt = Producers
    /\ \A p \in Producers : pc[p] \in {"idle", "formatted"} /\ cnt[p] >= 0 /\ cnt[p] <= PerProducer
                            /\ (pc[p] = "formatted" => cnt[p] >= 1)
    /\ app \in {"run", "shutting", "down"}
    /\ clones >= 0 /\ ops >= 0 /\ ops <= MaxAppOps
    /\ \A j \in DOMAIN q : q[j].t \in {"data", "flush", "shut"}

\* I1: which parts of the state a mode uses
ModeShape ==
    /\ ~Async => (q = <<>> /\ ~alive /\ ~joinable /\ app # "shutting")
    /\ Async => wbuf = <<>>
    /\ Mode = "direct" => wbuf = <<>>

\* I2: an accepted id <<p, n>> belongs to a producer and 1 <= n <= cnt[p]; the id <<p, cnt[p]>> of a
\*     record that is formatted but not yet written/sent is not accepted yet
\* @type: <<Int, Int>> => Bool;
IdOk(id) == /\ id[1] \in Producers /\ 1 <= id[2] /\ id[2] <= cnt[id[1]]
            /\ (pc[id[1]] = "formatted" => id[2] < cnt[id[1]])
AckedBound == \A id \in acked : IdOk(id)

\* I3: everything in the pipeline (disk, BufWriter, channel) was accepted
PipelineAccepted == OnDisk \subseteq acked /\ InWbuf \subseteq acked /\ InQ \subseteq acked

\* I4: per producer, the sequence numbers increase strictly along  file \o wbuf \o (data ids of q)
PipelineOrder ==
    /\ \A a, b \in DOMAIN file : (a < b /\ file[a][1] = file[b][1]) => file[a][2] < file[b][2]
    /\ \A a, b \in DOMAIN wbuf : (a < b /\ wbuf[a][1] = wbuf[b][1]) => wbuf[a][2] < wbuf[b][2]
    /\ \A a, b \in DOMAIN q : (a < b /\ q[a].t = "data" /\ q[b].t = "data" /\ q[a].id[1] = q[b].id[1])
                                  => q[a].id[2] < q[b].id[2]
    /\ \A a \in DOMAIN file : \A b \in DOMAIN wbuf : file[a][1] = wbuf[b][1] => file[a][2] < wbuf[b][2]
    /\ \A a \in DOMAIN file : \A b \in DOMAIN q :
           (q[b].t = "data" /\ file[a][1] = q[b].id[1]) => file[a][2] < q[b].id[2]

\* I5: nothing accepted is lost while the writer works
NothingLost ==
    /\ ~Async => acked \subseteq (OnDisk \cup InWbuf)
    /\ (Async /\ alive) => acked \subseteq (OnDisk \cup InQ)

\* I6: async, before shutdown: the writer thread runs, can be joined, and no shutdown message is under way
RunShape == (Async /\ app = "run") =>
               (alive /\ joinable /\ \A j \in DOMAIN q : q[j].t # "shut")

\* I7: async: shutdown() has returned only after the writer thread ended
DownShape == (Async /\ app = "down") => ~alive

\* I8: what was accepted before shutdown() is on disk, or (async, writer still running) waits in the
\*     channel in front of every shutdown message
ShutCovered ==
    app # "run" =>
       \A id \in ackAtShut :
          \/ id \in OnDisk
          \/ /\ Async /\ alive
             /\ \E j \in DOMAIN q : /\ q[j].t = "data" /\ q[j].id = id
                                    /\ \A i \in DOMAIN q : i < j => q[i].t # "shut"

IndInv == /\ TypeOK /\ ModeShape /\ AckedBound /\ PipelineAccepted /\ PipelineOrder
          /\ NothingLost /\ RunShape /\ DownShape /\ ShutCovered /\ C04_AfterFlush
=============================================================================
