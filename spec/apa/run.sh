#!/usr/bin/env bash
# Inductive proof of the FlwConc safety properties with Apalache (see README.md).
# Prints one line per step:  APALACHE <step> <mode> OK|FAIL|TIMEOUT <seconds>
# Exit code 0 iff all steps are OK.  Nothing is written under /verif: output goes to /tmp/apa-out.
set -u
HERE="$(cd "$(dirname "${BASH_SOURCE[0]}")" && pwd)"
SPEC="$HERE/FlwConcApaInd.tla"
OUT=/tmp/apa-out
CWD=/tmp/apa-cwd.$$          # apalache drops a stray ./tmp directory into its working directory
TMO=${APA_TIMEOUT:-900}
rm -rf "$OUT"; mkdir -p "$OUT" "$CWD"; cd "$CWD" || exit 2

# step <name> <mode> <expected exit code of apalache: 0 = no error, 12 = counterexample> <apalache args...>
step() {
  local name=$1 mode=$2 expect=$3; shift 3
  local s=$(date +%s) rc res
  timeout "$TMO" apalache-mc check --out-dir="$OUT/$name-$mode" --no-deadlock "$@" "$SPEC" > "$OUT/$name-$mode.log" 2>&1
  rc=$?
  if   [ $rc -eq 124 ] || [ $rc -eq 137 ]; then res=TIMEOUT
  elif [ $rc -eq "$expect" ]; then res=OK
  else res=FAIL; fi
  echo "APALACHE $name $mode $res $(( $(date +%s) - s ))"
  [ $res = OK ] || { cp "$OUT/$name-$mode.log" "/tmp/apa-fail-$name-$mode.log" 2>/dev/null; return 1; }
}

mode_steps() {   # all steps of one mode, sequentially
  local M=$1 m=$2 ok=0
  step init      $m 0  --cinit=CInit$M --init=Init    --inv=IndInv --length=0            || ok=1   # Init => IndInv
  step inductive $m 0  --cinit=CInit$M --init=IndInit --next=Next --inv=IndInv --length=1 || ok=1   # IndInv /\ Next => IndInv'
  step implies   $m 0  --cinit=CInit$M --init=IndInit --inv=Safety --length=0            || ok=1   # IndInv => Safety
  step witness   $m 12 --cinit=CInit$M --init=IndInit --inv=NoWitness$M --length=0       || ok=1   # IndInit is not vacuous
  return $ok
}

pids=()
mode_steps Direct direct & pids+=($!)
mode_steps Buf    buf    & pids+=($!)
mode_steps Async  async  & pids+=($!)
# mutant: as-coded clone drop (Fixes = {}): the induction step must fail with a counterexample
( step mutant async-ascoded 12 --cinit=CInitAsyncAsCoded --init=IndInit --next=Next --inv=IndInv --length=1 ) & pids+=($!)

rc=0
for p in "${pids[@]}"; do wait "$p" || rc=1; done
cd /; rm -rf "$OUT" "$CWD"
[ $rc -eq 0 ] && echo "APALACHE ALL OK" || echo "APALACHE SOME STEP FAILED (logs: /tmp/apa-fail-*.log)"
exit $rc
