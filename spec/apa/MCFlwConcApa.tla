---------------------------- MODULE MCFlwConcApa ----------------------------
(* TLC cross-check of the typed copy: same constants as ../MCFlwConc_{direct,buf,async}.cfg *)
EXTENDS FlwConcApa
AllFixes == {"clone_drop_shutdown"}
P2 == {1, 2}
=============================================================================
