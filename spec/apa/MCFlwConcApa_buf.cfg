SPECIFICATION Spec
CONSTANTS
  Producers <- P2
  PerProducer = 2
  Mode = "buf"
  MaxAppOps = 2
  Fixes <- AllFixes
INVARIANT Safety
INVARIANT IndInv
CHECK_DEADLOCK FALSE
