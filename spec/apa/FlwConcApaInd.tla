---------------------------- MODULE FlwConcApaInd ----------------------------
(***************************************************************************)
(* Apalache driver for FlwConcApa.tla: constant initialisers (one per mode) *)
(* and the generator of arbitrary IndInv-states for the inductive step.     *)
(***************************************************************************)
EXTENDS FlwConcApa, Apalache

\* Producers: any subset of {1,2,3} (i.e. 0..3 producers, up to renaming);
\* PerProducer, MaxAppOps: arbitrary naturals (no upper bound).
CInitCommon == /\ Producers \in SUBSET {1, 2, 3}
               /\ PerProducer \in Nat
               /\ MaxAppOps \in Nat
               /\ Fixes = {"clone_drop_shutdown"}
CInitDirect == CInitCommon /\ Mode = "direct"
CInitBuf    == CInitCommon /\ Mode = "buf"
CInitAsync  == CInitCommon /\ Mode = "async"

\* An arbitrary state satisfying IndInv.  Integers (cnt, clones, ops) are unbounded; the
\* containers are bounded by the generators: Len(file), Len(wbuf), Len(q) <= 4 and
\* |acked|, |ackAtShut|, |ackAtFlush|, |lostOk| <= 6  (see README.md, "What is assumed").
GenState ==
    /\ pc = Gen(3) /\ cnt = Gen(3)
    /\ file = Gen(4) /\ wbuf = Gen(4) /\ q = Gen(4)
    /\ alive \in BOOLEAN /\ joinable \in BOOLEAN /\ flushed \in BOOLEAN
    /\ clones \in Nat /\ ops \in Nat
    /\ app \in {"run", "shutting", "down"}
    /\ acked = Gen(6) /\ ackAtShut = Gen(6) /\ ackAtFlush = Gen(6) /\ lostOk = Gen(6)

IndInit == GenState /\ IndInv
=============================================================================
