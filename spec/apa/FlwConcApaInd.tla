---------------------------- MODULE FlwConcApaInd ----------------------------
(***************************************************************************)
(* Apalache driver for FlwConcApa.tla: constant initialisers (one per mode) *)
(* and the generator of arbitrary IndInv-states for the inductive step.     *)
(***************************************************************************)
EXTENDS FlwConcApa, Apalache

\* Producers: any subset of {1,2,3} (i.e. 0..3 producers, up to renaming);
\* PerProducer, MaxAppOps: arbitrary naturals (no upper bound).
CInitCommon == /\ Producers \in SUBSET {1, 2, 3}
               /\ PerProducer \in Nat
               /\ MaxAppOps \in Nat
               /\ Fixes = {"clone_drop_shutdown"}
CInitDirect == CInitCommon /\ Mode = "direct"
CInitBuf    == CInitCommon /\ Mode = "buf"
CInitAsync  == CInitCommon /\ Mode = "async"

\* An arbitrary state satisfying IndInv.  Integers (cnt, clones, ops) are unbounded; the
\* containers are bounded by the generators: Len(file), Len(wbuf), Len(q) <= 5 and
\* |acked|, |ackAtShut|, |ackAtFlush|, |lostOk| <= 8  (see README.md, "What is assumed").
GenState ==
    /\ pc = Gen(3) /\ cnt = Gen(3)
    /\ file = Gen(5) /\ wbuf = Gen(5) /\ q = Gen(5)
    /\ alive \in BOOLEAN /\ joinable \in BOOLEAN /\ flushed \in BOOLEAN
    /\ clones \in Nat /\ ops \in Nat
    /\ app \in {"run", "shutting", "down"}
    /\ acked = Gen(8) /\ ackAtShut = Gen(8) /\ ackAtFlush = Gen(8) /\ lostOk = Gen(8)

IndInit == GenState /\ IndInv

(***************************************************************************)
(* Sanity checks of the method (run.sh expects a VIOLATION for each).      *)
(***************************************************************************)
\* non-vacuity: IndInit has rich states (3 producers, full containers, shutdown under way / completed);
\* run.sh checks NoWitness* as an "invariant" of IndInit and expects a counterexample
NoWitnessAsync  == ~(/\ Cardinality(Producers) = 3 /\ Len(file) = 5 /\ Len(q) = 5 /\ app = "shutting" /\ alive
                     /\ Cardinality(ackAtShut) >= 6 /\ \E p \in Producers : pc[p] = "formatted" /\ cnt[p] > 1000)
NoWitnessBuf    == ~(/\ Cardinality(Producers) = 3 /\ Len(file) = 5 /\ Len(wbuf) = 3 /\ app = "down" /\ flushed
                     /\ Cardinality(ackAtShut) >= 4 /\ \E p \in Producers : pc[p] = "formatted" /\ cnt[p] > 1000)
NoWitnessDirect == ~(/\ Cardinality(Producers) = 3 /\ Len(file) = 5 /\ app = "down" /\ flushed
                     /\ Cardinality(ackAtShut) >= 4 /\ \E p \in Producers : pc[p] = "formatted" /\ cnt[p] > 1000)
\* mutant: the code as found (dropping any clone shuts the writers down): IndInv must NOT be inductive
CInitAsyncAsCoded == /\ Producers \in SUBSET {1, 2, 3} /\ PerProducer \in Nat /\ MaxAppOps \in Nat
                     /\ Fixes = {} /\ Mode = "async"
=============================================================================
