SPECIFICATION Spec
CONSTANTS
  Producers <- P2
  PerProducer = 2
  Mode = "async"
  MaxAppOps = 0
  Fixes <- RepoFixes
  GenHist = TRUE
INVARIANT Emit
VIEW GenView
CHECK_DEADLOCK FALSE
