------------------------------- MODULE MonC04 -------------------------------
(* C04: flush, shutdown and handle drop leave no accepted record behind.     *)
(* The observation is taken immediately (no sleep) after the call returned.  *)
EXTENDS MonBase

VARIABLES wasShut,  \* shutdown() has been called explicitly in this run
          rej       \* ids of records logged after that shutdown whose loss was reported on the error channel
                    \* (logging after shutdown() is outside the property)
svars == <<bvars, wasShut, rej>>

Upd == LET e == E IN
       /\ wasShut' = IF e.ev \in {"Begin", "Start"} THEN FALSE ELSE (wasShut \/ (e.ev \in {"Shutdown", "ShutdownRace"} /\ Ok(e)))
       /\ rej' = IF e.ev = "Begin" THEN {}
                 ELSE IF e.ev = "Log" /\ wasShut /\ \E j \in 1..Len(e.errs) : e.errs[j] = "Write" THEN rej \cup {e.id}
                 ELSE rej

Check ==
    LET e == E
        a == SelectSeq(acc', LAMBDA p : p[1] \notin rej')
        cc == c'
    IN  IF ~HasObs(e) \/ e.ev = "Begin" THEN TRUE ELSE
        LET F == e.obs.files
            S == Stream(F)
        IN
        \* (observations that race with the async writer thread or the cleanup thread are not judged)
        /\ LET quiet == (cc.mode # "async" /\ ~(cc.clean /\ cc.bg)) \/ (e.ev \in {"Shutdown", "ShutdownRace", "Stop"} /\ Ok(e)) IN
           /\ Chk(e, "AllClean", ~quiet \/ AllClean(F))
           /\ Chk(e, "NothingForeign", ~quiet \/ IsPrefix(S, a) \/ cc.clean)
        \* once shutdown() has returned or the last clone of the handle has been dropped ...
        \* several callers at the same time (FlwShut.tla): a call that returned while the writer thread was still held
        \* with its backlog must already find every accepted record on disk
        /\ IF e.ev = "ShutdownRace" /\ Ok(e)
           THEN /\ Chk(e, "NoCallerReturnsBeforeWritten",
                       e.early = 0 \/ {a[j][1] : j \in 1..Len(a)} \subseteq {e.heldids[j] : j \in 1..Len(e.heldids)})
                /\ Cnt(6, e.held) /\ Cnt(7, e.held /\ cc.mode = "async" /\ Len(e.heldids) < Len(a))
           ELSE TRUE
        /\ IF e.ev \in {"Shutdown", "ShutdownRace", "Stop"} /\ Ok(e)
           THEN Chk(e, IF e.ev # "Stop" THEN "AfterShutdownAllPresent" ELSE "AfterLastDropAllPresent",
                    IF cc.clean THEN IsSuffix(S, a) /\ (Len(a) = 0 \/ Len(S) > 0) ELSE S = a)
                /\ Cnt(1, TRUE) /\ Cnt(2, cc.mode = "async") /\ Cnt(3, Len(ReadOrder(F)) > 1)
           ELSE TRUE
        \* ... and, in the synchronous buffered modes, once flush() has returned
        /\ IF e.ev = "Flush" /\ Ok(e) /\ cc.mode \in {"buf", "bufflush", "direct", "capture"} /\ ~cc.clean
           THEN Chk(e, "AfterFlushAllPresent", S = a) /\ Cnt(4, TRUE)
           ELSE TRUE
        \* dropping one clone while another clone is alive does not stop or lose subsequent output:
        \* judged by the two predicates above at the next shutdown / drop of the last clone
        /\ Cnt(5, e.ev = "DropClone" /\ Ok(e))

Init == BaseInit /\ wasShut = FALSE /\ rej = {}
Next == BaseStep /\ Upd /\ Check /\ Finish
Spec == Init /\ [][Next]_svars
=============================================================================
