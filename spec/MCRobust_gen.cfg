SPECIFICATION Spec
CONSTANTS
  DirCls <- DirClsAll
  Namings <- NamingsAll
  FmtCls <- FmtClsAll
  OpCls <- OpClsQ
  MaxOps = 2
  GenHist = TRUE
INVARIANT Emit
VIEW View
CHECK_DEADLOCK FALSE
