------------------------------ MODULE FlwClean ------------------------------
(***************************************************************************)
(* C03 / C07: a rotation of the logging thread interleaved with the        *)
(* background cleanup thread (cleanup_in_background_thread, the default of  *)
(* the synchronous write modes), buffered writer, a naming with a fixed     *)
(* infix for the current file (Numbers, Timestamps).                        *)
(*                                                                         *)
(* Logging thread (holds the state mutex during the whole rotation, but     *)
(* the cleanup thread does not take that mutex), state.rs                   *)
(* mount_next_linewriter_if_necessary, one step per effect:                 *)
(*   RFlush    current_write.flush()        ("flush_before_rename" \in Fixes)*)
(*   RRename   rename CURRENT -> r<k>       the file is now a ROTATED file   *)
(*   ROpen     create a new CURRENT                                          *)
(*   RSwitch   *current_write = new_write   the old BufWriter is dropped:    *)
(*             its buffer is written into the file it holds open             *)
(*   RAct      send Act to the cleanup thread                                *)
(* Cleanup thread (list_and_cleanup.rs):                                    *)
(*   CTake     receive Act, list the rotated files                           *)
(*   CZip(n)   read the file, write n.gz, remove n                           *)
(*                                                                         *)
(* As coded at the pinned commit (no RFlush), TLC finds: RRename of         *)
(* rotation 2, then a CZip of the cleanup run started by rotation 1 that    *)
(* lists the just renamed file, then RSwitch - the buffered tail goes into   *)
(* the unlinked file. The C03 stress runs hit exactly this (2 of 60 runs);  *)
(* repaired in /repo by flushing before the rename.                         *)
(***************************************************************************)
EXTENDS Naturals, Sequences, FiniteSets, TLC

CONSTANTS NRecs,      \* records logged
          PerFile,    \* a rotation is due when the current file holds this many records (incl. buffered ones)
          Fixes

VARIABLES files,    \* inode -> sequence of record ids (content on disk)
          dir,      \* name -> inode ; names: "cur", <<"r", k>>, <<"gz", k>>
          wino,     \* inode the writer holds open
          buf,      \* records in the BufWriter
          pc,       \* logging thread: "idle" | "flush" | "rename" | "open" | "switch" | "act"
          newino,   \* inode opened by ROpen, not yet mounted
          nrot,     \* rotations done (next index)
          logged,   \* number of records accepted
          pending,  \* Act messages in the channel of the cleanup thread
          work      \* cleanup thread: rotated-file indexes still to be compressed in the current run
vars == <<files, dir, wino, buf, pc, newino, nrot, logged, pending, work>>

CUR == [t |-> "cur", k |-> 0]
R(k) == [t |-> "r", k |-> k]
Z(k) == [t |-> "gz", k |-> k]
Fresh == IF DOMAIN files = {} THEN 1 ELSE 1 + CHOOSE m \in DOMAIN files : \A x \in DOMAIN files : x <= m

Init == /\ files = (1 :> <<>>) /\ dir = (CUR :> 1) /\ wino = 1 /\ buf = <<>> /\ pc = "idle" /\ newino = 0
        /\ nrot = 0 /\ logged = 0 /\ pending = 0 /\ work = {}

InCur == Len(files[wino]) + Len(buf)

\* write_buffer: rotation check first, then the record goes into the buffer
Write == /\ pc = "idle" /\ logged < NRecs
         /\ IF InCur >= PerFile
            THEN pc' = (IF "flush_before_rename" \in Fixes THEN "flush" ELSE "rename") /\ UNCHANGED <<buf, logged>>
            ELSE buf' = Append(buf, logged + 1) /\ logged' = logged + 1 /\ pc' = pc
         /\ UNCHANGED <<files, dir, wino, newino, nrot, pending, work>>

\* the flusher thread / an explicit flush (takes the state mutex: only between rotations)
Flush == /\ pc = "idle" /\ buf # <<>>
         /\ files' = [files EXCEPT ![wino] = @ \o buf] /\ buf' = <<>>
         /\ UNCHANGED <<dir, wino, pc, newino, nrot, logged, pending, work>>

RFlush == /\ pc = "flush"
          /\ files' = [files EXCEPT ![wino] = @ \o buf] /\ buf' = <<>> /\ pc' = "rename"
          /\ UNCHANGED <<dir, wino, newino, nrot, logged, pending, work>>

RRename == /\ pc = "rename"
           /\ dir' = [n \in (DOMAIN dir \ {CUR}) \cup {R(nrot)} |-> IF n = R(nrot) THEN dir[CUR] ELSE dir[n]]
           /\ pc' = "open"
           /\ UNCHANGED <<files, wino, buf, newino, nrot, logged, pending, work>>

ROpen == /\ pc = "open"
         /\ LET i == Fresh IN
            /\ files' = [j \in DOMAIN files \cup {i} |-> IF j = i THEN <<>> ELSE files[j]]
            /\ dir' = [n \in DOMAIN dir \cup {CUR} |-> IF n = CUR THEN i ELSE dir[n]]
            /\ newino' = i
         /\ pc' = "switch"
         /\ UNCHANGED <<wino, buf, nrot, logged, pending, work>>

\* the old BufWriter is dropped: flush into the inode it holds, whatever its name is now - or none
RSwitch == /\ pc = "switch"
           /\ files' = [files EXCEPT ![wino] = @ \o buf] /\ buf' = <<>>
           /\ wino' = newino /\ newino' = 0 /\ nrot' = nrot + 1 /\ pc' = "act"
           /\ UNCHANGED <<dir, logged, pending, work>>

RAct == /\ pc = "act" /\ pending' = pending + 1 /\ pc' = "idle"
        /\ UNCHANGED <<files, dir, wino, buf, newino, nrot, logged, work>>

\* cleanup thread: KeepCompressedFiles(many): every rotated plain file is compressed, nothing is removed
CTake == /\ pending > 0 /\ work = {}
         /\ pending' = pending - 1
         /\ work' = {k \in 0..(nrot + 1) : R(k) \in DOMAIN dir}
         /\ UNCHANGED <<files, dir, wino, buf, pc, newino, nrot, logged>>

CZip(k) == /\ k \in work /\ \A j \in work : k <= j          \* in the order of the listing
           /\ work' = work \ {k}
           /\ IF R(k) \in DOMAIN dir
              THEN LET i == Fresh IN
                   /\ files' = [j \in DOMAIN files \cup {i} |-> IF j = i THEN files[dir[R(k)]] ELSE files[j]]
                   /\ dir' = [n \in (DOMAIN dir \ {R(k)}) \cup {Z(k)} |-> IF n = Z(k) THEN i ELSE dir[n]]
              ELSE UNCHANGED <<files, dir>>
           /\ UNCHANGED <<wino, buf, pc, newino, nrot, logged, pending>>

Next == Write \/ Flush \/ RFlush \/ RRename \/ ROpen \/ RSwitch \/ RAct \/ CTake \/ \E k \in work : CZip(k)
Spec == Init /\ [][Next]_vars

Reachable == UNION {{files[dir[n]][j] : j \in 1..Len(files[dir[n]])} : n \in DOMAIN dir}
Buffered == {buf[j] : j \in 1..Len(buf)}
\* every accepted record is in the writer's buffer or in a file that has a name (plain or compressed)
NoRecordLost == (1..logged) \subseteq (Reachable \cup Buffered)
\* a compressed file holds what its rotated file held: no reachable file shares a record with another one
NoDuplicate == \A a, b \in DOMAIN dir : a # b =>
                  {files[dir[a]][j] : j \in 1..Len(files[dir[a]])} \cap {files[dir[b]][j] : j \in 1..Len(files[dir[b]])} = {}
\* the inode the writer holds has a name, except inside a rotation
WriterLinked == pc = "idle" => \E n \in DOMAIN dir : dir[n] = wino
=============================================================================
