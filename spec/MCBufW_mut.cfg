SPECIFICATION Spec
CONSTANTS
  MaxSize = 5
  Lens <- LensQ
  MaxRecs = 6
  Mutations = {"evict_at_equal"}
INVARIANTS SizeIsSum WithinLimit NewestPresent IsNewestRun NoDeadlock
PROPERTIES NoNeedlessEviction Returns
CHECK_DEADLOCK FALSE
