------------------------------- MODULE MonC15 -------------------------------
(* C15: file contents do not depend on the write mode; raw chunks pass       *)
(* unchanged. The same history is executed under every write mode (one       *)
(* scenario per mode, same group id `grp`); after shutdown the ordered list  *)
(* of (file name, bytes) must be the same for all modes of a group, and the  *)
(* concatenation of the bytes must be what was written.                      *)
EXTENDS Naturals, Integers, Sequences, FiniteSets, TLC, Json, IOUtils, SequencesExt, Props

Rec == ndJsonDeserialize(IOEnv.TRACE)
VARIABLES l, grp, ref, hasref, exp, mode
vars == <<l, grp, ref, hasref, exp, mode>>
E == Rec[l]
Ok(e) == e.ret = "ok"
NCounters == 6
Init == /\ l = 1 /\ grp = -1 /\ ref = <<>> /\ hasref = FALSE /\ exp = "" /\ mode = ""
        /\ \A i \in 1..NCounters : TLCSet(i, 0)
Chk(e, name, ok) == IF ok THEN TRUE ELSE PrintT(<<"BAD", e.sc, e.n, name>>)
Cnt(i, cond) == IF cond THEN TLCSet(i, TLCGet(i) + 1) ELSE TRUE
Finish == IF l = Len(Rec) THEN PrintT(<<"COUNTS", [i \in 1..NCounters |-> TLCGet(i)]>>) /\ PrintT(<<"CONSUMED", l>>)
          ELSE TRUE

Fin(F) == LET RO == ReadOrder(F) IN [j \in 1..Len(RO) |-> <<RO[j].name, RO[j].hex>>]
RECURSIVE CatHex(_)
CatHex(fin) == IF fin = <<>> THEN "" ELSE Head(fin)[2] \o CatHex(Tail(fin))
\* "once the logger is shut down": after the explicit shutdown() and again after the drop
IsFinal(e) == e.ev \in {"Shutdown", "Stop"} /\ Ok(e)

Next ==
    /\ l <= Len(Rec) /\ l' = l + 1
    /\ LET e == E IN
       /\ grp' = IF e.ev = "Begin" THEN e.grp ELSE grp
       /\ mode' = IF e.ev = "Begin" THEN e.norm.mode ELSE mode
       /\ exp' = IF e.ev = "Begin" THEN ""
                 \* (a record marked "lost" is logged while an obstacle keeps the writer from opening its file: its call
                 \* returns, the failure is reported, the record is in no file - under every write mode)
                 ELSE IF e.ev \in {"Log", "Chunk"} /\ Ok(e) /\ ~("q" \in DOMAIN e /\ e.q = "lost") THEN exp \o e.hex ELSE exp
       /\ hasref' = IF e.ev = "Begin" THEN (e.grp = grp /\ hasref) ELSE IF IsFinal(e) THEN TRUE ELSE hasref
       /\ ref' = IF IsFinal(e) /\ ~hasref THEN Fin(e.obs.files) ELSE IF e.ev = "Begin" /\ e.grp # grp THEN <<>> ELSE ref
       /\ IF IsFinal(e)
          THEN LET fin == Fin(e.obs.files) IN
               /\ Chk(e, "ContentIsWhatWasWritten", CatHex(fin) = exp)
               /\ Chk(e, "ModeIndependent", ~hasref \/ fin = ref)
               /\ Cnt(1, TRUE) /\ Cnt(2, hasref) /\ Cnt(3, Len(fin) > 1)
               /\ Cnt(4, mode = "async") /\ Cnt(5, mode = "buf")
               /\ Cnt(6, \E j \in 1..l : Rec[j].sc = e.sc /\ "q" \in DOMAIN Rec[j] /\ Rec[j].q = "lost")
          ELSE TRUE
    /\ Finish
Spec == Init /\ [][Next]_vars
=============================================================================
