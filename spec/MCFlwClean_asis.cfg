SPECIFICATION Spec
CONSTANTS
  NRecs = 5
  PerFile = 2
  Fixes <- AsPinned
INVARIANT NoRecordLost
INVARIANT NoDuplicate
INVARIANT WriterLinked
CHECK_DEADLOCK FALSE
