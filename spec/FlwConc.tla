------------------------------ MODULE FlwConc ------------------------------
(***************************************************************************)
(* Threads around the file writer (C03, C04): logging threads, the         *)
(* application thread that owns the handle and its clones, and - in async   *)
(* mode - the writer thread fed by an unbounded channel.                    *)
(*                                                                         *)
(* One step per critical section of the code:                              *)
(*  sync   Format(p)  format into the thread-local buffer (no shared state) *)
(*         Write(p)   lock state, write_buffer, unlock  (state_handle.rs:188)*)
(*  async  Format(p)  pop a pooled buffer (or allocate), format             *)
(*         Send(p)    sender.send(buffer)               (state_handle.rs:103)*)
(*         Recv       writer thread: recv, lock state, dispatch             *)
(*                    (data: write_buffer + recycle the cleared buffer;     *)
(*                     Flush: flush; Shutdown: state.shutdown, thread ends) *)
(*  app    Flush, Shutdown (async: send + join), Clone, DropClone, DropLast *)
(* The output is the sequence of record ids on disk (`file`) plus what sits *)
(* in the BufWriter (`wbuf`, sync buffered mode only).                      *)
(*                                                                         *)
(* Deviation "clone_drop_shutdown": as coded, dropping ANY clone of the     *)
(* LoggerHandle runs Drop for WritersHandle = shutdown() (logger_handle.rs  *)
(* :524); in async mode the writer thread ends and all later records are    *)
(* lost. Intended: only the last clone shuts the writers down.              *)
(* Deviation "pool_not_cleared": (hypothetical, for the design check of the *)
(* pool) a recycled buffer that is not cleared prepends stale bytes.        *)
(***************************************************************************)
EXTENDS Naturals, Integers, Sequences, FiniteSets, TLC, SequencesExt

CONSTANTS Producers,   \* set of logging threads
          PerProducer, \* records each logs
          Mode,        \* "direct" | "buf" | "async"
          MaxAppOps,   \* bound on Flush/Clone/DropClone operations of the application thread
          Fixes, GenHist

VARIABLES pc,       \* producer -> "idle" | "formatted" | "done"
          cnt,      \* producer -> number of records it has logged (started)
          file,     \* record ids on disk, in order
          wbuf,     \* record ids in the BufWriter (sync buffered)
          q,        \* channel: Seq of messages
          alive,    \* the async writer thread is running
          joinable, \* its JoinHandle has not been taken yet (mo_thread_handle)
          clones,   \* number of live handle clones beyond the original
          app,      \* application thread: "run" | "shutting" (inside shutdown, waiting for the join) | "down"
          acked,    \* ids whose log call has returned
          ackAtShut,\* acked when the (first) shutdown started
          ackAtFlush, \* acked when the last completed sync flush started
          flushed,  \* a sync flush has completed and nothing was logged since (for C04_AfterFlush)
          lostOk,   \* ids whose send failed (reported to the caller as an error): not "accepted"
          ops, hist

vars == <<pc, cnt, file, wbuf, q, alive, joinable, clones, app, acked, ackAtShut, ackAtFlush, flushed, lostOk, ops, hist>>

Id(p, n) == <<p, n>>
Async == Mode = "async"
H(e) == IF GenHist THEN Append(hist, e) ELSE hist
Data(id) == [t |-> "data", id |-> id]
FlushMsg == [t |-> "flush", id |-> <<>>]
ShutMsg  == [t |-> "shut", id |-> <<>>]

Init == /\ pc = [p \in Producers |-> "idle"] /\ cnt = [p \in Producers |-> 0]
        /\ file = <<>> /\ wbuf = <<>> /\ q = <<>> /\ alive = Async /\ joinable = Async
        /\ clones = 0 /\ app = "run" /\ acked = {} /\ ackAtShut = {} /\ ackAtFlush = {} /\ flushed = FALSE
        /\ lostOk = {} /\ ops = 0 /\ hist = <<>>

\* ---------------- logging threads
Format(p) == /\ pc[p] = "idle" /\ cnt[p] < PerProducer
             /\ pc' = [pc EXCEPT ![p] = "formatted"] /\ cnt' = [cnt EXCEPT ![p] = @ + 1]
             /\ hist' = H([op |-> "Format", p |-> p])
             /\ UNCHANGED <<file, wbuf, q, alive, joinable, clones, app, acked, ackAtShut, ackAtFlush, flushed, lostOk, ops>>

\* sync: one critical section under the state mutex
WriteSync(p) == /\ ~Async /\ pc[p] = "formatted"
                /\ IF Mode = "direct" THEN file' = Append(file, Id(p, cnt[p])) /\ wbuf' = wbuf
                   ELSE wbuf' = Append(wbuf, Id(p, cnt[p])) /\ file' = file
                /\ pc' = [pc EXCEPT ![p] = "idle"] /\ acked' = acked \cup {Id(p, cnt[p])}
                /\ flushed' = FALSE
                /\ hist' = H([op |-> "Write", p |-> p])
                /\ UNCHANGED <<cnt, q, alive, joinable, clones, app, ackAtShut, ackAtFlush, lostOk, ops>>

\* async: send; crossbeam's send fails iff the receiver (the writer thread) is gone
Send(p) == /\ Async /\ pc[p] = "formatted"
           /\ IF alive THEN q' = Append(q, Data(Id(p, cnt[p]))) /\ acked' = acked \cup {Id(p, cnt[p])} /\ lostOk' = lostOk
              ELSE q' = q /\ acked' = acked /\ lostOk' = lostOk \cup {Id(p, cnt[p])}
           /\ pc' = [pc EXCEPT ![p] = "idle"]
           /\ hist' = H([op |-> "Send", p |-> p])
           /\ UNCHANGED <<cnt, file, wbuf, alive, joinable, clones, app, ackAtShut, ackAtFlush, flushed, ops>>

\* ---------------- the async writer thread
Recv == /\ Async /\ alive /\ q # <<>>
        /\ LET m == Head(q) IN
           /\ q' = Tail(q)
           /\ CASE m.t = "data" -> file' = Append(file, m.id) /\ alive' = alive
                [] m.t = "flush" -> UNCHANGED <<file, alive>>
                [] m.t = "shut" -> UNCHANGED file /\ alive' = FALSE
        /\ hist' = hist          \* steps of the writer thread are not part of the application's history
        /\ UNCHANGED <<pc, cnt, wbuf, joinable, clones, app, acked, ackAtShut, ackAtFlush, flushed, lostOk, ops>>

\* ---------------- the application thread
DoShutdownStart ==   \* PrimaryWriter::shutdown: flush, then writer.shutdown()
    /\ IF Async
       THEN /\ q' = IF alive THEN Append(Append(q, FlushMsg), ShutMsg) ELSE q
            /\ UNCHANGED <<file, wbuf>>
       ELSE /\ file' = file \o wbuf /\ wbuf' = <<>> /\ q' = q

Flush == /\ app = "run" /\ ops < MaxAppOps /\ ops' = ops + 1
         /\ IF Async THEN q' = (IF alive THEN Append(q, FlushMsg) ELSE q) /\ UNCHANGED <<file, wbuf, ackAtFlush, flushed>>
            ELSE file' = file \o wbuf /\ wbuf' = <<>> /\ q' = q /\ ackAtFlush' = acked /\ flushed' = TRUE
         /\ hist' = H([op |-> "Flush"])
         /\ UNCHANGED <<pc, cnt, alive, joinable, clones, app, acked, ackAtShut, lostOk>>

Shutdown == /\ app = "run"
            /\ DoShutdownStart
            /\ ackAtShut' = acked
            /\ app' = IF Async /\ joinable THEN "shutting" ELSE "down"
            /\ hist' = H([op |-> "Shutdown"])
            /\ UNCHANGED <<pc, cnt, alive, joinable, clones, acked, ackAtFlush, flushed, lostOk, ops>>

\* o_th.take().and_then(|th| th.join()): returns when the writer thread has ended
Join == /\ app = "shutting" /\ ~alive
        /\ app' = "down" /\ joinable' = FALSE
        /\ hist' = hist
        /\ UNCHANGED <<pc, cnt, file, wbuf, q, alive, clones, acked, ackAtShut, ackAtFlush, flushed, lostOk, ops>>

Clone == /\ app = "run" /\ ops < MaxAppOps /\ ops' = ops + 1 /\ clones' = clones + 1
         /\ hist' = H([op |-> "Clone"])
         /\ UNCHANGED <<pc, cnt, file, wbuf, q, alive, joinable, app, acked, ackAtShut, ackAtFlush, flushed, lostOk>>

\* dropping a clone while another clone (or the original) is alive
DropClone == /\ app = "run" /\ clones > 0 /\ ops < MaxAppOps /\ ops' = ops + 1 /\ clones' = clones - 1
             /\ IF "clone_drop_shutdown" \in Fixes
                THEN UNCHANGED <<file, wbuf, q, joinable>>
                ELSE \* as coded: Drop for WritersHandle -> shutdown(); in async mode incl. the join (modelled as
                     \* immediate: the application thread blocks until the writer thread is gone)
                     /\ DoShutdownStart
                     /\ joinable' = IF Async THEN FALSE ELSE joinable     \* mo_thread_handle.take()
             /\ hist' = H([op |-> "DropClone"])
             /\ UNCHANGED <<pc, cnt, alive, app, acked, ackAtShut, ackAtFlush, flushed, lostOk>>

Next == (\E p \in Producers : Format(p) \/ WriteSync(p) \/ Send(p)) \/ Recv
        \/ Flush \/ Shutdown \/ Join \/ Clone \/ DropClone

Fairness == WF_vars(Recv) /\ WF_vars(Join)
Spec == Init /\ [][Next]_vars /\ Fairness

(***************************************************************************)
(* Properties                                                              *)
(***************************************************************************)
OnDisk == {file[j] : j \in 1..Len(file)}
\* C03: every accepted record exactly once, records of one thread in its logging order
C03_NoDuplicate == \A a, b \in 1..Len(file) : a # b => file[a] # file[b]
C03_PerProducerOrder == \A a, b \in 1..Len(file) :
                           (a < b /\ file[a][1] = file[b][1]) => file[a][2] < file[b][2]
C03_OnlyAccepted == OnDisk \subseteq acked
\* C03 at quiescence: everything accepted is on disk
Quiet == app = "down" /\ (\A p \in Producers : pc[p] = "idle") /\ (Async => (~alive \/ q = <<>>))
C03_AllArrive == (Quiet /\ \A p \in Producers : cnt[p] = PerProducer) =>
                     \A id \in acked : id \in OnDisk \/ id \notin ackAtShut   \* (logged concurrently with / after shutdown)
\* C04: once shutdown() has returned, every record whose log call had completed before is on disk
C04_AfterShutdown == app = "down" => ackAtShut \subseteq OnDisk
\* C04: in the synchronous buffered modes, once flush() has returned ...
C04_AfterFlush == (~Async /\ flushed) => ackAtFlush \subseteq OnDisk
\* C04: dropping one clone while another is alive does not stop the output
C04_CloneDropKeepsWriter == (Async /\ app = "run") => alive
\* C04 liveness: a started shutdown returns
C04_ShutdownReturns == (app = "shutting") ~> (app = "down")
=============================================================================
