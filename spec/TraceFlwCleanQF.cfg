SPECIFICATION TSpec
CONSTANTS
  NRot = 1000000
  K <- TrK
  M <- TrM
  Variant = "as_coded"
  MaxFail = 1000000
  Direct <- TrDirect
  GenHist = FALSE
CHECK_DEADLOCK FALSE
