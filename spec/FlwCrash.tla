------------------------------ MODULE FlwCrash ------------------------------
(***************************************************************************)
(* C11: the process is killed. FlwF.tla numbers the file-system effects of *)
(* every call; a kill immediately before effect j of a call leaves the      *)
(* directory as FlwF's failure at effect j leaves it at that point (the     *)
(* effects before j are done, nothing after it), and takes the writer with  *)
(* its buffer away. Afterwards a new logger is started on the directory     *)
(* (append on or off) and goes on logging, rotating and cleaning up.        *)
(* TLC enumerates every kill point of every history within the bounds.      *)
(*                                                                         *)
(* The property (direct write mode, cap = 0): every record whose log call   *)
(* had returned is in the files afterwards and stays there (cleanup limits  *)
(* aside), in order; the restarted logger keeps what the limit permits.     *)
(***************************************************************************)
EXTENDS FlwF

VARIABLES crashed     \* the process has been killed once
cvars == <<fvars, crashed>>

OneFail(j) == [x \in 1..24 |-> x = j]
NoFail == [x \in 1..24 |-> FALSE]

(***************************************************************************)
(* The state a kill immediately before effect j leaves. For the effects    *)
(* whose failure ends the operation this is what FlwF's failure at j        *)
(* leaves; the two link effects (their failure is ignored by the code, the  *)
(* operation goes on) are stopped at explicitly: everything in front of the *)
(* open is done, the link is untouched (j = p) or removed (j = p + 1 of     *)
(* unlink, symlink).  hit: the operation has an effect number j.            *)
(***************************************************************************)
KillInit(c, d, f, t, j, l) ==
    LET nl   == Len(LkFx(l))
        p    == IF c.rot /\ c.naming \in {"Num", "Ts"} /\ ~c.append THEN 2 ELSE 1
        full == InitializeL(c, d, f, t, NoFail, l)
    IN IF nl > 0 /\ HasOpen(full.fx) /\ j \in p..(p + nl - 1)
       THEN LET R0 == InitializeF(c, d, f, t, OneFail(p)) IN
            [hit |-> TRUE, d |-> R0.d, f |-> R0.f, legit |-> R0.legit, lk |-> IF j = p THEN l ELSE [l EXCEPT !.has = FALSE]]
       ELSE LET R == InitializeL(c, d, f, t, OneFail(j), l) IN
            [hit |-> j <= full.used, d |-> R.d, f |-> R.f, legit |-> R.legit, lk |-> R.lk]

KillRot(c, d, fa, wa, t, j, j0, l) ==
    LET nl   == Len(LkFx(l))
        p    == j0 + (IF c.naming \in {"Num", "Ts"} THEN 2 ELSE 1)
        full == RotateL(c, d, fa, wa, t, NoFail, j0, l)
    IN IF nl > 0 /\ HasOpen(full.fx) /\ j \in p..(p + nl - 1)
       THEN LET R0 == RotateF(c, d, fa, wa, t, OneFail(p), j0) IN
            [hit |-> TRUE, d |-> R0.d, f |-> R0.f, lk |-> IF j = p THEN l ELSE [l EXCEPT !.has = FALSE]]
       ELSE LET R == RotateL(c, d, fa, wa, t, OneFail(j), j0, l) IN
            [hit |-> j > j0 /\ j <= full.used, d |-> R.d, f |-> R.f, lk |-> R.lk]

CInit == FInit /\ crashed = FALSE /\ plan.from = 0

\* kill immediately before effect j of a log call: the record is in flight, its call never returns
CrashInWrite(len, j) ==
    /\ ~crashed /\ w.st \in {"init", "act"} /\ Len(logged) < MaxRecs
    /\ LET id == Len(logged) + 1
           ki == IF w.st = "init" THEN KillInit(cfg, dir, files, clk, j, lnk) ELSE [hit |-> FALSE, legit |-> {}]
           i0 == IF w.st = "init" THEN InitializeL(cfg, dir, files, clk, NoFail, lnk)
                 ELSE [ok |-> TRUE, d |-> dir, f |-> files, w |-> w, legit |-> {}, used |-> 0, fx |-> <<>>, lk |-> lnk]
           due == cfg.rot /\ RotationNecessary(cfg, i0.w, clk)
           kr == IF due THEN KillRot(cfg, i0.d, i0.f, i0.w, clk, j, i0.used, i0.lk) ELSE [hit |-> FALSE]
           r0 == IF due THEN RotateL(cfg, i0.d, i0.f, i0.w, clk, NoFail, i0.used, i0.lk)
                 ELSE [ok |-> TRUE, d |-> i0.d, f |-> i0.f, w |-> i0.w, used |-> i0.used, fx |-> <<>>, lk |-> i0.lk]
           res == IF ki.hit THEN ki
                  ELSE IF kr.hit THEN kr
                  ELSE [hit |-> j = r0.used + 1, d |-> r0.d, f |-> r0.f, lk |-> r0.lk]    \* before the write itself
           legit == IF ki.hit THEN ki.legit ELSE i0.legit
       IN /\ res.hit
          /\ dir' = res.d /\ files' = res.f /\ lnk' = res.lk
          \* (the record of the killed call takes its number with it)
          /\ logged' = Append(logged, len) /\ wt' = Append(wt, clk) /\ lostw' = lostw \cup {id}
          /\ gone' = gone \cup (AllIdsIn(dir, files) \ AllIdsIn(res.d, res.f))
          /\ okgone' = okgone \cup legit \cup (IF cfg.clean THEN AllIdsIn(dir, files) \ AllIdsIn(res.d, res.f) ELSE {})
    /\ w' = NoWriter /\ crashed' = TRUE /\ rep' = <<>> /\ lastfx' = <<>> /\ recov' = 0
    /\ UNCHANGED <<clk, cfg, runs, trigs, advs, forced, extgone, exts, moved, olddirs, sws, needReopen, hist, plan, nfx>>

\* kill immediately before effect j of a forced rotation
CrashInTrigger(j) ==
    /\ ~crashed /\ w.st = "act" /\ cfg.rot
    /\ LET r0 == KillRot(cfg, dir, files, w, clk, j, 0, lnk) IN
       /\ r0.hit
       /\ dir' = r0.d /\ files' = r0.f /\ lnk' = r0.lk
       /\ gone' = gone \cup (AllIdsIn(dir, FlushInto(files, w)) \ AllIdsIn(r0.d, r0.f))
       /\ okgone' = okgone \cup (IF cfg.clean THEN AllIdsIn(dir, FlushInto(files, w)) \ AllIdsIn(r0.d, r0.f) ELSE {})
    /\ w' = NoWriter /\ crashed' = TRUE /\ rep' = <<>> /\ lastfx' = <<>> /\ recov' = 0
    /\ UNCHANGED <<clk, cfg, logged, wt, runs, trigs, advs, forced, extgone, exts, moved, olddirs, sws, needReopen, hist,
                   plan, nfx, lostw>>

\* kill in any other call (start, flush, shutdown) or between two calls: the writer and its buffer are gone
CrashOther ==
    /\ ~crashed /\ w' = NoWriter /\ crashed' = TRUE /\ rep' = <<>> /\ lastfx' = <<>> /\ recov' = 0
    /\ UNCHANGED <<dir, files, clk, cfg, logged, wt, runs, trigs, advs, gone, okgone, forced, extgone, exts, moved, olddirs, sws,
                   needReopen, hist, plan, nfx, lostw, lnk>>

Keep(next) == next /\ UNCHANGED crashed

CNext == \/ Keep(\E ap \in BOOLEAN : StartF(ap))
         \/ Keep(\E len \in Lens : WriteF(len))
         \/ Keep(TriggerF) \/ Keep(TriggerNoopF) \/ Keep(FlushF) \/ Keep(StopF)
         \/ Keep(\E dt \in Dts : AdvanceF(dt))
         \/ \E len \in Lens : \E j \in 1..12 : CrashInWrite(len, j)
         \/ \E j \in 1..12 : CrashInTrigger(j)
         \/ CrashOther
CSpec == CInit /\ [][CNext]_cvars

\* direct mode: every record whose log call had returned is in the files, in order (gone = documented truncation
\* or cleanup); the in-flight record of the killed call (lostw) may be missing
C11_AckedPresent == (cfg.cap = 0) => Stream(Untwin(ObsFiles)) = Kept
\* (sanity: the same WITHOUT the restriction to the direct mode must fail - a kill takes the buffer away)
C11_AckedPresentAnyMode == Stream(Untwin(ObsFiles)) = Kept
C11_NoDestruction == gone \subseteq okgone
\* the restarted logger keeps what the cleanup limit permits: nothing is missing while there is room
C11_KeptWhatLimitPermits ==
    (crashed /\ cfg.clean /\ cfg.cap = 0 /\ w.st = "act") =>
        LET all == SelectSeq(Acc, LAMBDA p : p[1] \notin lostw)
            U == Untwin(ObsFiles)
            nrot == Cardinality({j \in 1..Len(U) : IsRot(U[j])}) IN
        Len(Stream(U)) >= Len(all) \/ nrot >= KEff(cfg) + cfg.m
\* after the restart no rotated name is both plain and compressed any more once a cleanup has run
C11_TwinsOnlyUnfinished == NoTwin(Untwin(ObsFiles))
=============================================================================
