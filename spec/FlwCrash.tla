------------------------------ MODULE FlwCrash ------------------------------
(***************************************************************************)
(* C11: the process is killed. FlwF.tla numbers the file-system effects of *)
(* every call; a kill immediately before effect j of a call leaves the      *)
(* directory as FlwF's failure at effect j leaves it at that point (the     *)
(* effects before j are done, nothing after it), and takes the writer with  *)
(* its buffer away. Afterwards a new logger is started on the directory     *)
(* (append on or off) and goes on logging, rotating and cleaning up.        *)
(* TLC enumerates every kill point of every history within the bounds.      *)
(*                                                                         *)
(* The property (direct write mode, cap = 0): every record whose log call   *)
(* had returned is in the files afterwards and stays there (cleanup limits  *)
(* aside), in order; the restarted logger keeps what the limit permits.     *)
(***************************************************************************)
EXTENDS FlwF

VARIABLES crashed     \* the process has been killed once
cvars == <<fvars, crashed>>

OneFail(j) == [x \in 1..24 |-> x = j]

CInit == FInit /\ crashed = FALSE /\ plan.from = 0

\* kill immediately before effect j of a log call: the record is in flight, its call never returns
CrashInWrite(len, j) ==
    /\ ~crashed /\ w.st \in {"init", "act"} /\ Len(logged) < MaxRecs
    /\ LET FL == OneFail(j)
           id == Len(logged) + 1
           i0 == IF w.st = "init" THEN InitializeL(cfg, dir, files, clk, FL, lnk)
                 ELSE [ok |-> TRUE, d |-> dir, f |-> files, w |-> w, legit |-> {}, used |-> 0, fx |-> <<>>, lk |-> lnk]
           due == i0.ok /\ cfg.rot /\ RotationNecessary(cfg, i0.w, clk)
           r0 == IF due THEN RotateL(cfg, i0.d, i0.f, i0.w, clk, FL, i0.used, i0.lk)
                 ELSE [ok |-> i0.ok, d |-> i0.d, f |-> i0.f, w |-> i0.w, used |-> i0.used, fx |-> <<>>, lk |-> i0.lk]
           n == IF i0.ok THEN r0.used + 1 ELSE i0.used          \* effects of the call up to and incl. the failing one
       IN /\ j <= n /\ (i0.ok => (~r0.ok \/ j = r0.used + 1))    \* effect j exists in this call
          /\ dir' = r0.d /\ files' = r0.f /\ lnk' = r0.lk
          /\ logged' = Append(logged, len) /\ wt' = Append(wt, clk)
          /\ lostw' = lostw \cup {id}
          /\ gone' = gone \cup (AllIdsIn(dir, files) \ AllIdsIn(r0.d, r0.f))
          /\ okgone' = okgone \cup i0.legit \cup (IF cfg.clean THEN AllIdsIn(dir, files) \ AllIdsIn(r0.d, r0.f) ELSE {})
    /\ w' = NoWriter /\ crashed' = TRUE /\ rep' = <<>> /\ lastfx' = <<>> /\ recov' = 0
    /\ UNCHANGED <<clk, cfg, runs, trigs, advs, forced, extgone, exts, moved, olddirs, sws, needReopen, hist, plan, nfx>>

\* kill immediately before effect j of a forced rotation
CrashInTrigger(j) ==
    /\ ~crashed /\ w.st = "act" /\ cfg.rot
    /\ LET r0 == RotateL(cfg, dir, files, w, clk, OneFail(j), 0, lnk) IN
       /\ ~r0.ok /\ r0.used = j
       /\ dir' = r0.d /\ files' = r0.f /\ lnk' = r0.lk
       /\ gone' = gone \cup (AllIdsIn(dir, FlushInto(files, w)) \ AllIdsIn(r0.d, r0.f))
       /\ okgone' = okgone \cup (IF cfg.clean THEN AllIdsIn(dir, FlushInto(files, w)) \ AllIdsIn(r0.d, r0.f) ELSE {})
    /\ w' = NoWriter /\ crashed' = TRUE /\ rep' = <<>> /\ lastfx' = <<>> /\ recov' = 0
    /\ UNCHANGED <<clk, cfg, logged, wt, runs, trigs, advs, forced, extgone, exts, moved, olddirs, sws, needReopen, hist,
                   plan, nfx, lostw>>

Keep(next) == next /\ UNCHANGED crashed

CNext == \/ Keep(\E ap \in BOOLEAN : StartF(ap))
         \/ Keep(\E len \in Lens : WriteF(len))
         \/ Keep(TriggerF) \/ Keep(TriggerNoopF) \/ Keep(FlushF) \/ Keep(StopF)
         \/ Keep(\E dt \in Dts : AdvanceF(dt))
         \/ \E len \in Lens : \E j \in 1..12 : CrashInWrite(len, j)
         \/ \E j \in 1..12 : CrashInTrigger(j)
CSpec == CInit /\ [][CNext]_cvars

\* direct mode: every record whose log call had returned is in the files, in order (gone = documented truncation
\* or cleanup); the in-flight record of the killed call (lostw) may be missing
C11_AckedPresent == (cfg.cap = 0) => Stream(Untwin(ObsFiles)) = Kept
\* (sanity: the same WITHOUT the restriction to the direct mode must fail - a kill takes the buffer away)
C11_AckedPresentAnyMode == Stream(Untwin(ObsFiles)) = Kept
C11_NoDestruction == gone \subseteq okgone
\* the restarted logger keeps what the cleanup limit permits: nothing is missing while there is room
C11_KeptWhatLimitPermits ==
    (crashed /\ cfg.clean /\ cfg.cap = 0 /\ w.st = "act") =>
        LET all == SelectSeq(Acc, LAMBDA p : p[1] \notin lostw)
            U == Untwin(ObsFiles)
            nrot == Cardinality({j \in 1..Len(U) : IsRot(U[j])}) IN
        Len(Stream(U)) >= Len(all) \/ nrot >= KEff(cfg) + cfg.m
\* after the restart no rotated name is both plain and compressed any more once a cleanup has run
C11_TwinsOnlyUnfinished == NoTwin(Untwin(ObsFiles))
=============================================================================
