------------------------------- MODULE MonC17 -------------------------------
(* C17: text forms round-trip; parsing never panics, returns an error exactly *)
(* when some part of the input is malformed, and the specification attached   *)
(* to the error holds exactly the well-formed module and level parts (none if *)
(* the overall spec/regex structure is malformed).                            *)
(* Parse events: toks = tokens of the parsed string (harness lexer), src =    *)
(* the tokens the string was built from (TLC-generated strings), reok = is    *)
(* the text behind a single "/" a valid regex (input fact), ret, filters =    *)
(* module_filters() of the returned / carried specification.                  *)
(* RoundTrip events: spec, via (display | toml | specfile), g0 / g1 =         *)
(* decision grids before / after the round trip.                              *)
EXTENDS MonSpecBase

RECURSIVE JoinS(_)
JoinS(n) == IF n = <<>> THEN "" ELSE Head(n) \o JoinS(Tail(n))
\* entries of the grammar as the code reports them: [name, dflt, l]
AsReported(es) == [i \in DOMAIN es |-> [name |-> JoinS(es[i].n), dflt |-> es[i].dflt, l |-> es[i].l]]

CheckParse(e) ==
    LET t    == e.toks
        wf   == WellFormed(t, e.reok)
        en   == HasEmptyNamePart(t)
        lax  == Parse(t, e.reok, FALSE)
    IN
    /\ Cnt(1, TRUE)
    /\ Chk(e, "ParseNeverPanics", ~Panicked(e))
    /\ IF Panicked(e) THEN TRUE
       ELSE IF en
       THEN \* a part with an empty module name ("=info") is no <path_to_module>; whether it is "malformed" is
            \* not settled by the documentation (the code accepts it): counted, not judged (see DESIGN.md, C17)
            /\ Cnt(7, TRUE)
       ELSE /\ Cnt(2, wf) /\ Cnt(3, ~wf)
            /\ Chk(e, "ErrIffMalformed", (e.ret = "err") <=> ~wf)
            /\ Chk(e, "ParseReturnsOkOrParseError", e.ret \in {"ok", "err"})
            \* the returned (ok) or carried (err) specification: exactly the well-formed parts
            /\ IF e.ret = "err"
               THEN /\ Chk(e, "CarriedSpecIsWellFormedParts", SameBag(e.filters, AsReported(WfEntries(t))))
                    /\ Cnt(4, StructOk(t) /\ WfEntries(t) # <<>>) /\ Cnt(5, ~StructOk(t))
                    /\ (~StructOk(t) => Chk(e, "NothingCarriedIfStructureBroken", e.filters = <<>>))
               ELSE IF e.ret = "ok"
               THEN Chk(e, "OkSpecIsAllParts", SameBag(e.filters, AsReported(WfEntries(t))))
               ELSE TRUE
            /\ Cnt(6, ~e.reok)
    \* sanity of the binding: the lexer of the harness and the tokens the string was built from agree
    /\ IF e.hassrc
       THEN /\ Cnt(8, TRUE)
            /\ Chk(e, "ToolLexerAgrees",
                   LET a == Parse(e.src, e.reok, FALSE) IN
                   a.ok = lax.ok /\ a.struct = lax.struct /\ AsReported(a.es) = AsReported(lax.es))
       ELSE Cnt(9, TRUE)

CheckRoundTrip(e) ==
    LET S == e.spec
        T == c.targets IN
    /\ Cnt(10, TRUE)
    /\ Chk(e, "RoundTripNeverPanics", ~Panicked(e))
    /\ IF Panicked(e) THEN TRUE
       ELSE IF ~UniqueNames(S) THEN TRUE
       ELSE /\ Chk(e, "RoundTrip_" \o e.via \o "_Parses", e.ret = "ok")
            /\ IF e.ret = "ok"
               THEN /\ Chk(e, "RoundTrip_" \o e.via \o "_DecidesIdentically", e.g1 = e.g0)
                    \* binding evidence only (what a specification must decide is judged by C02):
                    \* the specification that went in decides as SpecDefs defines for the one the scenario names
                    /\ Cnt(16, e.g0 = Grid(S, T))
               ELSE TRUE
            /\ Cnt(11, e.via = "display") /\ Cnt(12, e.via = "toml") /\ Cnt(13, e.via = "specfile")
            /\ Cnt(14, S.d < 0) /\ Cnt(15, \E i \in DOMAIN S.f : S.f[i].l = 0)

Check ==
    LET e == E IN
    CASE e.ev = "Parse" -> CheckParse(e)
      [] e.ev = "RoundTrip" -> CheckRoundTrip(e)
      [] OTHER -> TRUE

Init == BaseInit
Next == BaseStep /\ Check /\ Finish
Spec == Init /\ [][Next]_<<l, c>>
=============================================================================
