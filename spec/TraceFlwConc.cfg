SPECIFICATION TSpec
CONSTANTS
  Producers <- TrProducers
  PerProducer = 1000000
  Mode <- TrMode
  MaxAppOps = 1000000
  Fixes <- TrFixes
  GenHist = FALSE
POSTCONDITION Reached
CHECK_DEADLOCK FALSE
