-------------------------------- MODULE BufW --------------------------------
(***************************************************************************)
(* The memory buffer of Logger::log_to_buffer (writers/buffer_writer.rs):  *)
(* a FIFO of formatted lines with a byte limit. "Drops the oldest messages  *)
(* when needed to observe the limit. Once filled, the buffer will always    *)
(* contain at least the latest message, even if this message is bigger than *)
(* the limit." A line is identified by its number; its size is its length.  *)
(* A message may log while it is formatted (Nested): the line is formatted  *)
(* BEFORE the buffer is locked, so the nested line is complete and in the   *)
(* buffer when the outer one arrives (the variant that formats under the    *)
(* lock - "format_under_lock" - deadlocks: the as-found code, repaired).    *)
(***************************************************************************)
EXTENDS Naturals, Sequences, FiniteSets, TLC

CONSTANTS MaxSize,      \* byte limit of the buffer
          Lens,         \* line lengths (0 = the format function wrote nothing: ignored)
          MaxRecs,
          Mutations     \* {} = the code as repaired

VARIABLES buf,          \* <<[id, len]>> oldest first
          size,         \* the code's counter
          n,            \* lines accepted so far
          held,         \* the buffer's mutex is held by the one logging thread
          stack,        \* lengths of the records being formatted, outermost first (nested log calls)
          dead,         \* the thread waits for a mutex it holds itself
          calls         \* log calls begun (bounds the model)
vars == <<buf, size, n, held, stack, dead, calls>>

Sum(s) == LET F[k \in 0..Len(s)] == IF k = 0 THEN 0 ELSE F[k - 1] + s[k].len IN F[Len(s)]

Init == buf = <<>> /\ size = 0 /\ n = 0 /\ held = FALSE /\ stack = <<>> /\ dead = FALSE /\ calls = 0

\* the eviction loop: drop from the front while the new line does not fit
RECURSIVE Evict(_, _, _, _)
Evict(b, sz, len, max) == IF sz + len > max /\ b # <<>> THEN Evict(Tail(b), sz - Head(b).len, len, max) ELSE <<b, sz>>

\* BufferWriter::write after formatting, as a function (also used by the trace specification, with the recorded limit)
PushTo(b, sz, cnt, len, max) ==
    IF len = 0 THEN [buf |-> b, size |-> sz, n |-> cnt]
    ELSE LET r == IF len > max THEN <<(<<>>), 0>>
                  ELSE IF "evict_at_equal" \in Mutations
                       THEN Evict(b, sz, len + 1, max)   \* `>=` instead of `>` (with an empty buffer the code spins: not modelled)
                       ELSE Evict(b, sz, len, max)
         IN [buf |-> Append(r[1], [id |-> cnt + 1, len |-> len]), size |-> r[2] + len, n |-> cnt + 1]

Push(len) == LET r == PushTo(buf, size, n, len, MaxSize) IN buf' = r.buf /\ size' = r.size /\ n' = r.n

\* a log call begins: the line is formatted (under the lock only in the as-found variant)
Begin(len) ==
    /\ ~dead /\ calls < MaxRecs /\ calls' = calls + 1
    /\ IF "format_under_lock" \in Mutations
       THEN IF held THEN dead' = TRUE /\ UNCHANGED <<held, stack>>
            ELSE held' = TRUE /\ stack' = Append(stack, len) /\ dead' = dead
       ELSE stack' = Append(stack, len) /\ UNCHANGED <<held, dead>>
    /\ UNCHANGED <<buf, size, n>>

\* formatting of the innermost record is done: lock, evict, push, unlock
End ==
    /\ ~dead /\ stack # <<>>
    /\ Push(stack[Len(stack)])
    /\ stack' = SubSeq(stack, 1, Len(stack) - 1)
    /\ held' = FALSE /\ dead' = dead /\ calls' = calls

Next == (\E len \in Lens : Begin(len)) \/ End
Spec == Init /\ [][Next]_vars /\ WF_vars(End)

\* ---- properties
SizeIsSum == size = Sum(buf)
WithinLimit == size <= MaxSize \/ Len(buf) = 1
NewestPresent == n > 0 => (buf # <<>> /\ buf[Len(buf)].id = n)
\* FIFO: the buffer holds the newest lines, consecutively, oldest first
IsNewestRun == \A k \in 1..Len(buf) : buf[k].id = n - Len(buf) + k
\* nothing is dropped without need: the line in front of the buffer would not have fitted
\* (checked as an action property: an eviction happens only if the line did not fit)
NoNeedlessEviction ==
    [][(n' = n + 1 /\ Len(buf') <= Len(buf) /\ buf # <<>>) =>
         (size + buf'[Len(buf')].len > MaxSize)]_vars
NoDeadlock == ~dead
\* a started log call returns
Returns == (stack # <<>>) ~> (stack = <<>>)
=============================================================================
