SPECIFICATION FSpec
CONSTANTS
  Producers <- P2
  PerProducer = 2
  Mode = "buf"
  MaxAppOps = 1
  MaxTicks = 2
  FVariant = "as_coded"
  Fixes <- AllFixes
  GenHist = FALSE
INVARIANT C03_NoDuplicate
INVARIANT C03_PerProducerOrder
INVARIANT C03_OnlyAccepted
INVARIANT C03_AllArrive
INVARIANT C04_AfterShutdown
INVARIANT C04_AfterFlush
INVARIANT C04_CloneDropKeepsWriter
INVARIANT NothingInLimbo
PROPERTY AppendOnly
PROPERTY FShutdownReturns
VIEW FView
CHECK_DEADLOCK FALSE
