SPECIFICATION Spec
CONSTANTS
  Msgs <- MsgsAll
  Cap = 4
  N = 3
  MaxOps = 5
  WithTrigger = FALSE
  Fixes <- AllFixes
  GenHist = FALSE
INVARIANT SyncModesAgree
INVARIANT ModeIndependent
PROPERTY ShutdownCompletes
CHECK_DEADLOCK FALSE
