-------------------------------- MODULE Flw --------------------------------
(***************************************************************************)
(* Sequential core of flexi_logger's FileLogWriter (0.30.1), written to be  *)
(* bound to the code: one action per public call, each following the code   *)
(* branch by branch (file:line references are to /repo/src).                *)
(*                                                                         *)
(* State is abstract: a directory of structural names -> inodes, inode      *)
(* contents as sequences of record ids, the writer (held inode, user-space  *)
(* buffer, naming state, roll state), a virtual wall clock.                 *)
(*                                                                         *)
(* Behaviour of the code that contradicts a listed property is modelled AS  *)
(* CODED; the intended behaviour sits behind `name \in Fixes` (a "named     *)
(* deviation"). MC*-ideal configs set Fixes to all names, MC*-asis configs  *)
(* to the deviations already repaired in /repo.                             *)
(***************************************************************************)
EXTENDS Naturals, Integers, Sequences, FiniteSets, TLC, SequencesExt, FiniteSetsExt, Props

CONSTANTS Cfgs,        \* set of configurations explored (records, see MCFlw*.tla)
          Lens,        \* record byte lengths (incl. line ending) a Write may use
          Dts,         \* clock advances (seconds) an Advance step may take
          T0,          \* initial clock value (civil seconds)
          MaxRecs,     \* bound on number of records
          MaxRuns,     \* bound on number of logger starts
          MaxTrig,     \* bound on forced rotations
          MaxAdv,      \* bound on clock advances
          MaxExt,      \* bound on removals of files by the environment (between runs)
          MaxSw,       \* bound on switches: external rename/remove of the current file + reopen, reset
          ResetCfgs,   \* configurations a Reset may switch to (new family in another directory)
          Fixes,       \* names of deviations assumed repaired
          GenHist      \* TRUE: keep the action history (scenario generation)

VARIABLES dir,      \* Name -> inode id        (the log directory)
          files,    \* inode id -> [ids: Seq(Nat), bt: Nat]  (content as record ids, birth time)
          w,        \* writer state
          clk,      \* wall clock (civil seconds)
          cfg,      \* active configuration
          logged,   \* Seq of record lengths: accepted records, id = position
          wt,       \* Seq of clock values at which the records were written
          runs, trigs, advs,
          gone,     \* record ids destroyed so far (any cause)
          okgone,   \* record ids whose destruction is documented (truncate of a non-rotated file
                    \* reopened without append; cleanup limit)
          forced,   \* stream positions with a legitimate non-criterion file boundary (C08)
          extgone, exts, \* record ids removed by the environment; number of such removals
          moved,    \* inodes of current files renamed away by the environment, in rename order (C18)
          olddirs,  \* directories of the families left behind by Reset, in order (C18)
          sws,      \* number of switches so far
          needReopen, \* the current file was renamed/removed: the application calls reopen next
          hist      \* action history (only when GenHist)

vars == <<dir, files, w, clk, cfg, logged, wt, runs, trigs, advs, gone, okgone, forced, extgone, exts, moved, olddirs, sws, needReopen, hist>>

(***************************************************************************)
(* Names                                                                   *)
(***************************************************************************)
Cur        == [k |-> "cur",   i |-> -1, r |-> -1, z |-> FALSE]
Plain      == [k |-> "plain", i |-> -1, r |-> -1, z |-> FALSE]
Num(i)     == [k |-> "num",   i |-> i,  r |-> -1, z |-> FALSE]
Ts(key, r) == [k |-> "ts",    i |-> key, r |-> r, z |-> FALSE]
Gz(n)      == [n EXCEPT !.z = TRUE]
UnGz(n)    == [n EXCEPT !.z = FALSE]

\* descending path order as produced by read_dir_related_files (file_spec.rs:356):
\* sort_unstable + reverse on the path strings. Structurally (index/timestamp, restart).
RECURSIVE SortDesc(_)
SortDesc(S) == IF S = {} THEN <<>>
               ELSE LET m == CHOOSE x \in S : \A y \in S \ {x} : Less(y, x)
                    IN <<m>> \o SortDesc(S \ {m})

(***************************************************************************)
(* Config helpers                                                          *)
(***************************************************************************)
Direct(c)   == c.naming \in {"NumD", "TsD"}
IsNum(c)    == c.naming \in {"Num", "NumD"}
Key(c, t)   == (t \div c.gran) * c.gran          \* timestamp rendered with the infix format
\* AgeLen, Period: Props.tla
RotKind(c)  == IF IsNum(c) THEN "num" ELSE "ts"

LenOf(id)   == logged[id]
RECURSIVE BytesOf(_)
BytesOf(ids) == IF ids = <<>> THEN 0 ELSE LenOf(Head(ids)) + BytesOf(Tail(ids))

(***************************************************************************)
(* Listing as the code does it (list_and_cleanup.rs:22, file_spec.rs:377)  *)
(***************************************************************************)
Rotated(c, d)  == {n \in DOMAIN d : ~n.z /\ n.k = RotKind(c)}
Zipped(c, d)   == {n \in DOMAIN d : n.z /\ n.k = RotKind(c)}
\* newest first, whether compressed or not (no name is both, see C01_NoTwin; FlwF removes unfinished twins first)
Listing(c, d)  == SortDesc(Rotated(c, d) \cup Zipped(c, d))

\* numbers.rs:41 get_highest_index. Deviation "gz_index": the stem of a compressed file still
\* carries the suffix ("app_r00001.log"), so its index parses as 0.
HighestIdx(c, d) == LET L == Rotated(c, d) \cup Zipped(c, d) IN
                    IF L = {} THEN -1
                    ELSE Max({IF n.z /\ "gz_index" \notin Fixes THEN 0 ELSE n.i : n \in L})

\* file_spec.rs:283 collision_free_infix_for_rotated_file
CollisionFree(d, key) ==
    LET sibs == {n \in DOMAIN d : n.k = "ts" /\ n.i = key /\ n.r >= 0}
        base == Ts(key, -1) \in DOMAIN d \/ Gz(Ts(key, -1)) \in DOMAIN d
    IN IF base \/ sibs # {}
       THEN Ts(key, IF sibs = {} THEN 0 ELSE Max({n.r : n \in sibs}) + 1)
       ELSE Ts(key, -1)

(***************************************************************************)
(* File-system primitives on (d, f)                                        *)
(***************************************************************************)
FreshIno(f) == IF DOMAIN f = {} THEN 1 ELSE Max(DOMAIN f) + 1

Rename(d, a, b) ==   \* POSIX rename: replaces b; NotFound when a is missing (ignored by the code)
    IF a \notin DOMAIN d THEN [d |-> d, ok |-> FALSE]
    ELSE [d |-> [n \in (DOMAIN d \ {a}) \cup {b} |-> IF n = b THEN d[a] ELSE d[n]], ok |-> TRUE]

Open(d, f, n, append, t) ==   \* state.rs:660: create if missing; truncate unless append
    IF n \in DOMAIN d
    THEN [d |-> d, f |-> IF append THEN f ELSE [f EXCEPT ![d[n]].ids = <<>>], ino |-> d[n]]
    ELSE LET i == FreshIno(f) IN
         [d |-> [m \in DOMAIN d \cup {n} |-> IF m = n THEN i ELSE d[m]],
          f |-> [j \in DOMAIN f \cup {i} |-> IF j = i THEN [ids |-> <<>>, bt |-> t] ELSE f[j]],
          ino |-> i]

Unlink(d, n) == [m \in DOMAIN d \ {n} |-> d[m]]
IdsOf(d, f, n) == IF n \in DOMAIN d THEN Range(f[d[n]].ids) ELSE {}

(***************************************************************************)
(* Cleanup: list_and_cleanup.rs:87 remove_or_compress_too_old_logfiles_impl *)
(***************************************************************************)
RECURSIVE CleanFrom(_, _, _, _, _, _)
CleanFrom(d, f, L, idx, k, m) ==
    IF L = <<>> THEN [d |-> d, f |-> f]
    ELSE LET n == Head(L) IN
         IF n \notin DOMAIN d THEN CleanFrom(d, f, Tail(L), idx + 1, k, m)   \* stale listing entry
         ELSE IF idx >= k + m THEN CleanFrom(Unlink(d, n), f, Tail(L), idx + 1, k, m)
         ELSE IF idx >= k /\ ~n.z
              THEN LET i  == FreshIno(f)
                       d1 == [x \in (DOMAIN d \ {n}) \cup {Gz(n)} |-> IF x = Gz(n) THEN i ELSE d[x]]
                       f1 == [j \in DOMAIN f \cup {i} |-> IF j = i THEN [ids |-> f[d[n]].ids, bt |-> 0] ELSE f[j]]
                   IN CleanFrom(d1, f1, Tail(L), idx + 1, k, m)
              ELSE CleanFrom(d, f, Tail(L), idx + 1, k, m)

KEff(c) == IF Direct(c) /\ c.k = 0 THEN 1 ELSE c.k      \* list_and_cleanup.rs:109
Cleanup(c, d, f) ==
    IF ~c.clean THEN [d |-> d, f |-> f]
    ELSE CleanFrom(d, f, Listing(c, d), 0, KEff(c), c.m)

AllIdsIn(d, f) == UNION {Range(f[d[n]].ids) : n \in DOMAIN d}

(***************************************************************************)
(* Writer                                                                  *)
(***************************************************************************)
NoWriter == [st |-> "none", ino |-> 0, path |-> Cur, buf |-> <<>>, idx |-> 0, ts |-> 0,
             size |-> 0, cat |-> 0, buffered |-> FALSE]

FlushInto(f, wr) == IF wr.st = "act" /\ wr.buf # <<>>
                    THEN [f EXCEPT ![wr.ino].ids = @ \o wr.buf] ELSE f

Activate(wr0, c, o, path, idx, ts) ==
    [wr0 EXCEPT !.st = "act", !.ino = o.ino, !.path = path, !.idx = idx, !.ts = ts, !.buf = <<>>,
                !.size = IF c.append THEN BytesOf(o.f[o.ino].ids) ELSE 0,      \* state.rs:120
                !.cat = o.f[o.ino].bt, !.buffered = c.cap > 0]

(* State::initialize (state.rs:305): returns [d, f, w, legit] where legit = ids whose loss by this *)
(* step is documented behaviour                                                                   *)
Initialize(c, d, f, t) ==
    IF ~c.rot THEN
        LET o == Open(d, f, Plain, c.append, t) IN
        [d |-> o.d, f |-> o.f, legit |-> IF c.append THEN {} ELSE IdsOf(d, f, Plain),
         w |-> [NoWriter EXCEPT !.st = "act", !.ino = o.ino, !.path = Plain, !.buffered = c.cap > 0]]
    ELSE
    LET h == HighestIdx(c, d) IN
    CASE c.naming = "Num" ->                                  \* numbers.rs:10 index_for_rcurrent
           LET idx0 == h + 1
               rn   == IF c.append THEN [d |-> d, ok |-> FALSE] ELSE Rename(d, Cur, Num(idx0))
               idx  == IF rn.ok THEN idx0 + 1 ELSE idx0
               o    == Open(rn.d, f, Cur, c.append, t)
               cl   == Cleanup(c, o.d, o.f)
           IN [d |-> cl.d, f |-> cl.f, legit |-> {}, w |-> Activate(NoWriter, c, o, Cur, idx, 0)]
      [] c.naming = "NumD" ->                                 \* state.rs:394
           \* deviation "numd_append_gz": with append the highest index is continued even if that
           \* file exists only compressed (a plain twin of the .gz would be created)
           LET idx == IF h = -1 THEN 0
                      ELSE IF c.append /\ ("numd_append_gz" \notin Fixes \/ Num(h) \in DOMAIN d) THEN h
                      ELSE h + 1
               o   == Open(d, f, Num(idx), c.append, t)
               cl  == Cleanup(c, o.d, o.f)
           IN [d |-> cl.d, f |-> cl.f, legit |-> {}, w |-> Activate(NoWriter, c, o, Num(idx), idx, 0)]
      [] c.naming = "Ts" ->                                   \* timestamps.rs:52
           LET date == IF Cur \in DOMAIN d THEN f[d[Cur]].bt ELSE t
               tgt  == CollisionFree(d, Key(c, date))
               rn   == IF c.append THEN [d |-> d, ok |-> FALSE] ELSE Rename(d, Cur, tgt)
               ts   == IF Cur \in DOMAIN rn.d THEN f[rn.d[Cur]].bt ELSE t
               o    == Open(rn.d, f, Cur, c.append, t)
               cl   == Cleanup(c, o.d, o.f)
           IN [d |-> cl.d, f |-> cl.f, legit |-> {}, w |-> Activate(NoWriter, c, o, Cur, 0, ts)]
      [] c.naming = "TsD" ->                                  \* timestamps.rs:85 latest_timestamp_file
           LET cand == Rotated(c, d)
               ts   == IF ~c.append \/ cand = {} THEN t ELSE Max({n.i : n \in cand})
               \* as coded before the repair (deviation "tsd_start"): the bare timestamp name, opened
               \* with truncate (no append) or although newer .restart siblings / a .gz twin exist
               coded == Ts(Key(c, ts), -1)
               \* intended: without append a collision-free new name; with append continue the newest
               \* file of that timestamp if it exists uncompressed, else a collision-free new name
               nxt  == CollisionFree(d, Key(c, ts))
               last == IF nxt.r <= 0 THEN Ts(Key(c, ts), -1) ELSE Ts(Key(c, ts), nxt.r - 1)
               nm   == IF "tsd_start" \notin Fixes THEN coded
                       ELSE IF c.append /\ last \in DOMAIN d THEN last ELSE nxt
               o    == Open(d, f, nm, c.append, t)
               cl   == Cleanup(c, o.d, o.f)
           IN [d |-> cl.d, f |-> cl.f, legit |-> {}, w |-> Activate(NoWriter, c, o, nm, 0, ts)]

RotationNecessary(c, wr, t) ==                                \* state.rs:143
    \/ c.size >= 0 /\ wr.size > c.size
    \/ c.age # "-" /\ Period(c.age, wr.cat) # Period(c.age, t)

(* mount_next_linewriter_if_necessary (state.rs:456), the rotation itself *)
Rotate(c, d, f0, wr, t) ==
    LET f == FlushInto(f0, wr) IN      \* the old BufWriter is dropped => flushed into the old inode
    CASE c.naming = "Num" ->
           LET rn == Rename(d, Cur, Num(wr.idx))
               o  == Open(rn.d, f, Cur, c.append, t)
               cl == Cleanup(c, o.d, o.f)
           IN [d |-> cl.d, f |-> cl.f,
               w |-> [wr EXCEPT !.ino = o.ino, !.buf = <<>>, !.idx = IF rn.ok THEN @ + 1 ELSE @,
                                !.size = 0, !.cat = o.f[o.ino].bt,
                                !.buffered = c.cap > 0]]   \* open_log_file wraps the new file again (also after a reopen)
      [] c.naming = "NumD" ->
           LET nm == Num(wr.idx + 1)
               o  == Open(d, f, nm, c.append, t)
               cl == Cleanup(c, o.d, o.f)
           IN [d |-> cl.d, f |-> cl.f,
               w |-> [wr EXCEPT !.ino = o.ino, !.path = nm, !.buf = <<>>, !.idx = @ + 1,
                                !.size = 0, !.cat = o.f[o.ino].bt,
                                !.buffered = c.cap > 0]]   \* open_log_file wraps the new file again (also after a reopen)
      [] c.naming = "Ts" ->
           LET tgt == CollisionFree(d, Key(c, wr.ts))
               rn  == Rename(d, Cur, tgt)
               o   == Open(rn.d, f, Cur, c.append, t)
               cl  == Cleanup(c, o.d, o.f)
           IN [d |-> cl.d, f |-> cl.f,
               w |-> [wr EXCEPT !.ino = o.ino, !.buf = <<>>, !.ts = t,
                                !.size = 0, !.cat = o.f[o.ino].bt,
                                !.buffered = c.cap > 0]]   \* open_log_file wraps the new file again (also after a reopen)
      [] c.naming = "TsD" ->
           LET nm == CollisionFree(d, Key(c, t))
               o  == Open(d, f, nm, c.append, t)
               cl == Cleanup(c, o.d, o.f)
           IN [d |-> cl.d, f |-> cl.f,
               w |-> [wr EXCEPT !.ino = o.ino, !.path = nm, !.buf = <<>>, !.ts = t,
                                !.size = 0, !.cat = o.f[o.ino].bt,
                                !.buffered = c.cap > 0]]   \* open_log_file wraps the new file again (also after a reopen)

\* std::io::BufWriter::write_all for one record of length len; lens = logged incl. this record
RECURSIVE BytesIn(_, _)
BytesIn(ids, lens) == IF ids = <<>> THEN 0 ELSE lens[Head(ids)] + BytesIn(Tail(ids), lens)
BufWrite(c, f, wr, id, len, lens) ==
    IF ~wr.buffered THEN [f |-> [f EXCEPT ![wr.ino].ids = Append(@, id)], buf |-> <<>>]
    ELSE LET used == BytesIn(wr.buf, lens) IN
         IF len < c.cap - used THEN [f |-> f, buf |-> Append(wr.buf, id)]
         ELSE LET spill == len > c.cap - used
                  f1    == IF spill THEN [f EXCEPT ![wr.ino].ids = @ \o wr.buf] ELSE f
                  buf1  == IF spill THEN <<>> ELSE wr.buf
              IN IF len >= c.cap
                 THEN [f |-> [f1 EXCEPT ![wr.ino].ids = @ \o buf1 \o <<id>>], buf |-> <<>>]
                 ELSE [f |-> f1, buf |-> Append(buf1, id)]

(***************************************************************************)
(* Actions                                                                 *)
(***************************************************************************)
H(e) == IF GenHist THEN Append(hist, e) ELSE hist

Init == /\ dir = <<>> /\ files = <<>> /\ w = NoWriter /\ clk = T0
        /\ cfg \in Cfgs /\ logged = <<>> /\ wt = <<>> /\ runs = 0 /\ trigs = 0 /\ advs = 0
        /\ gone = {} /\ okgone = {} /\ forced = {} /\ extgone = {} /\ exts = 0 /\ moved = <<>> /\ olddirs = <<>> /\ sws = 0 /\ needReopen = FALSE
        /\ hist = <<>>

Start(ap) == /\ w.st = "none" /\ runs < MaxRuns
             /\ cfg' = [cfg EXCEPT !.append = ap] /\ runs' = runs + 1
             /\ w' = [NoWriter EXCEPT !.st = "init"]
             /\ forced' = IF ~ap THEN forced \cup {Len(logged)} ELSE forced
             /\ hist' = H([op |-> "Start", append |-> ap])
             /\ UNCHANGED <<dir, files, clk, logged, wt, trigs, advs, gone, okgone, extgone, exts, moved, olddirs, sws, needReopen>>

Write(len) ==
    /\ w.st \in {"init", "act"} /\ Len(logged) < MaxRecs
    /\ LET id  == Len(logged) + 1
           lg  == Append(logged, len)
           i0  == IF w.st = "init" THEN Initialize(cfg, dir, files, clk)
                  ELSE [d |-> dir, f |-> files, w |-> w, legit |-> {}]
           r0  == IF cfg.rot /\ RotationNecessary(cfg, i0.w, clk)
                  THEN Rotate(cfg, i0.d, i0.f, i0.w, clk)
                  ELSE [d |-> i0.d, f |-> i0.f, w |-> i0.w]
           bw  == BufWrite(cfg, r0.f, r0.w, id, len, lg)
           before == AllIdsIn(dir, files)
           after  == AllIdsIn(r0.d, bw.f)
           cleaned == IF cfg.clean THEN before \ after ELSE {}
       IN /\ logged' = lg /\ wt' = Append(wt, clk)
          /\ files' = bw.f
          /\ w' = [r0.w EXCEPT !.buf = bw.buf, !.size = @ + len]
          /\ dir' = r0.d
          /\ gone' = gone \cup (before \ after)
          /\ okgone' = okgone \cup i0.legit \cup cleaned
          \* Until reopen_output() is called the writer keeps its file, wherever the environment has moved it; what it
          \* writes into a file the environment has REMOVED is gone with it. A rotation opens a file at a family path
          \* again, which ends that state.
          /\ needReopen' = (needReopen /\ r0.w.ino = w.ino)
          /\ extgone' = IF r0.w.ino \in Range(r0.d) \/ r0.w.ino \in Range(moved) THEN extgone
                         ELSE extgone \cup {id} \cup Range(bw.buf)
    /\ hist' = H([op |-> "Log", len |-> len])
    /\ UNCHANGED <<clk, cfg, runs, trigs, advs, forced, exts, moved, olddirs, sws>>

\* trigger_rotation before the first write or without rotation does nothing (state.rs:460)
TriggerNoop == /\ w.st = "init" \/ (w.st = "act" /\ ~cfg.rot)
               /\ trigs < MaxTrig /\ trigs' = trigs + 1
               /\ forced' = forced \cup {Len(logged)}
               /\ hist' = H([op |-> "Trigger"])
               /\ UNCHANGED <<dir, files, w, clk, cfg, logged, wt, runs, advs, gone, okgone, extgone, exts, moved, olddirs, sws, needReopen>>

Trigger == /\ w.st = "act" /\ cfg.rot /\ trigs < MaxTrig
           /\ LET r0 == Rotate(cfg, dir, files, w, clk)
                  before == AllIdsIn(dir, FlushInto(files, w))
                  after  == AllIdsIn(r0.d, r0.f)
              IN /\ dir' = r0.d /\ files' = r0.f /\ w' = r0.w
                 /\ gone' = gone \cup (before \ after)
                 /\ okgone' = okgone \cup (IF cfg.clean THEN before \ after ELSE {})
           /\ trigs' = trigs + 1
           /\ forced' = forced \cup {Len(logged)}
           /\ needReopen' = FALSE                   \* (the rotation has opened a file at a family path)
           /\ extgone' = IF w.ino \in Range(dir) \/ w.ino \in Range(moved) THEN extgone ELSE extgone \cup Range(w.buf)
           /\ hist' = H([op |-> "Trigger"])
           /\ UNCHANGED <<clk, cfg, logged, wt, runs, advs, exts, moved, olddirs, sws>>

Flush == /\ w.st = "act" /\ w.buf # <<>>
         /\ files' = FlushInto(files, w) /\ w' = [w EXCEPT !.buf = <<>>]
         /\ hist' = H([op |-> "Flush"])
         /\ UNCHANGED <<dir, clk, cfg, logged, wt, runs, trigs, advs, gone, okgone, forced, extgone, exts, moved, olddirs, sws, needReopen>>

Stop == /\ w.st \in {"init", "act"}
        /\ files' = FlushInto(files, w) /\ w' = NoWriter /\ needReopen' = FALSE
        /\ hist' = H([op |-> "Stop"])
        /\ UNCHANGED <<dir, clk, cfg, logged, wt, runs, trigs, advs, gone, okgone, forced, extgone, exts, moved, olddirs, sws>>

Advance(dt) == /\ advs < MaxAdv /\ clk' = clk + dt /\ advs' = advs + 1
               /\ hist' = H([op |-> "Adv", dt |-> dt])
               /\ UNCHANGED <<dir, files, w, cfg, logged, wt, runs, trigs, gone, okgone, forced, extgone, exts, moved, olddirs, sws, needReopen>>

\* the environment removes a family file while no logger is running (C06: directories left in any
\* state a previous run can produce - only compressed files, gaps in numbering, missing current file)
ExtRemove(n) == /\ w.st = "none" /\ runs >= 1 /\ exts < MaxExt /\ n \in DOMAIN dir
                /\ dir' = Unlink(dir, n) /\ exts' = exts + 1
                /\ extgone' = extgone \cup IdsOf(dir, files, n)
                /\ hist' = H([op |-> "ExtRemove", k |-> n.k, i |-> n.i, r |-> n.r, z |-> n.z])
                /\ UNCHANGED <<files, w, clk, cfg, logged, wt, runs, trigs, advs, gone, okgone, forced, moved, olddirs, sws, needReopen>>

\* ---- C18: the environment renames or removes the file currently written to (logrotate style),
\* the application then calls reopen_output(); reset_flw() switches to another family.
\* Until the reopen, the writer keeps writing into the old inode (file_log_writer.rs:reopen_outputfile doc).
ExtRenameCur == /\ w.st = "act" /\ sws < MaxSw /\ ~needReopen /\ w.path \in DOMAIN dir /\ dir[w.path] = w.ino
                /\ dir' = Unlink(dir, w.path) /\ moved' = Append(moved, w.ino)
                /\ sws' = sws + 1 /\ needReopen' = TRUE
                /\ hist' = H([op |-> "ExtRename", which |-> "cur"])
                /\ UNCHANGED <<files, w, clk, cfg, logged, wt, runs, trigs, advs, gone, okgone, forced, extgone, exts, olddirs>>

\* removal: what the file held, and what the writer still buffers for it, is gone with it
ExtRemoveCur == /\ w.st = "act" /\ sws < MaxSw /\ ~needReopen /\ w.path \in DOMAIN dir /\ dir[w.path] = w.ino
                /\ dir' = Unlink(dir, w.path)
                /\ extgone' = extgone \cup Range(files[w.ino].ids) \cup Range(w.buf)
                /\ sws' = sws + 1 /\ needReopen' = TRUE
                /\ hist' = H([op |-> "ExtRemove", which |-> "cur"])
                /\ UNCHANGED <<files, w, clk, cfg, logged, wt, runs, trigs, advs, gone, okgone, forced, exts, moved, olddirs>>

\* state.rs:540 reopen_outputfile: open(create, append) at the stored path, replace the writer by the
\* bare File (unbuffered from now on); the old writer is dropped => flushed into the old inode.
\* Size and creation date of the roll state are NOT reset. Before the first write: no-op.
Reopen == /\ w.st \in {"init", "act"} /\ (needReopen \/ sws < MaxSw)
          /\ IF w.st = "init" THEN UNCHANGED <<dir, files, w>>
             ELSE LET f1 == FlushInto(files, w)
                      o  == Open(dir, f1, w.path, TRUE, clk)
                  IN /\ dir' = o.d /\ files' = o.f
                     /\ w' = [w EXCEPT !.ino = o.ino, !.buf = <<>>, !.buffered = FALSE]
          /\ needReopen' = FALSE /\ sws' = IF needReopen THEN sws ELSE sws + 1
          /\ hist' = H([op |-> "Reopen"])
          /\ UNCHANGED <<clk, cfg, logged, wt, runs, trigs, advs, gone, okgone, forced, extgone, exts, moved, olddirs>>

\* state_handle.rs:253 reset: the whole State is replaced (old writer dropped => flushed); the new one
\* initialises lazily. The new family lives in another directory (`dir` starts empty).
Reset(c2) == /\ w.st \in {"init", "act"} /\ sws < MaxSw /\ ~needReopen
             /\ (c2.cap > 0) = (cfg.cap > 0)          \* the write mode cannot be changed by a reset
             /\ files' = FlushInto(files, w)
             /\ olddirs' = Append(olddirs, dir) /\ dir' = <<>>
             /\ cfg' = [c2 EXCEPT !.cap = cfg.cap] /\ w' = [NoWriter EXCEPT !.st = "init"]
             /\ sws' = sws + 1
             /\ forced' = forced \cup {Len(logged)}
             /\ hist' = H([op |-> "Reset", cfg |-> c2])
             /\ UNCHANGED <<clk, logged, wt, runs, trigs, advs, gone, okgone, extgone, exts, moved, needReopen>>

Next == \/ \E ap \in BOOLEAN : Start(ap)
        \/ \E len \in Lens : Write(len)
        \/ Trigger \/ TriggerNoop \/ Flush \/ Stop
        \/ \E dt \in Dts : Advance(dt)
        \/ \E n \in DOMAIN dir : ExtRemove(n)
        \/ ExtRenameCur \/ ExtRemoveCur \/ Reopen \/ \E c2 \in ResetCfgs : Reset(c2)

Spec == Init /\ [][Next]_vars

(***************************************************************************)
(* Projection to an observation (same shape as the harness records)        *)
(***************************************************************************)
RecsOf(ids) == [j \in 1..Len(ids) |-> <<ids[j], LenOf(ids[j])>>]
ObsFile(n)  == [k |-> n.k, i |-> n.i, r |-> n.r, z |-> n.z, clean |-> TRUE, bt |-> files[dir[n]].bt,
                recs |-> RecsOf(files[dir[n]].ids)]
ObsFiles    == LET names == SetToSeq(DOMAIN dir) IN [j \in 1..Len(names) |-> ObsFile(names[j])]
Acc         == [j \in 1..Len(logged) |-> <<j, logged[j]>>]
BufRecs     == IF w.st = "act" THEN RecsOf(w.buf) ELSE <<>>
Synced      == w.st # "act" \/ w.buf = <<>>
NotGone     == SelectSeq(Acc, LAMBDA p : p[1] \notin (gone \cup extgone))
AccEff      == SelectSeq(Acc, LAMBDA p : p[1] \notin extgone)

(***************************************************************************)
(* Properties, stated with the shared predicates of Props.tla              *)
(***************************************************************************)
\* C01 (single run, no cleanup)
C01_Domain    == runs <= 1 /\ ~cfg.clean
C01_Prefix    == C01_Domain => StreamIsPrefix(ObsFiles, Acc)
C01_Complete  == (C01_Domain /\ Synced) => StreamComplete(ObsFiles, Acc)
C01_Buffered  == C01_Domain => Stream(ObsFiles) \o BufRecs = Acc
C01_NoTwin    == NoTwin(ObsFiles)

\* C06: nothing destroyed beyond the documented cases; stream stays ordered
C06_NoDestruction == gone \subseteq (okgone \cup extgone)
C06_Ordered       == (~cfg.clean) => Stream(ObsFiles) \o BufRecs = NotGone

\* C07 (synchronous cleanup)
C07_Limits == (cfg.clean /\ w.st = "act") =>
                 /\ Cardinality(Rotated(cfg, dir)) <= KEff(cfg)
                 /\ Cardinality(Zipped(cfg, dir))  <= cfg.m
C07_Tail   == (cfg.clean /\ w.st = "act") => IsSuffix(Stream(ObsFiles) \o BufRecs, AccEff)
C07_CurrentSafe == (w.st = "act" /\ cfg.rot /\ sws = 0) =>
                      /\ w.path \in DOMAIN dir /\ dir[w.path] = w.ino /\ ~w.path.z
\* with switches: the writer holds the file at its path unless the environment just took it away
C07_CurrentSafeSw == (w.st = "act" /\ ~needReopen) => (w.path \in DOMAIN dir /\ dir[w.path] = w.ino)

\* C08 (size criterion, evaluated on synced states so that it is mode independent)
C08_Partition == (cfg.rot /\ cfg.size >= 0 /\ cfg.age = "-" /\ ~cfg.clean /\ Synced /\ gone = {} /\ extgone = {})
                    => SizePartition(ObsFiles, cfg.size, forced)
\* C09 (age criterion); evaluated where every record is on disk
C09_Domain == cfg.rot /\ cfg.age # "-" /\ ~cfg.clean /\ Synced /\ gone = {} /\ extgone = {}
C09_OnePeriodPerFile       == C09_Domain => OnePeriodPerFile(ObsFiles, cfg.age, wt)
C09_NoRotationInsidePeriod == C09_Domain => NoRotationInsidePeriod(ObsFiles, cfg.age, cfg.size, forced)
C09_TsNameIsStart          == (cfg.rot /\ ~cfg.clean) => TsNameIsStart(ObsFiles, cfg.gran)
\* C18: reopen/reset switch files without losing, duplicating or reordering
MovedRecs   == [j \in 1..Len(moved) |-> RecsOf(files[moved[j]].ids)]
OldFamRecs  == [j \in 1..Len(olddirs) |->
                  LET d == olddirs[j]
                      names == SetToSeq(DOMAIN d)
                  IN Stream([q \in 1..Len(names) |->
                        [k |-> names[q].k, i |-> names[q].i, r |-> names[q].r, z |-> names[q].z,
                         clean |-> TRUE, bt |-> 0, recs |-> RecsOf(files[d[names[q]]].ids)]])]
\* the buffer counts only while the inode it will be flushed into is still reachable
BufRecsSw   == IF w.st = "act" /\ (w.ino \in Range(dir) \/ w.ino \in Range(moved)) THEN RecsOf(w.buf) ELSE <<>>
AllPlaces   == FlattenSeq(MovedRecs) \o FlattenSeq(OldFamRecs) \o Stream(ObsFiles) \o BufRecsSw
C18_ExactlyOnce == (~cfg.clean) => SameElementsOnce(AllPlaces, NotGone)
C18_OrderedParts == (~cfg.clean) => /\ Ascending(FlattenSeq(MovedRecs))
                                     /\ Ascending(FlattenSeq(OldFamRecs) \o Stream(ObsFiles))
=============================================================================
