----------------------------- MODULE MCFlwConc -----------------------------
EXTENDS FlwConc, Json
AllFixes == {"clone_drop_shutdown"}
RepoFixes == AllFixes
P1 == {1}
P2 == {1, 2}
P3 == {1, 2, 3}
View == <<pc, cnt, file, wbuf, q, alive, joinable, clones, app, acked, ackAtShut, ackAtFlush, flushed, lostOk, ops>>
Done == app = "down" /\ (\A p \in Producers : pc[p] = "idle") /\ (Async => (~alive \/ q = <<>>))
GenView == <<hist, Len(q), alive, app>>
Emit == (GenHist /\ Done) => PrintT(<<"REPLAY", ToJson([cfg |-> [mode |-> Mode], steps |-> hist])>>)
=============================================================================
