SPECIFICATION Spec
CONSTANTS
  Cfgs <- Cfgs_C08
  Lens <- Lens_C08
  Dts = {1}
  T0 = 1000
  MaxSw = 0
  ResetCfgs <- NoReset
  MaxRecs = 5
  MaxRuns = 3
  MaxTrig = 0
  MaxExt = 0
  MaxAdv = 0
  Fixes <- AllFixes
  GenHist = FALSE
INVARIANT C08_Partition
INVARIANT C07_CurrentSafe
INVARIANT C06_NoDestruction
CONSTRAINT Bound
CHECK_DEADLOCK FALSE
