------------------------------- MODULE MonC12 -------------------------------
(* C12: once all concurrently issued specification changes have returned,     *)
(* the logger filters according to exactly one of the submitted               *)
(* specifications as a whole, and the gate admits every record that this      *)
(* specification enables.                                                     *)
(* Judged on the End event of every scenario (all threads joined):            *)
(*   p.en, p.dl, p.gate as in MonC02. "Filters according to specification S"  *)
(*   is stated on observations: the observation equals that of a logger       *)
(*   freshly built with S, recorded by the harness as a Ref event per         *)
(*   submitted specification (and the initial one, which a pop can submit).   *)
(*   What a specification must decide is C02's statement and judged there.    *)
EXTENDS MonSpecBase

VARIABLE refs      \* Ref events of the current scenario
Calls(progs) == UNION {{progs[t][k] : k \in DOMAIN progs[t]} : t \in DOMAIN progs}
HasPop(b) == \E y \in Calls(b.progs) : y.op = "Pop"
AsDefined(p, S) == UniqueNames(S) /\ p.en = Grid(S, ModsOfT(c.targets)) /\ p.dl = Deliveries(S, ModsOfT(c.targets), c.msgs)

Check ==
    LET e == E IN
    /\ refs' = IF e.ev = "Begin" THEN <<>> ELSE IF e.ev = "Ref" THEN Append(refs, e) ELSE refs
    /\ IF e.ev = "Step" THEN Cnt(3, TRUE) /\ Cnt(4, e.ret = "blocked") /\ Cnt(5, e.ret \in {"skipped", "stuck"})
       ELSE IF e.ev = "Ref" THEN Cnt(10, TRUE) /\ Cnt(11, e.p.full /\ AsDefined(e.p, e.spec))
       ELSE IF e.ev # "End" THEN TRUE
       ELSE IF Panicked(e) THEN Chk(e, "NoPanic", FALSE)
       ELSE
       LET p   == e.p
           Sub == {i \in DOMAIN refs : refs[i].p.full /\ (~refs[i].init \/ HasPop(c))}
           Fit == {i \in Sub : p.en = refs[i].p.en /\ p.dl = refs[i].p.dl}
       IN
       /\ Cnt(1, TRUE) /\ Cnt(2, e.sched = "replayed")
       /\ Chk(e, "FinalIsOneSubmittedSpec", Fit # {})
       \* the gate admits every record the final specification enables: the observed deliveries ...
       /\ Chk(e, "FinalGateAdmitsDelivered",
              \A m \in DOMAIN p.dl : \A i \in DOMAIN p.dl[m] : \A v \in Levels : p.dl[m][i][v] > 0 => v <= p.gate)
       \* ... and whatever a logger freshly built with that specification admits
       /\ Chk(e, "FinalGateAdmitsSpec", \A i \in Fit : p.gate >= refs[i].p.gate)
       /\ Cnt(6, Cardinality(Sub) >= 2)
       /\ Cnt(7, Cardinality({refs[i].p.gate : i \in Sub}) >= 2)        \* the submitted maxima differ
       /\ Cnt(8, Len(c.progs) >= 3)
       /\ Cnt(9, HasPop(c))

Init == BaseInit /\ refs = <<>>
Next == BaseStep /\ Check /\ Finish
Spec == Init /\ [][Next]_<<l, c, refs>>
=============================================================================
