------------------------------- MODULE MonC16 -------------------------------
(* C16: log files are named as documented; path-derived specs, listing and   *)
(* symlink agree.                                                            *)
EXTENDS MonBase, Names

VARIABLES startstr,  \* rendered clock at the Start of the current run (the start time part of its file names)
          starts     \* the same for all runs so far
cvars == <<bvars, startstr, starts>>

P(cc) == [basename |-> cc.basename, has_discr |-> cc.has_discr, discr |-> cc.discr, use_ts |-> cc.use_ts,
          has_suffix |-> cc.has_suffix, suffix |-> cc.suffix]
Expected(cc, f) == NameStr(P(cc), cc.cur, f.ststr, f.k, f.i, f.istr, f.r, f.z)
Names(F) == {F[j].name : j \in 1..Len(F)}
Sel(F, T(_)) == {F[j].name : j \in {q \in 1..Len(F) : T(F[q])}}
\* what existing_log_files(selector) has to return, from the observation
ElfExpected(cc, F, sel) ==
    IF ~cc.rot THEN (IF cc.use_ts THEN Sel(F, LAMBDA f : f.ststr = startstr) ELSE Names(F))
    ELSE (IF sel.plain THEN Sel(F, LAMBDA f : IsRot(f) /\ ~f.z) ELSE {})
         \cup (IF "gz" \in DOMAIN sel /\ sel.gz THEN Sel(F, LAMBDA f : IsRot(f) /\ f.z) ELSE {})
         \cup (IF "cur" \in DOMAIN sel /\ sel.cur THEN Sel(F, LAMBDA f : f.k = "cur" /\ cc.cur = "rCURRENT") ELSE {})
         \cup (IF "custom" \in DOMAIN sel THEN Sel(F, LAMBDA f : f.k = "cur" /\ cc.cur = sel.custom) ELSE {})

Upd == /\ startstr' = IF E.ev = "Begin" THEN "" ELSE IF E.ev = "Start" THEN E.tstr ELSE startstr
       /\ starts' = IF E.ev = "Begin" THEN {} ELSE IF E.ev = "Start" THEN starts \cup {E.tstr} ELSE starts

Check ==
    LET e == E
        cc == c'
    IN  IF e.ev = "FromPath"
        THEN \* a file specification derived from a path denotes exactly that path, and the logger writes there
             /\ Chk(e, "FromPathBuilds", Ok(e))
             /\ Chk(e, "FromPathDenotesPath",
                    Len(e.found) = 1 /\ e.found[1].path = e.expect /\ e.found[1].recs = <<<<e.id, 20>>>>)
             /\ Cnt(5, TRUE)
        ELSE IF ~HasObs(e) THEN TRUE ELSE
        LET F == e.obs.files IN
        \* every entry of the directory is a file of the family, named exactly as the pattern says
        /\ Chk(e, "OnlyFamilyFiles", Len(e.obs.foreign) = 0)
        /\ Chk(e, "NamesAsDocumented", \A j \in 1..Len(F) : F[j].name = Expected(cc, F[j]))
        /\ Chk(e, "InConfiguredDirectory", Len(e.obs.outside) = 0)
        /\ Chk(e, "StartTimeIsStart", ~cc.use_ts \/ \A j \in 1..Len(F) : F[j].ststr \in starts')
        /\ Cnt(1, Len(F) > 0)
        /\ IF e.ev = "Elf" /\ Ok(e)
           THEN LET got == {e.result[j].name : j \in 1..Len(e.result)} IN
                /\ Chk(e, "ListingExact", got = ElfExpected(cc, F, e.sel) /\ Len(e.result) = Cardinality(got))
                /\ Chk(e, "ListingInDirectory", \A j \in 1..Len(e.result) : e.result[j].indir /\ e.result[j].exists)
                /\ Cnt(2, Cardinality(got) > 0) /\ Cnt(3, TRUE)
           ELSE TRUE
        /\ IF cc.link /\ live' /\ sinceStart' > 0
           THEN Chk(e, "LinkResolvesToCurrent", e.obs.link_ok /\ e.obs.link = e.obs.cur) /\ Cnt(4, TRUE)
           ELSE TRUE

Init == BaseInit /\ startstr = "" /\ starts = {}
Next == BaseStep /\ Upd /\ Check /\ Finish
Spec == Init /\ [][Next]_cvars
=============================================================================
