SPECIFICATION FSpec
CONSTANTS
  NRot = 2
  K = 1
  M = 0
  MaxFail = 1
  Variant = "as_coded"
  Direct = FALSE
  GenHist = TRUE
INVARIANT Emit
CHECK_DEADLOCK FALSE
