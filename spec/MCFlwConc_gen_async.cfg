SPECIFICATION Spec
CONSTANTS
  Producers <- P1
  PerProducer = 3
  Mode = "async"
  MaxAppOps = 3
  Fixes <- RepoFixes
  GenHist = TRUE
INVARIANT Emit
VIEW GenView
CHECK_DEADLOCK FALSE
