------------------------------- MODULE MonC01 -------------------------------
(* C01: rotated log stream is complete, duplicate-free and in order.        *)
EXTENDS MonBase

Check ==
    LET e == E
        \* history including this event; a non-rotated file that is re-opened without append is truncated at the first
        \* write of the run (documented): `base` counts the records dropped that way
        a == SubSeq(acc', base' + 1, Len(acc'))
    IN  IF ~HasObs(e) THEN TRUE ELSE
        LET F == e.obs.files IN
        /\ Chk(e, "AllClean", AllClean(F))
        /\ Chk(e, "NoTwin", NoTwin(F))
        /\ Chk(e, "StreamIsPrefix", StreamIsPrefix(F, a))
        /\ Cnt(1, TRUE)
        /\ IF SyncEv(e) \/ (c'.mode \in {"direct", "capture"} /\ e.ev \in {"Log", "Trigger"})
           THEN Chk(e, "StreamComplete", StreamComplete(F, a)) /\ Cnt(2, TRUE)
                /\ Cnt(3, Len(ReadOrder(F)) > 1) /\ Cnt(4, Len(a) > 0)
           ELSE TRUE

Init == BaseInit
Next == BaseStep /\ Check /\ Finish
Spec == Init /\ [][Next]_bvars
=============================================================================
