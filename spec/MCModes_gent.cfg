SPECIFICATION Spec
CONSTANTS
  Msgs <- MsgsAll
  Cap = 4
  N = 3
  MaxOps = 4
  WithTrigger = FALSE
  Fixes <- RepoFixes
  GenHist = TRUE
INVARIANT Emit
VIEW GenView
CHECK_DEADLOCK FALSE
