----------------------------- MODULE TraceFlwF -----------------------------
(***************************************************************************)
(* Conform mode with injected failures (C19): is a trace recorded from the *)
(* real code under fault injection a behaviour of FlwF.tla?                *)
(* Each Log / Trigger / Flush event carries the file-system effects the    *)
(* code performed during the call, in order (fx: hook point names) and     *)
(* which of them were made to fail (fxf). The event is explained by the    *)
(* corresponding action of FlwF with FL bound to fxf; afterwards           *)
(*  - the projected state must EQUAL the observation (Match of TraceFlw),   *)
(*  - the effects the specification performs must be the recorded ones, in  *)
(*    the same order (lastfx' = fx),                                        *)
(*  - what the specification says is reported must have been reported on    *)
(*    the error channel (Write, LogFile) or as error result of the call.    *)
(* Scope as FlwF.tla: synchronous write modes and cleanup, symlink.         *)
(***************************************************************************)
EXTENDS FlwCrash, Json, IOUtils

Rec == ndJsonDeserialize(IOEnv.TRACE)
VARIABLES l, on
tvars == <<cvars, l, on>>
E == Rec[l]
Ok(e) == e.ret = "ok"

Max0(x) == IF x < 0 THEN 0 ELSE x
GranOf(fmt) == IF fmt = "r%Y-%m-%d_%H-%M-%S" \/ fmt = "r%Y%m%d-%H%M%S" THEN 1
               ELSE IF fmt = "r%Y-%m-%d_%H-%M" THEN 60
               ELSE IF fmt = "r%Y-%m-%d_%H" THEN 3600 ELSE 86400
ModelNaming(n) == IF n = "TsC" THEN "Ts" ELSE IF n = "TsCD" THEN "TsD" ELSE n
ModelCfg(n) == [naming |-> ModelNaming(n.naming), rot |-> n.rot, gran |-> GranOf(n.fmt), clean |-> n.clean,
                k |-> Max0(n.k), m |-> Max0(n.m), age |-> IF n.age = "" THEN "-" ELSE n.age, size |-> n.size,
                cap |-> IF n.mode \in {"buf"} THEN n.cap ELSE 0, append |-> n.append]
Anon(len) == len < 9
Proj(d, f, lens) == { <<n.k, n.i, n.r, n.z,
                        [j \in 1..Len(f[d[n]].ids) |->
                            LET id == f[d[n]].ids[j] IN <<IF Anon(lens[id]) THEN 0 ELSE id, lens[id]>>]>> : n \in DOMAIN d }
Observed(F) == { <<F[j].k, F[j].i, F[j].r, F[j].z, F[j].recs>> : j \in 1..Len(F) }
\* a .gz next to its original (left by a failed compression) has undefined content: compared without such twins
TwinP(S) == {x \in S : x[4] /\ \E y \in S : ~y[4] /\ y[1] = x[1] /\ y[2] = x[2] /\ y[3] = x[3]}
Match == (~E.o) \/ LET P == Proj(dir', files', logged')
                       O == Observed(E.obs.files)
                   IN /\ P \ TwinP(P) = O \ TwinP(O)
                      /\ {<<x[1], x[2], x[3]>> : x \in TwinP(P)} = {<<x[1], x[2], x[3]>> : x \in TwinP(O)}
\* the symlink: absent, or pointing to the family name the specification says (whether or not that file exists)
LinkMatch == (~E.o) \/ ~lnk'.on
             \/ IF lnk'.has THEN E.obs.linkn = <<lnk'.n.k, lnk'.n.i, lnk'.n.r, lnk'.n.z>> ELSE E.obs.link = ""
\* the effects of the action are the recorded ones, in order
SameFx == lastfx' = E.fx
\* error codes on the error channel during the call (the palette message of a start is no error)
Errs(e) == SelectSeq(e.errs, LAMBDA x : x # "Palette")
Has(s, x) == \E j \in 1..Len(s) : s[j] = x
\* what the specification reports was reported: channel codes on the channel, "ret:err" as the call's result
Reported == /\ \A j \in 1..Len(rep') : IF rep'[j] = "ret:err" THEN E.retk = "err" ELSE Has(Errs(E), rep'[j])
            /\ (Len(rep') = 0 => (Len(Errs(E)) = 0 /\ E.retk \in {"ok", "noop"}))

BeginReset == /\ dir' = <<>> /\ files' = <<>> /\ w' = NoWriter /\ clk' = E.t /\ cfg' = ModelCfg(E.norm)
         /\ logged' = <<>> /\ wt' = <<>> /\ runs' = 0 /\ trigs' = 0 /\ advs' = 0 /\ gone' = {} /\ okgone' = {}
         /\ forced' = {} /\ extgone' = {} /\ exts' = 0 /\ moved' = <<>> /\ olddirs' = <<>> /\ sws' = 0
         /\ needReopen' = FALSE /\ hist' = <<>>
         /\ nfx' = 0 /\ lostw' = {} /\ rep' = <<>> /\ lastfx' = <<>> /\ recov' = 0 /\ plan' = plan
         /\ lnk' = [NoLink EXCEPT !.on = E.norm.link] /\ crashed' = FALSE
StutterF == UNCHANGED cvars
K(next) == next /\ UNCHANGED crashed
\* the kill (C11): the call that was running and the effect it was killed in front of are part of the event
Kill == LET e == E IN
        IF e.inflight.op = "Log" THEN CrashInWrite(e.inflight.len, e.j)
        ELSE IF e.inflight.op = "Trigger" /\ w.st = "act" /\ cfg.rot THEN CrashInTrigger(e.j)
        ELSE CrashOther

TraceInit == /\ l = 1 /\ on = FALSE /\ dir = <<>> /\ files = <<>> /\ w = NoWriter /\ clk = 0
             /\ cfg = [naming |-> "Num", rot |-> FALSE, gran |-> 1, clean |-> FALSE, k |-> 0, m |-> 0, age |-> "-",
                       size |-> -1, cap |-> 0, append |-> FALSE]
             /\ logged = <<>> /\ wt = <<>> /\ runs = 0 /\ trigs = 0 /\ advs = 0 /\ gone = {} /\ okgone = {}
             /\ forced = {} /\ extgone = {} /\ exts = 0 /\ moved = <<>> /\ olddirs = <<>> /\ sws = 0
             /\ needReopen = FALSE /\ hist = <<>>
             /\ nfx = 0 /\ lostw = {} /\ rep = <<>> /\ lastfx = <<>> /\ recov = 0 /\ plan = [from |-> 0, burst |-> 1]
             /\ lnk = NoLink /\ crashed = FALSE

TraceNext ==
    /\ l <= Len(Rec) /\ l' = l + 1
    /\ LET e == E IN
       /\ on' = IF e.ev = "Begin" THEN e.conf ELSE on
       /\ IF e.ev = "Begin" THEN BeginReset
          ELSE IF ~on THEN StutterF
          ELSE CASE e.ev = "Start" /\ Ok(e) -> K(StartF(e.append)) /\ Match
                 [] e.ev = "Crashed" -> Kill /\ Match /\ LinkMatch
                 [] e.ev = "Log" /\ e.ret # "noop" -> K(WriteFL(e.len, e.fxf)) /\ Match /\ LinkMatch /\ SameFx /\ Reported
                 [] e.ev = "Trigger" /\ e.ret # "noop" ->
                        \/ (K(TriggerFL(e.fxf)) /\ Match /\ LinkMatch /\ SameFx /\ Reported)
                        \/ (K(TriggerNoopF) /\ Match /\ SameFx)
                 [] e.ev = "Flush" /\ e.ret # "noop" ->
                        \/ (K(FlushFL(e.fxf)) /\ Match /\ SameFx)
                        \/ (w.st # "act" /\ StutterF /\ Len(e.fx) = 0)
                 \* shutdown and drop flush whatever happens at their flush points
                 [] e.ev = "Stop" /\ e.ret # "noop" -> K(StopF) /\ Match
                 [] e.ev = "Adv" -> K(AdvanceF(e.dt)) /\ Match
                 [] OTHER -> StutterF /\ Match
    /\ IF l = Len(Rec) THEN PrintT(<<"CONSUMED", l>>) ELSE TRUE

TraceSpec == TraceInit /\ [][TraceNext]_tvars
=============================================================================
