------------------------------- MODULE MonC11 -------------------------------
(* C11: a killed process loses no acknowledged direct-mode record and        *)
(* restarts cleanly. The trace of a scenario consists of the events the      *)
(* killed process had completed (each line was flushed after the call        *)
(* returned = acknowledgement), a Crashed event with the first observation   *)
(* after the kill, and the events of a newly started logger on the same      *)
(* directory.                                                                *)
EXTENDS MonBase

VARIABLES crashed, atcrash, ackd, newids
kvars == <<bvars, crashed, atcrash, ackd, newids>>

Ids(s) == {s[j][1] : j \in 1..Len(s)}
Errs(e) == SelectSeq(e.errs, LAMBDA x : x # "Palette")
NoDup(s) == \A x, y \in 1..Len(s) : x # y => s[x][1] # s[y][1]
Plain(F) == SelectSeq(F, LAMBDA f : IsRot(f) /\ ~f.z)
Zipd(F)  == SelectSeq(F, LAMBDA f : IsRot(f) /\ f.z)
K(cc) == IF cc.k < 0 THEN 0 ELSE cc.k
M(cc) == IF cc.m < 0 THEN 0 ELSE cc.m
KEff(cc) == IF cc.direct /\ K(cc) = 0 THEN 1 ELSE K(cc)
Unbuffered(cc) == cc.mode \in {"direct", "capture"}

Upd ==
    LET e == E IN
    IF e.ev = "Begin" THEN crashed' = FALSE /\ atcrash' = <<>> /\ ackd' = <<>> /\ newids' = {}
    ELSE /\ crashed' = (crashed \/ e.ev = "Crashed")
         /\ atcrash' = IF e.ev = "Crashed" THEN Stream(Untwin(e.obs.files)) ELSE atcrash
         /\ ackd' = IF e.ev = "Crashed" THEN acc ELSE ackd
         /\ newids' = IF crashed /\ e.ev = "Log" /\ Ok(e) THEN newids \cup {e.id} ELSE newids

Check ==
    LET e == E
        cc == c'
    IN  IF e.ev = "Begin" THEN TRUE ELSE
        IF e.ev = "Crashed" THEN
           LET F == Untwin(e.obs.files)
               S == Stream(F)
               inflight == IF Len(acc) = 0 THEN 1 ELSE acc[Len(acc)][1] + 1
               S0 == SelectSeq(S, LAMBDA p : p[1] # inflight)
           IN /\ Chk(e, "SurvivorsClean", AllClean(F))
              /\ Chk(e, "NoDuplicate", NoDup(S)) /\ Chk(e, "OrderKept", Ascending(S))
              /\ Chk(e, "NothingForeign", Ids(S0) \subseteq Ids(acc))
              \* every record whose log call had returned is in the files (direct mode)
              /\ IF Unbuffered(cc)
                 THEN /\ Chk(e, "AckedPresent", IF cc.clean THEN IsSuffix(S0, acc) ELSE S0 = acc)
                      /\ Cnt(1, TRUE) /\ Cnt(2, Len(acc) > 0) /\ Cnt(3, Len(S) > Len(S0))
                 ELSE Chk(e, "SurvivorsInOrder", IsInfix(S0, acc)) /\ Cnt(4, TRUE)
        ELSE IF ~crashed THEN TRUE ELSE
        \* the newly started logger: no panic, no error result, nothing on the error channel
        /\ Chk(e, "RestartWithoutError", e.retk \in {"ok", "noop"} /\ Len(Errs(e)) = 0)
        /\ IF ~HasObs(e) THEN TRUE ELSE
           LET F == Untwin(e.obs.files)
               S == Stream(F)
           IN /\ Chk(e, "NoDuplicate", NoDup(S)) /\ Chk(e, "OrderKept", Ascending(S))
              /\ Chk(e, "FilesClean", AllClean(F))
              \* (documented exception: a non-rotated file re-opened without append is truncated)
              /\ Chk(e, "EarlierRecordsKept", cc.clean \/ (~cc.rot /\ ~cc.append) \/ Ids(atcrash) \subseteq Ids(S))
              \* "preserves all earlier records that the cleanup limit permits": after every call of the new logger
              \* (direct mode: everything is on disk; otherwise at Stop) nothing is missing while there is room
              \* under the limits
              /\ IF cc.clean /\ Ok(e) /\ (Unbuffered(cc) \/ e.ev = "Stop")
                 THEN LET surv == IF ~cc.rot /\ ~cc.append /\ newids' # {} THEN <<>> ELSE atcrash
                          all == surv \o SelectSeq(acc', LAMBDA p : p[1] \in newids') IN
                      /\ Chk(e, "KeptWhatLimitPermits",
                             Len(S) >= Len(all) \/ Len(Plain(F)) + Len(Zipd(F)) >= KEff(cc) + M(cc))
                      /\ Cnt(6, Len(S) < Len(all))
                 ELSE TRUE
              /\ IF e.ev = "Stop" /\ Ok(e)
                 THEN /\ Chk(e, "NewRecordsPresent", cc.clean \/ newids' \subseteq Ids(S))
                      /\ Chk(e, "TailAfterRestart",
                             LET surv == IF ~cc.rot /\ ~cc.append /\ newids' # {} THEN <<>> ELSE atcrash
                                 all == surv \o SelectSeq(acc', LAMBDA p : p[1] \in newids') IN
                             IF cc.clean THEN IsSuffix(S, all) ELSE S = all)
                      /\ Chk(e, "LimitsAfterRestart",
                             ~cc.clean \/ (Len(Plain(F)) <= KEff(cc) /\ Len(Zipd(F)) <= M(cc)))
                      /\ Chk(e, "NoLeftoverTwin", ~cc.clean \/ Len(e.obs.files) = Len(F))
                      /\ Cnt(5, TRUE)
                 ELSE TRUE

Init == BaseInit /\ crashed = FALSE /\ atcrash = <<>> /\ ackd = <<>> /\ newids = {}
Next == BaseStep /\ Upd /\ Check /\ Finish
Spec == Init /\ [][Next]_kvars
=============================================================================
