SPECIFICATION Spec
CONSTANTS
  NRecs = 12
  PerFile = 3
  Fixes <- RepoFixes
INVARIANT NoRecordLost
INVARIANT NoDuplicate
INVARIANT WriterLinked
CHECK_DEADLOCK FALSE
