SPECIFICATION Spec
CONSTANTS
  Mode = "specs"
  Alphabet <- A_q
  MaxLen = 0
  NameSeq <- N3
  GenHist = FALSE
INVARIANT RoundTrip
INVARIANT RoundTripRe
CHECK_DEADLOCK FALSE
