SPECIFICATION Spec
CONSTANTS
  InitSpecs <- U3
  SpecNames <- N2
  SpecREs <- RE0
  OpSpecs <- U3
  OpTexts <- T6
  MaxOps = 6
  Writers <- NoWriter
  Targets <- PlainTargets
  Msgs <- Msgs2
  ProgSets <- NoProgs
  GateUnderLock = TRUE
  Fixes <- RepoFixes
  GenHist = TRUE
INVARIANT Emit
VIEW View
CHECK_DEADLOCK FALSE
