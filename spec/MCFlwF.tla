------------------------------- MODULE MCFlwF -------------------------------
EXTENDS FlwF, TLC
Base == [naming |-> "Num", rot |-> TRUE, gran |-> 1, clean |-> FALSE, k |-> 0, m |-> 0, age |-> "-", size |-> 10,
         cap |-> 0, append |-> FALSE]
CfgsF == {[Base EXCEPT !.naming = n, !.cap = cp] : n \in {"Num", "NumD", "Ts", "TsD"}, cp \in {0, 16}}
         \cup {[Base EXCEPT !.rot = FALSE, !.size = -1, !.cap = cp] : cp \in {0, 16}}
CfgsC == {[Base EXCEPT !.naming = n, !.clean = TRUE, !.k = km[1], !.m = km[2]] :
              n \in {"Num", "NumD", "Ts", "TsD"}, km \in {<<1, 0>>, <<0, 1>>, <<1, 1>>}}
\* age criterion (with and without a size limit), the clock steps one second at a time
CfgsA == {[Base EXCEPT !.naming = n, !.age = "s", !.size = sz] : n \in {"Num", "NumD", "Ts", "TsD"}, sz \in {-1, 10}}
LensF == {9, 12}
LensQ == {12}
NoReset == {}
AllFixes == {"gz_index", "tsd_start", "numd_append_gz"}
BurstsQ == {1, 2}
BurstsT == {1, 2, 3}
Bound == TRUE
NoMut == {}
MutDrop == {"drop_on_rotation_failure"}
\* rep / lastfx describe the last action only, wt and forced are history: none of them influences the future
ViewF == <<dir, files, w, clk, cfg, logged, runs, trigs, advs, gone, okgone, nfx, plan, lostw, recov, lnk>>
=============================================================================
