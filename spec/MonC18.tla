------------------------------- MODULE MonC18 -------------------------------
(* C18: reopen_output and reset_flw switch files without losing, duplicating *)
(* or reordering records. Places where records can be: files renamed away    *)
(* (obs.moved, in rename order), families left behind by reset (obs.prev),   *)
(* the current family (obs.files).                                           *)
EXTENDS MonBase

VARIABLES lost,      \* ids legitimately gone with a file removed by the environment
          pvis,      \* ids visible anywhere at the previous observation
          pmv,       \* obs.moved of the previous observation
          frozen,    \* contents of the families left behind by Reset, as observed at the reset
          pending,   \* "" | "reopen" | "reset": the next visible record must land in the family at the path
          unl        \* the environment has REMOVED the file the writer holds, and the writer has not opened another one
                     \* since (reopen_output, a rotation, a restart): what it writes is gone with the removed file
mvars == <<bvars, lost, pvis, pmv, frozen, pending, unl>>

RECURSIVE CatM(_)
CatM(M) == IF M = <<>> THEN <<>> ELSE Head(M).recs \o CatM(Tail(M))
RECURSIVE CatP(_)
CatP(P) == IF P = <<>> THEN <<>> ELSE Stream(Head(P)) \o CatP(Tail(P))
Ids(s) == {s[j][1] : j \in 1..Len(s)}
NoDup(s) == \A a, b \in 1..Len(s) : a # b => s[a][1] # s[b][1]
Unbuffered(cc) == cc.mode \in {"direct", "capture"}

MInit == BaseInit /\ lost = {} /\ pvis = {} /\ pmv = <<>> /\ frozen = <<>> /\ pending = "" /\ unl = FALSE

Places(o) == CatM(o.moved) \o CatP(o.prev) \o Stream(o.files)
\* a family file with a name that the previous observation did not show
NewName(e) == e.o /\ \E j \in 1..Len(e.obs.files) : \A i \in 1..Len(prev) : prev[i].name # e.obs.files[j].name

Upd ==
    LET e == E IN
    IF e.ev = "Begin" THEN lost' = {} /\ pvis' = {} /\ pmv' = <<>> /\ frozen' = <<>> /\ pending' = "" /\ unl' = FALSE
    ELSE
    /\ unl' = IF e.ev = "ExtRemove" /\ Ok(e) /\ live THEN TRUE
              ELSE IF e.ev \in {"Reopen", "Reset", "Stop", "Start"} THEN FALSE
              ELSE IF NewName(e) THEN FALSE ELSE unl          \* (a rotation has opened another file)
    /\ lost' = IF e.ev = "ExtRemove" /\ Ok(e) /\ live
               THEN lost \cup UNION {IdsIn(f.recs) : f \in ToSet(FileNamed(prev, e.file))} \cup (Ids(acc) \ pvis)
               ELSE IF unl /\ e.ev = "Log" /\ Ok(e) /\ ~NewName(e) THEN lost \cup {e.id}
               ELSE lost
    /\ pvis' = IF e.o THEN Ids(Places(e.obs)) ELSE pvis
    /\ pmv' = IF e.o THEN e.obs.moved ELSE pmv
    /\ frozen' = IF e.ev = "Reset" /\ Ok(e) /\ e.o THEN e.obs.prev ELSE frozen
    /\ pending' = IF e.ev = "Reopen" /\ Ok(e) /\ live /\ sinceStart > 0 THEN "reopen"
                  ELSE IF e.ev = "Reset" /\ Ok(e) THEN "reset"
                  ELSE IF e.ev \in {"Stop", "Start", "ExtRename", "ExtRemove"} THEN "" ELSE pending

Check ==
    LET e == E
        a == acc'
        cc == c'
    IN  IF ~HasObs(e) THEN TRUE ELSE
        LET o == e.obs
            P == Places(o)
            want == Ids(a) \ lost'
        IN
        /\ Chk(e, "AllClean", AllClean(o.files) /\ \A j \in 1..Len(o.moved) : o.moved[j].clean)
        /\ Chk(e, "NoDuplicate", NoDup(P))
        /\ Chk(e, "NothingForeign", Ids(P) \subseteq Ids(a))
        /\ Chk(e, "MovedOrdered", Ascending(CatM(o.moved)))
        /\ Chk(e, "FamiliesOrdered", Ascending(CatP(o.prev) \o Stream(o.files)))
        /\ Chk(e, "MovedOnlyGrow", \A j \in 1..Len(pmv) : j <= Len(o.moved) /\ IsPrefix(pmv[j].recs, o.moved[j].recs))
        /\ Chk(e, "OldFamilyFrozen", \A j \in 1..Len(frozen') : j <= Len(o.prev) /\ CatP(<<o.prev[j]>>) = CatP(<<frozen'[j]>>))
        /\ Cnt(1, TRUE)
        \* nothing lost: at synchronisation points, and at every step when nothing is buffered
        /\ IF SyncEv(e) \/ (Unbuffered(cc) /\ e.ev \in {"Log", "Reopen", "Reset", "Trigger"})
           THEN Chk(e, "NothingLost", want \subseteq Ids(P)) /\ Cnt(2, Len(o.moved) > 0) /\ Cnt(3, Len(o.prev) > 0)
           ELSE TRUE
        \* rename: what the file held stays in the renamed file
        /\ IF e.ev = "ExtRename" /\ Ok(e)
           THEN LET was == FileNamed(prev, e.file) IN
                Chk(e, "BeforeStaysInOld",
                    Len(was) = 1 /\ Len(o.moved) > 0 /\ IsPrefix(was[1].recs, o.moved[Len(o.moved)].recs))
                /\ Cnt(4, TRUE)
           ELSE TRUE
        \* after reopen / reset has returned, later records land in the family at the (new) path: never in a
        \* renamed file or in a family left behind (they may still sit in a buffer)
        /\ IF e.ev = "Log" /\ Ok(e) /\ e.id > 0 /\ pending # ""
           THEN Chk(e, IF pending = "reopen" THEN "AfterReopenAtPath" ELSE "AfterResetInNewFamily",
                    e.id \in Ids(P) => e.id \in Ids(Stream(o.files)))
                /\ Cnt(5, e.id \in Ids(P))
           ELSE TRUE

Init == MInit
Next == BaseStep /\ Upd /\ Check /\ Finish
Spec == Init /\ [][Next]_mvars
=============================================================================
