SPECIFICATION Spec
INVARIANT Injective
INVARIANT NoLeadingSeparator
