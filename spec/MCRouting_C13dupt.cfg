SPECIFICATION Spec
CONSTANTS
  Cfgs <- Cfgs_C13dupb
  Targets <- TargetsDup
  Lvls <- Levels5
  Mods <- ModsM
  Shapes <- Shapes_Id
  Specs <- NoSpecs
  Dups <- Dups7
  MaxRecs = 1
  MaxAdapt = 1
  MaxSet = 0
  Counting = TRUE
  Admit <- AdmitAll
  Fixes <- RepoFixes
  GenHist = TRUE
INVARIANT Emit
VIEW View
CHECK_DEADLOCK FALSE
