SPECIFICATION Spec
CONSTANTS
  Cfgs <- Cfgs_C07
  Lens <- Lens_C06
  Dts = {1}
  T0 = 1000
  MaxSw = 0
  ResetCfgs <- NoReset
  MaxRecs = 4
  MaxRuns = 2
  MaxTrig = 2
  MaxExt = 1
  MaxAdv = 1
  Fixes <- AllFixes
  GenHist = FALSE
INVARIANT C07_Limits
INVARIANT C07_Tail
INVARIANT C07_CurrentSafe
INVARIANT C01_NoTwin
INVARIANT C06_NoDestruction
CONSTRAINT Bound
CHECK_DEADLOCK FALSE
