SPECIFICATION Spec
CONSTANTS
  Msgs <- MsgsQ
  Cap = 4
  N = 3
  MaxOps = 4
  WithTrigger = FALSE
  Fixes <- RepoFixes
  GenHist = FALSE
INVARIANT SyncModesAgree
INVARIANT ModeIndependent
CHECK_DEADLOCK FALSE
