------------------------------- MODULE Modes -------------------------------
(***************************************************************************)
(* C15: the bytes that end up in the log files do not depend on the write   *)
(* mode. One history of operations (records, raw chunks through io::Write,  *)
(* flush, forced rotation, shutdown) is applied in lockstep to three        *)
(* writers as implemented:                                                  *)
(*   D  direct      - File::write_all per message          (state.rs:667)   *)
(*   B  buffered    - std::io::BufWriter(cap) in front of the file          *)
(*   A  async       - every message is sent as Vec<u8> over a channel to a  *)
(*                    writer thread that dispatches on the message CONTENT: *)
(*                    b"F" = flush, b"S" = shutdown, else data              *)
(*                    (state.rs:716, util.rs ASYNC_FLUSH / ASYNC_SHUTDOWN)  *)
(* Files are sequences of messages; a message is a sequence of "bytes"      *)
(* over a tiny alphabet. Size rotation as in Flw.tla (Numbers naming).      *)
(* Deviation "async_ctrl_by_content": as coded, a raw chunk equal to "F" or *)
(* "S" is taken for a control message; with the fix control messages are    *)
(* distinguishable from data.                                               *)
(***************************************************************************)
EXTENDS Naturals, Integers, Sequences, FiniteSets, TLC, SequencesExt

CONSTANTS Msgs,      \* set of messages (sequences over the byte alphabet) a Write may carry
          Cap,       \* BufWriter capacity (bytes)
          N,         \* size limit for rotation, -1 = no rotation
          MaxOps,    \* bound on the number of operations
          WithTrigger, \* allow forced rotations (outside C15's quantifier: in async mode they overtake the queue)
          Fixes, GenHist

VARIABLES fD, szD,                 \* direct: closed+current files (Seq of Seq of msgs), size counter
          fB, szB, bufB,           \* buffered: files, size counter, buffer (Seq of msgs)
          fA, szA, q, runA,        \* async: files, size counter, channel, writer thread running
          nops, down, hist

vars == <<fD, szD, fB, szB, bufB, fA, szA, q, runA, nops, down, hist>>

F == <<"F">>      \* ASYNC_FLUSH
S == <<"S">>      \* ASYNC_SHUTDOWN
CtrlF == <<"ctrl", "F">>   \* distinguishable control messages (intended design)
CtrlS == <<"ctrl", "S">>
RECURSIVE BytesOf(_)
BytesOf(ms) == IF ms = <<>> THEN 0 ELSE Len(Head(ms)) + BytesOf(Tail(ms))
AppendCur(fs, ms) == [fs EXCEPT ![Len(fs)] = @ \o ms]
H(e) == IF GenHist THEN Append(hist, e) ELSE hist

Init == /\ fD = << <<>> >> /\ szD = 0 /\ fB = << <<>> >> /\ szB = 0 /\ bufB = <<>>
        /\ fA = << <<>> >> /\ szA = 0 /\ q = <<>> /\ runA = TRUE
        /\ nops = 0 /\ down = FALSE /\ hist = <<>>

Rot(sz) == N >= 0 /\ sz > N

\* ---- one message through each writer (write_buffer: rotate-check, write_all, size accounting)
WriteD(m) == LET fs == IF Rot(szD) THEN Append(fD, <<>>) ELSE fD
                 sz == IF Rot(szD) THEN 0 ELSE szD
             IN fD' = AppendCur(fs, <<m>>) /\ szD' = sz + Len(m)

\* BufWriter::write_all: spill when the message does not fit, bypass when it is at least Cap long;
\* on rotation the old BufWriter is dropped (flushed into the old file)
WriteB(m) ==
    LET rot  == Rot(szB)
        fs0  == IF rot THEN Append(AppendCur(fB, bufB), <<>>) ELSE fB
        b0   == IF rot THEN <<>> ELSE bufB
        sz   == IF rot THEN 0 ELSE szB
        used == BytesOf(b0)
    IN /\ szB' = sz + Len(m)
       /\ IF Len(m) < Cap - used THEN fB' = fs0 /\ bufB' = Append(b0, m)
          ELSE LET spill == Len(m) > Cap - used
                   fs1 == IF spill THEN AppendCur(fs0, b0) ELSE fs0
                   b1  == IF spill THEN <<>> ELSE b0
               IN IF Len(m) >= Cap THEN fB' = AppendCur(fs1, b1 \o <<m>>) /\ bufB' = <<>>
                  ELSE fB' = fs1 /\ bufB' = Append(b1, m)

\* async: send; fails silently (io error for the caller) once the writer thread has gone
SendA(m) == q' = IF runA \/ q # <<>> THEN Append(q, m) ELSE q

IsFlush(m) == IF "async_ctrl_by_content" \in Fixes THEN m = CtrlF ELSE m = F
IsShut(m)  == IF "async_ctrl_by_content" \in Fixes THEN m = CtrlS ELSE m = S
FlushMsg   == IF "async_ctrl_by_content" \in Fixes THEN CtrlF ELSE F
ShutMsg    == IF "async_ctrl_by_content" \in Fixes THEN CtrlS ELSE S

\* ---- the application's operations, applied to all three writers
Write(m) == /\ ~down /\ nops < MaxOps /\ nops' = nops + 1
            /\ WriteD(m) /\ WriteB(m) /\ SendA(m)
            /\ hist' = H([op |-> "Chunk", m |-> m])
            /\ UNCHANGED <<fA, szA, runA, down>>

Flush == /\ ~down /\ nops < MaxOps /\ nops' = nops + 1
         /\ fB' = AppendCur(fB, bufB) /\ bufB' = <<>> /\ SendA(FlushMsg)
         /\ hist' = H([op |-> "Flush"])
         /\ UNCHANGED <<fD, szD, szB, fA, szA, runA, down>>

Trigger == /\ WithTrigger /\ ~down /\ N >= 0 /\ nops < MaxOps /\ nops' = nops + 1
           /\ fD' = Append(fD, <<>>) /\ szD' = 0
           /\ fB' = Append(AppendCur(fB, bufB), <<>>) /\ bufB' = <<>> /\ szB' = 0
           \* rotate() takes the state lock directly, also in async mode (state_handle.rs:rotate):
           \* it overtakes whatever is still queued
           /\ fA' = Append(fA, <<>>) /\ szA' = 0
           /\ hist' = H([op |-> "Trigger"])
           /\ UNCHANGED <<q, runA, down>>

Shutdown == /\ ~down /\ down' = TRUE
            /\ fB' = AppendCur(fB, bufB) /\ bufB' = <<>> /\ SendA(ShutMsg)
            /\ hist' = H([op |-> "Stop"])
            /\ UNCHANGED <<fD, szD, szB, fA, szA, runA, nops>>

\* ---- the writer thread: one dequeue per step, dispatch on content
WriterStep ==
    /\ runA /\ q # <<>>
    /\ LET m == Head(q) IN
       /\ q' = Tail(q)
       /\ IF IsShut(m) THEN runA' = FALSE /\ UNCHANGED <<fA, szA>>
          ELSE IF IsFlush(m) THEN UNCHANGED <<fA, szA, runA>>
          ELSE LET fs == IF Rot(szA) THEN Append(fA, <<>>) ELSE fA
                   sz == IF Rot(szA) THEN 0 ELSE szA
               IN fA' = AppendCur(fs, <<m>>) /\ szA' = sz + Len(m) /\ runA' = runA
    /\ UNCHANGED <<fD, szD, fB, szB, bufB, nops, down, hist>>

Next == (\E m \in Msgs : Write(m)) \/ Flush \/ Trigger \/ Shutdown \/ WriterStep
Spec == Init /\ [][Next]_vars /\ WF_vars(WriterStep)

\* ---- properties
Bytes(fs) == [j \in 1..Len(fs) |-> FlattenSeq(fs[j])]
Quiet == down /\ (~runA \/ q = <<>>)
\* the forced rotation of the async mode overtakes queued messages, which is a documented consequence of
\* "trigger_rotation" acting immediately; the comparison therefore covers histories whose rotations are
\* triggered while the queue is empty, and all histories without forced rotation
ModeIndependent == Quiet => (Bytes(fD) = Bytes(fB) /\ Bytes(fD) = Bytes(fA))
SyncModesAgree  == down => Bytes(fD) = Bytes(fB)
ShutdownCompletes == down ~> Quiet
=============================================================================
