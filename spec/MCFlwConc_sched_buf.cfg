SPECIFICATION Spec
CONSTANTS
  Producers <- P2
  PerProducer = 2
  Mode = "buf"
  MaxAppOps = 0
  Fixes <- RepoFixes
  GenHist = TRUE
INVARIANT Emit
VIEW GenView
CHECK_DEADLOCK FALSE
