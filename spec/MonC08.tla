------------------------------- MODULE MonC08 -------------------------------
(* C08: size criterion - rotate exactly when the current file already       *)
(* exceeds the limit. Judged by the partition predicate of Props.tla on     *)
(* every synced observation whose stream is complete (so that positions in  *)
(* the stream identify records; completeness itself is C01's business).     *)
EXTENDS MonBase

Check ==
    LET e == E
        a == acc'
    IN  IF ~HasObs(e) \/ ~SyncEv(e) \/ c'.size < 0 \/ ~c'.rot THEN TRUE ELSE
        LET F == e.obs.files IN
        IF Stream(F) # a THEN Cnt(5, TRUE) ELSE
        /\ Chk(e, "NotAppendedWhenOver",
               \A j \in 1..Len(F) : IsCur(F[j]) \/ IsRot(F[j]) => NotAppendedWhenOver(F[j], c'.size))
        /\ Chk(e, "NotClosedEarly",
               LET RO == ReadOrder(F) IN \A j \in 1..Len(RO) : NotClosedEarly(RO, j, c'.size, forced'))
        /\ Cnt(1, TRUE)
        /\ Cnt(2, Len(ReadOrder(F)) > 1)
        /\ Cnt(3, \E j \in 1..Len(F) : Bytes(F[j].recs) > c'.size)
        /\ Cnt(4, runs' > 1)

Init == BaseInit
Next == BaseStep /\ Check /\ Finish
Spec == Init /\ [][Next]_bvars
=============================================================================
