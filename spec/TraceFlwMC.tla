----------------------------- MODULE TraceFlwMC -----------------------------
EXTENDS TraceFlw
NoCfgs == {}
NoLens == {}
NoDts == {}
RepoFixes == {"gz_index", "tsd_start", "numd_append_gz"}     \* deviations repaired in /repo
=============================================================================
