//! `flv conc <scenarios> <trace>`: concurrent logging (C03). Executes and observes only.
//!
//! Two kinds of scenario:
//!  * "stress": T threads log R records each, with seeded scheduling noise at the hook points;
//!  * "sched":  a schedule produced by TLC from FlwConc.tla (steps Format(p) / Write(p) / Send(p)) is
//!    replayed deterministically: producer threads park at the hook point between formatting and the
//!    critical section (sync: "sc:formatted", async: "sc:before_send") and are released in the given order.
//! Output to files is observed in-process; stdout/stderr in a child process whose stream is redirected
//! to a file (`flv conc-child`).
use crate::flw::{self, fmt_plain, panic_msg};
use crate::handler::{h, set_tid};
use crate::obs::{self, Cfg};
use flexi_logger::{ErrorChannel, LogSpecification, Logger, LoggerHandle};
use log::Log;
use serde_json::{json, Value};
use std::io::{BufRead, Write};
use std::panic::{catch_unwind, AssertUnwindSafe};
use std::path::{Path, PathBuf};
use std::sync::atomic::Ordering;
use std::sync::mpsc;
use std::sync::Arc;
use std::time::Duration;

/// a format function that fails for marked records AFTER having written a part of the line (legal for a
/// FormatFunction); the part is "~~~", which decodes as an anonymous record
fn fmt_failing(w: &mut dyn Write, _now: &mut flexi_logger::DeferredNow, r: &log::Record) -> std::io::Result<()> {
    let m = r.args().to_string();
    if m.starts_with('\u{1}') {
        write!(w, "~~~")?;
        return Err(std::io::Error::other("format function rejects this record"));
    }
    write!(w, "{}", m)
}

fn build(cfg: &Cfg, out: &str, root: &Path, errfile: &Path) -> Result<(Box<dyn Log>, LoggerHandle), String> {
    build2(cfg, out, root, errfile, false)
}

fn build2(cfg: &Cfg, out: &str, root: &Path, errfile: &Path, failfmt: bool) -> Result<(Box<dyn Log>, LoggerHandle), String> {
    let fmt_plain: flexi_logger::FormatFunction = if failfmt { fmt_failing } else { fmt_plain };
    let mut l = Logger::with(LogSpecification::trace())
        .format(fmt_plain)
        .write_mode(flw::write_mode(cfg))
        .error_channel(ErrorChannel::File(errfile.to_path_buf()));
    l = match out {
        "stdout" => l.log_to_stdout(),
        "stderr" => l.log_to_stderr(),
        _ => {
            let mut l = l
                .log_to_file(flw::file_spec(cfg, root))
                .format_for_files(fmt_plain)
                .cleanup_in_background_thread(cfg.bg)
                .o_append(cfg.append);
            if cfg.rot {
                l = l.rotate(flw::criterion(cfg), flw::naming(cfg), flw::cleanup(cfg));
            }
            l
        }
    };
    l.build().map_err(|e| format!("{e:?}"))
}

pub fn fails(tid: u64, seq: u64) -> bool {
    (tid * 7 + seq) % 11 == 0
}

fn log_one(l: &dyn Log, tid: u64, seq: u64, len: usize) {
    let id = tid * 100_000 + seq;
    let mut msg = obs::message(id, len.max(9), 1);
    if FAILFMT.load(Ordering::Relaxed) && fails(tid, seq) {
        msg = format!("\u{1}{msg}");
    }
    l.log(
        &log::Record::builder()
            .args(format_args!("{}", msg))
            .level(log::Level::Info)
            .target("m")
            .module_path(Some("m"))
            .build(),
    );
}

static FAILFMT: std::sync::atomic::AtomicBool = std::sync::atomic::AtomicBool::new(false);

/// conform mode for free-running threads (TraceFlwConc.tla): the harness' own events (begin / end of a log call,
/// begin / end of shutdown()) go into the same totally ordered list as the hook points of the code
fn ev_mark(name: &str, k: u64) {
    if h().record.load(Ordering::SeqCst) {
        let t = std::thread::current().name().unwrap_or("app").to_string();
        h().points.lock().unwrap().push((name.to_string(), k.to_string(), t));
    }
}

/// (name, arg, thread) -> event line of the trace; None: not an event of FlwConc.tla (rotation and cleanup effects,
/// flusher threads)
fn conc_event(name: &str, arg: &str, thread: &str) -> Option<Value> {
    let p: i64 = if let Some(x) = thread.strip_prefix('p') {
        x.parse().ok()?
    } else if thread == "flexi_logger-async_file_writer" {
        0
    } else {
        -1
    };
    let ev = match (name, p) {
        ("ev:begin", 1..) => "B",
        ("ev:end", 1..) => "E",
        ("sc:formatted", 1..) => "Fm",
        ("sc:before_send", 1..) => "Bs",
        ("fs:write", 0..) => "W",
        ("sc:writer_recv", 0) => "Rv",
        ("ev:shutdown_begin", _) => "SdB",
        ("ev:shutdown_end", _) => "SdE",
        ("ev:flush_begin", _) => "FlB",
        ("ev:flush_end", _) => {
            // the application thread's flush() has returned; what it then found in the file (record ids)
            let seen: Vec<u64> = arg.split(',').filter_map(|x| x.parse().ok()).collect();
            return Some(json!({"ev": "FlE", "p": p, "k": 0, "seen": seen}));
        }
        _ => return None,
    };
    Some(json!({"ev": ev, "p": p, "k": arg.parse::<u64>().unwrap_or(0)}))
}

fn lens_of(sc: &Value) -> Vec<usize> {
    sc["lens"]
        .as_array()
        .map(|a| a.iter().map(|x| x.as_u64().unwrap_or(12) as usize).collect())
        .unwrap_or_else(|| vec![12])
}

/// runs the threads; returns (ret, blocked-steps)
/// the shared file writer as LogWriter of a Logger
struct ArcW(flexi_logger::writers::ArcFileLogWriter);
impl flexi_logger::writers::LogWriter for ArcW {
    fn write(&self, now: &mut flexi_logger::DeferredNow, record: &log::Record) -> std::io::Result<()> {
        flexi_logger::writers::LogWriter::write(&*self.0, now, record)
    }
    fn flush(&self) -> std::io::Result<()> {
        flexi_logger::writers::LogWriter::flush(&*self.0)
    }
    fn max_log_level(&self) -> log::LevelFilter {
        log::LevelFilter::Trace
    }
    fn shutdown(&self) {
        flexi_logger::writers::LogWriter::shutdown(&*self.0)
    }
}

fn drive(sc: &Value, logger: Arc<Box<dyn Log>>) -> (String, Vec<Value>) {
    drive2(sc, logger, None)
}
/// `raw`: every second line of a thread is written through the io::Write interface of the same file writer
fn drive2(sc: &Value, logger: Arc<Box<dyn Log>>, raw: Option<flexi_logger::writers::ArcFileLogWriter>) -> (String, Vec<Value>) {
    let kind = sc["kind"].as_str().unwrap_or("stress");
    let lens = lens_of(sc);
    let mut blocked = Vec::new();
    if kind == "stress" {
        let t = sc["threads"].as_u64().unwrap_or(2);
        let r = sc["per"].as_u64().unwrap_or(10);
        h().noise.store(sc["noise"].as_u64().unwrap_or(0), Ordering::SeqCst);
        let mut hs = Vec::new();
        for tid in 1..=t {
            let lg = logger.clone();
            let lens = lens.clone();
            let mut raw = raw.clone();
            hs.push(
                std::thread::Builder::new()
                    .name(format!("p{tid}"))
                    .spawn(move || {
                        catch_unwind(AssertUnwindSafe(|| {
                            for seq in 1..=r {
                                let len = lens[((tid * 7 + seq) as usize) % lens.len()];
                                match raw.as_mut() {
                                    Some(w) if seq % 2 == 0 => {
                                        let line = format!("{}\n", obs::message(tid * 100_000 + seq, len.max(9), 1));
                                        let _ = std::io::Write::write_all(w, line.as_bytes());
                                    }
                                    _ => {
                                        ev_mark("ev:begin", seq);
                                        log_one(&**lg, tid, seq, len);
                                        ev_mark("ev:end", seq);
                                    }
                                }
                            }
                        }))
                        .map_err(panic_msg)
                    })
                    .unwrap(),
            );
        }
        let mut ret = "ok".to_string();
        for hd in hs {
            match hd.join() {
                Ok(Ok(())) => {}
                Ok(Err(m)) => ret = format!("panic:{m}"),
                Err(_) => ret = "panic:thread".to_string(),
            }
        }
        h().noise.store(0, Ordering::SeqCst);
        return (ret, blocked);
    }
    // deterministic replay of a schedule
    let steps = sc["steps"].as_array().cloned().unwrap_or_default();
    let np = steps.iter().map(|s| s["p"].as_u64().unwrap_or(1)).max().unwrap_or(1);
    let ids: Vec<String> = (1..=np).map(|p| format!("p{p}")).collect();
    let idrefs: Vec<&str> = ids.iter().map(|s| s.as_str()).collect();
    h().sched_reset(&idrefs);
    let mut go_tx = Vec::new();
    let (done_tx, done_rx) = mpsc::channel::<u64>();
    let mut hs = Vec::new();
    for p in 1..=np {
        let (tx, rx) = mpsc::channel::<Option<(u64, usize)>>();
        go_tx.push(tx);
        let lg = logger.clone();
        let dtx = done_tx.clone();
        hs.push(
            std::thread::Builder::new()
                .name(format!("p{p}"))
                .spawn(move || {
                    set_tid(&format!("p{p}"));
                    while let Ok(Some((seq, len))) = rx.recv() {
                        let _ = catch_unwind(AssertUnwindSafe(|| log_one(&**lg, p, seq, len)));
                        dtx.send(p).ok();
                    }
                })
                .unwrap(),
        );
    }
    let mut cnt = vec![0u64; np as usize + 1];
    let mut ret = "ok".to_string();
    for (k, st) in steps.iter().enumerate() {
        let p = st["p"].as_u64().unwrap_or(1);
        let id = format!("p{p}");
        match st["op"].as_str().unwrap_or("") {
            "Format" => {
                cnt[p as usize] += 1;
                let len = lens[((p * 7 + cnt[p as usize]) as usize) % lens.len()];
                go_tx[p as usize - 1].send(Some((cnt[p as usize], len))).ok();
                if h().wait_parked(&id, Duration::from_millis(3000)).is_none() {
                    blocked.push(json!({"k": k + 1, "op": "Format", "p": p}));
                    ret = "blocked".into();
                }
            }
            "Write" | "Send" => {
                h().release(&id, 1);
                match done_rx.recv_timeout(Duration::from_millis(3000)) {
                    Ok(_) => {}
                    Err(_) => {
                        blocked.push(json!({"k": k + 1, "op": st["op"], "p": p}));
                        ret = "blocked".into();
                    }
                }
            }
            _ => {}
        }
    }
    h().sched_off();
    for tx in &go_tx {
        tx.send(None).ok();
    }
    for hd in hs {
        let _ = hd.join();
    }
    (ret, blocked)
}

fn decode_stream(path: &Path) -> Value {
    let b = std::fs::read(path).unwrap_or_default();
    let (recs, clean) = obs::decode(&b, "\n");
    json!([{"name": "stream", "k": "plain", "i": -1, "r": -1, "z": false, "st": -1, "size": b.len(), "clean": clean, "bt": -1,
            "recs": recs.iter().map(|(i, l)| json!([i, l])).collect::<Vec<_>>()}])
}

pub fn run_child(args: &[String]) {
    // flv conc-child <scenario.json> <errfile>
    let sc: Value = serde_json::from_str(&std::fs::read_to_string(&args[2]).unwrap()).unwrap();
    let cfg = Cfg::from_json(&sc["cfg"]);
    let out = sc["out"].as_str().unwrap_or("stdout");
    let failfmt = sc["failfmt"].as_bool().unwrap_or(false);
    FAILFMT.store(failfmt, Ordering::SeqCst);
    let (logger, handle) = match build2(&cfg, out, Path::new("/nonexistent"), Path::new(&args[3]), failfmt) {
        Ok(x) => x,
        Err(e) => {
            eprintln!("BUILD-ERROR {e}");
            std::process::exit(3);
        }
    };
    let logger = Arc::new(logger);
    let (ret, _b) = drive(&sc, logger.clone());
    if sc["explicit_shutdown"].as_bool().unwrap_or(true) {
        handle.shutdown();
    }
    drop(handle);
    drop(logger);
    if ret != "ok" {
        std::process::exit(4);
    }
}

pub fn run(args: &[String]) {
    let scen = &args[2];
    let trace = &args[3];
    let root = PathBuf::from(
        std::env::var("VERIF_TMP").unwrap_or_else(|_| {
            if Path::new("/dev/shm").is_dir() { "/dev/shm".into() } else { std::env::temp_dir().display().to_string() }
        }),
    )
    .join(format!("flv-conc-{}", std::process::id()));
    std::fs::create_dir_all(&root).unwrap();
    let f = std::fs::File::open(scen).expect("scenario file");
    let mut outw = std::io::BufWriter::new(std::fs::File::create(trace).expect("trace file"));
    let mut nsc = 0;
    let mut nev = 0;
    for line in std::io::BufReader::new(f).lines() {
        let line = line.unwrap();
        if line.trim().is_empty() {
            continue;
        }
        let sc: Value = serde_json::from_str(&line).unwrap();
        let cfg = Cfg::from_json(&sc["cfg"]);
        let scid = sc["sc"].clone();
        let dir = root.join(format!("sc{}", scid));
        let _ = std::fs::remove_dir_all(&dir);
        std::fs::create_dir_all(&dir).unwrap();
        let errfile = root.join(format!("errs-sc{}.txt", scid));
        let _ = std::fs::remove_file(&errfile);
        let out = sc["out"].as_str().unwrap_or("file").to_string();
        let kind = sc["kind"].as_str().unwrap_or("stress").to_string();
        let begin = json!({"sc": scid, "n": 1, "ev": "Begin", "kind": kind, "out": out, "cfg": sc["cfg"],
            "threads": sc.get("threads").cloned().unwrap_or(json!(0)), "per": sc.get("per").cloned().unwrap_or(json!(0)),
            "steps": sc.get("steps").cloned().unwrap_or(json!([])), "origin": sc.get("origin").cloned().unwrap_or(json!("")),
            "failfmt": sc.get("failfmt").cloned().unwrap_or(json!(false)),
            "norm": {"mode": cfg.mode, "naming": cfg.naming, "rot": cfg.rot, "clean": cfg.clean(), "out": out, "kind": kind}});
        let tracing = sc["trace"].as_bool().unwrap_or(false) && out == "file" && kind == "stress";
        let mut begin = begin;
        let mut ev = json!({"sc": scid, "n": 2, "ev": "Final"});
        if out == "file" {
            h().set_clock(1000);
            h().reset_bt();
            if sc["realclock"].as_bool().unwrap_or(false) {
                // the real clock: age-based rotation happens while the threads run
                h().real_clock();
            }
            flw::set_error_channel(&errfile);
            let failfmt = sc["failfmt"].as_bool().unwrap_or(false);
            FAILFMT.store(failfmt, Ordering::SeqCst);
            let rawmix = sc["rawmix"].as_bool().unwrap_or(false);
            let mut rawarc = None;
            let built = if rawmix {
                // records through LogWriter::write (a Logger in front) and raw lines through io::Write on ONE file writer
                flw::flw_builder(&cfg, &dir, None)
                    .try_build_with_handle()
                    .map_err(|e| format!("{e:?}"))
                    .and_then(|(arc, fh)| {
                        rawarc = Some((arc.clone(), fh));
                        Logger::with(LogSpecification::trace())
                            .log_to_writer(Box::new(ArcW(arc)))
                            .error_channel(ErrorChannel::File(errfile.to_path_buf()))
                            .build()
                            .map_err(|e| format!("{e:?}"))
                    })
            } else {
                build2(&cfg, "file", &dir, &errfile, failfmt)
            };
            match built {
                Ok((logger, handle)) => {
                    let logger = Arc::new(logger);
                    if tracing {
                        h().take_points();
                        h().record.store(true, Ordering::SeqCst);
                    }
                    // C04 under concurrency: while the threads log, the application thread calls flush() again and again and
                    // reads the file each time flush() has returned (histories without rotation: one file that only grows)
                    let stop_fl = Arc::new(std::sync::atomic::AtomicBool::new(false));
                    let mut fl_thread = None;
                    if tracing && sc["appflush"].as_bool().unwrap_or(false) && !cfg.rot {
                        let hd = handle.clone();
                        let stop = stop_fl.clone();
                        let odir = dir.join(&cfg.subdir);
                        let ocfg = cfg.clone();
                        fl_thread = Some(
                            std::thread::Builder::new()
                                .name("app".to_string())
                                .spawn(move || {
                                    let mut k = 0u64;
                                    // (at most 30 observations per run: each lists every id in the file)
                                    while !stop.load(Ordering::SeqCst) && k < 30 {
                                        k += 1;
                                        ev_mark("ev:flush_begin", k);
                                        hd.flush();
                                        let o = obs::observe(&odir, &ocfg, None, false);
                                        let mut ids: Vec<String> = Vec::new();
                                        for f in o["files"].as_array().cloned().unwrap_or_default() {
                                            for r in f["recs"].as_array().cloned().unwrap_or_default() {
                                                ids.push(r[0].as_u64().unwrap_or(0).to_string());
                                            }
                                        }
                                        if h().record.load(Ordering::SeqCst) {
                                            h().points.lock().unwrap().push(("ev:flush_end".to_string(), ids.join(","), "app".to_string()));
                                        }
                                        std::thread::sleep(Duration::from_micros(300));
                                    }
                                })
                                .unwrap(),
                        );
                    }
                    let (ret, blocked) = drive2(&sc, logger.clone(), rawarc.as_ref().map(|x| x.0.clone()));
                    stop_fl.store(true, Ordering::SeqCst);
                    if let Some(t) = fl_thread {
                        let _ = t.join();
                    }
                    drop(rawarc.take());
                    let r2 = catch_unwind(AssertUnwindSafe(|| {
                        ev_mark("ev:shutdown_begin", 0);
                        handle.shutdown();
                        ev_mark("ev:shutdown_end", 0);
                        drop(handle);
                    }));
                    h().record.store(false, Ordering::SeqCst);
                    drop(logger);
                    ev["ret"] = json!(if r2.is_err() { "panic:shutdown".to_string() } else { ret });
                    ev["blocked"] = json!(blocked);
                    let o = obs::observe(&dir.join(&cfg.subdir), &cfg, None, false);
                    ev["files"] = o["files"].clone();
                }
                Err(e) => {
                    ev["ret"] = json!(format!("err:{e}"));
                    ev["blocked"] = json!([]);
                    ev["files"] = json!([]);
                }
            }
        } else {
            // child process with the stream redirected to a file
            let sf = dir.join("scenario.json");
            std::fs::write(&sf, sc.to_string()).unwrap();
            let capture = dir.join("captured");
            let other = dir.join("other");
            let fo = std::fs::File::create(if out == "stdout" { &capture } else { &other }).unwrap();
            let fe = std::fs::File::create(if out == "stderr" { &capture } else { &other }).unwrap();
            let st = std::process::Command::new(std::env::current_exe().unwrap())
                .arg("conc-child")
                .arg(&sf)
                .arg(&errfile)
                .stdout(fo)
                .stderr(fe)
                .status();
            ev["ret"] = json!(match st {
                Ok(s) if s.success() => "ok".to_string(),
                Ok(s) => format!("panic:child exit {:?}", s.code()),
                Err(e) => format!("err:{e}"),
            });
            ev["blocked"] = json!([]);
            ev["files"] = decode_stream(&capture);
        }
        let mut pos = 0usize;
        ev["errs"] = json!(flw::new_errs(&errfile, &mut pos));
        // the events of the run, in the order in which they were recorded (one mutex orders them all)
        let mut lines = Vec::new();
        if tracing {
            for (name, arg, thread) in h().take_points() {
                if let Some(mut x) = conc_event(&name, &arg, &thread) {
                    x["sc"] = scid.clone();
                    x["n"] = json!(lines.len() + 2);
                    lines.push(x);
                }
            }
        }
        begin["conf"] = json!(tracing);
        begin["nev"] = json!(lines.len());
        ev["n"] = json!(lines.len() + 2);
        writeln!(outw, "{}", begin).unwrap();
        for x in &lines {
            writeln!(outw, "{}", x).unwrap();
        }
        writeln!(outw, "{}", ev).unwrap();
        nsc += 1;
        nev += 2 + lines.len();
        let _ = std::fs::remove_dir_all(&dir);
        let _ = std::fs::remove_file(&errfile);
    }
    outw.flush().unwrap();
    let _ = std::fs::remove_dir_all(&root);
    println!("conc scenarios={nsc} events={nev}");
}
