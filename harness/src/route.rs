//! Executor for routing (C13) and framing (C20) scenarios.
//!
//! `flv route <scenarios.ndjson> <trace.ndjson>` re-spawns this binary as
//! `flv route-child ...` with stdout and stderr redirected into two files, so that the duplicates
//! flexi_logger writes to the standard streams can be observed byte by byte. The child builds the
//! real logger (file and/or primary writer, additional writers: recording writer, FileLogWriter
//! with max_level, SyslogWriter with max_log_level on a unix datagram socket, duplication,
//! error channel into a file), pushes records through `log::Log::log`, applies the
//! `adapt_duplication_to_*` / `set_new_spec` steps and records after every step what each sink
//! received. For framing scenarios it also calls the public format function itself (same instant,
//! frozen virtual clock) to obtain the expected bytes, runs the logger with the auto-tick clock,
//! and decodes every output with its own small parser per format.
//! It executes and observes only; every verdict is TLC's (spec/MonC13.tla, spec/MonC20.tla).
use crate::flw::panic_msg;
use crate::handler::{h, naive_to_civil};
use crate::obs::{hex, unhex};
use flexi_logger::writers::{
    FileLogWriter, LogWriter, SyslogConnection, SyslogFacility, SyslogLineHeader, SyslogWriter,
};
use flexi_logger::{
    DeferredNow, Duplicate, ErrorChannel, FileSpec, FormatFunction, LogSpecification, Logger,
    LoggerHandle, WriteMode,
};
use log::Log;
use serde_json::{json, Map, Value};
use std::cell::{Cell, RefCell};
use std::fmt;
use std::io::{Read, Seek, SeekFrom, Write};
use std::os::unix::net::UnixDatagram;
use std::panic::{catch_unwind, AssertUnwindSafe};
use std::path::{Path, PathBuf};
use std::process::{Command, Stdio};
use std::sync::atomic::Ordering;
use std::sync::{Arc, Mutex};
use std::time::{Duration, Instant};

// ------------------------------------------------------------------------------------------------
// parent: spawn the child with captured standard streams, survive crashes and hangs of the child
// ------------------------------------------------------------------------------------------------
fn arg_after(args: &[String], flag: &str) -> Option<String> {
    args.iter()
        .position(|a| a == flag)
        .and_then(|i| args.get(i + 1).cloned())
}

fn default_root() -> PathBuf {
    let base = std::env::var("VERIF_TMP").unwrap_or_else(|_| {
        if Path::new("/dev/shm").is_dir() {
            "/dev/shm".to_string()
        } else {
            std::env::temp_dir().display().to_string()
        }
    });
    PathBuf::from(base).join(format!("flv-rt-{}", std::process::id()))
}

fn count_lines(p: &str) -> usize {
    std::fs::read_to_string(p)
        .map(|s| s.lines().filter(|l| !l.trim().is_empty()).count())
        .unwrap_or(0)
}

/// cut an incomplete last line (child died while writing); returns (sc, n) of the last event
fn repair_trace(trace: &str) -> (i64, i64) {
    let data = std::fs::read(trace).unwrap_or_default();
    let keep = match data.iter().rposition(|b| *b == b'\n') {
        Some(i) => i + 1,
        None => 0,
    };
    if keep != data.len() {
        let f = std::fs::OpenOptions::new().write(true).open(trace).unwrap();
        f.set_len(keep as u64).unwrap();
    }
    let text = String::from_utf8_lossy(&data[..keep]).to_string();
    if let Some(last) = text.lines().last() {
        if let Ok(v) = serde_json::from_str::<Value>(last) {
            return (
                v["sc"].as_i64().unwrap_or(-1),
                v["n"].as_i64().unwrap_or(0),
            );
        }
    }
    (-1, 0)
}

pub fn run(args: &[String]) {
    if args.len() < 4 {
        eprintln!("usage: flv route <scenarios.ndjson> <trace.ndjson> [--root DIR]");
        std::process::exit(2);
    }
    let scen = args[2].clone();
    let trace = args[3].clone();
    let own_root = arg_after(args, "--root").is_none();
    let root = arg_after(args, "--root")
        .map(PathBuf::from)
        .unwrap_or_else(default_root);
    std::fs::create_dir_all(&root).unwrap();
    std::fs::File::create(&trace).expect("trace file");
    let total = count_lines(&scen);
    let exe = std::env::current_exe().expect("current_exe");
    let progress = root.join("progress");
    let mut skip = 0usize;
    let mut spawns = 0usize;
    while skip < total {
        spawns += 1;
        if spawns > 200 {
            eprintln!("route: too many child restarts");
            std::process::exit(2);
        }
        let _ = std::fs::remove_file(&progress);
        let open = |name: &str| {
            std::fs::OpenOptions::new()
                .create(true)
                .append(true)
                .open(root.join(name))
                .expect("capture file")
        };
        let mut child = Command::new(&exe)
            .arg("route-child")
            .arg(&scen)
            .arg(&trace)
            .arg(&root)
            .arg(skip.to_string())
            .stdin(Stdio::null())
            .stdout(Stdio::from(open("stdout.bin")))
            .stderr(Stdio::from(open("stderr.bin")))
            .spawn()
            .expect("spawn route-child");
        // backstop watchdog (the child reports hangs of a single step itself): no trace progress for 60 s
        let mut last_len = 0u64;
        let mut last_change = Instant::now();
        let status = loop {
            match child.try_wait() {
                Ok(Some(st)) => break Some(st),
                Ok(None) => {}
                Err(_) => break None,
            }
            let len = std::fs::metadata(&trace).map(|m| m.len()).unwrap_or(0);
            if len != last_len {
                last_len = len;
                last_change = Instant::now();
            } else if last_change.elapsed() > Duration::from_secs(60) {
                let _ = child.kill();
                let _ = child.wait();
                break None;
            }
            std::thread::sleep(Duration::from_millis(5));
        };
        let ok = status.map(|s| s.success()).unwrap_or(false);
        if ok {
            break;
        }
        // the child died (abort, stack overflow, kill after a hang): data, not a harness failure
        let (idx, scid) = std::fs::read_to_string(&progress)
            .ok()
            .and_then(|s| {
                let mut it = s.split_whitespace();
                Some((
                    it.next()?.parse::<usize>().ok()?,
                    it.next()?.parse::<i64>().ok()?,
                ))
            })
            .unwrap_or((skip, -1));
        let (lsc, ln) = repair_trace(&trace);
        if status.and_then(|s| s.code()) != Some(EXIT_HANG_REPORTED) {
            let n = if lsc == scid { ln + 1 } else { 1 };
            let ret = match status {
                None => "hang".to_string(),
                Some(st) => format!("crash:{st}"),
            };
            let mut f = std::fs::OpenOptions::new()
                .append(true)
                .open(&trace)
                .unwrap();
            writeln!(f, "{}", json!({"ev": "Crash", "sc": scid, "n": n, "ret": ret})).unwrap();
        }
        skip = idx + 1;
    }
    let text = std::fs::read_to_string(&trace).unwrap_or_default();
    let events = text.lines().count();
    let scs = text
        .lines()
        .filter(|l| l.contains("\"ev\":\"Begin\""))
        .count();
    if own_root {
        let _ = std::fs::remove_dir_all(&root);
    }
    println!("route scenarios={scs} events={events}");
}

// ------------------------------------------------------------------------------------------------
// child
// ------------------------------------------------------------------------------------------------
/// reads what was appended to a file since the last call
struct Tail {
    path: PathBuf,
    pos: u64,
}
impl Tail {
    fn at_end(path: PathBuf) -> Tail {
        let pos = std::fs::metadata(&path).map(|m| m.len()).unwrap_or(0);
        Tail { path, pos }
    }
    fn from_start(path: PathBuf) -> Tail {
        Tail { path, pos: 0 }
    }
    fn grow(&mut self) -> Vec<u8> {
        let mut v = Vec::new();
        if let Ok(mut f) = std::fs::File::open(&self.path) {
            if f.seek(SeekFrom::Start(self.pos)).is_ok() {
                let _ = f.read_to_end(&mut v);
            }
        }
        self.pos += v.len() as u64;
        v
    }
}

/// sequence number of the last event the scenario thread wrote (watched by the child's main thread)
static LAST_N: std::sync::atomic::AtomicU64 = std::sync::atomic::AtomicU64::new(0);
/// the step the scenario thread is executing (op / rec / brace), for the hang report
static CUR_STEP: Mutex<Option<Value>> = Mutex::new(None);
/// exit code of the child after it reported a hang itself
const EXIT_HANG_REPORTED: i32 = 3;

struct Env {
    out: std::fs::File,
    root: PathBuf,
    so: Tail,
    se: Tail,
}

pub fn run_child(args: &[String]) {
    let scen = &args[2];
    let trace = &args[3];
    let root = PathBuf::from(&args[4]);
    let skip: usize = args[5].parse().unwrap();
    let mut env = Env {
        out: std::fs::OpenOptions::new()
            .append(true)
            .open(trace)
            .expect("trace"),
        root: root.clone(),
        so: Tail::at_end(root.join("stdout.bin")),
        se: Tail::at_end(root.join("stderr.bin")),
    };
    let text = std::fs::read_to_string(scen).expect("scenario file");
    for (idx, line) in text
        .lines()
        .filter(|l| !l.trim().is_empty())
        .enumerate()
        .skip(skip)
    {
        let sc: Value = serde_json::from_str(line).expect("scenario json");
        std::fs::write(
            root.join("progress"),
            format!("{} {}\n", idx, sc["sc"].as_i64().unwrap_or(-1)),
        )
        .ok();
        let tname = sc["cfg"]["thread"].as_str().unwrap_or("").to_string();
        // one thread per scenario (thread-local format buffer of flexi_logger; thread name is an input)
        std::thread::scope(|s| {
            let mut b = std::thread::Builder::new();
            if !tname.is_empty() {
                b = b.name(tname.clone());
            }
            let envr = &mut env;
            let scr = &sc;
            LAST_N.store(0, Ordering::SeqCst);
            let (tx, rx) = std::sync::mpsc::channel::<()>();
            let hd = b
                .spawn_scoped(s, move || {
                    let r = run_scenario(scr, envr);
                    let _ = tx.send(());
                    r
                })
                .expect("spawn scenario thread");
            // a step of the code under test that makes no progress for 12 s is a hang (e.g. a deadlock):
            // data, not a harness failure - report it, leave, and let the parent restart behind it
            let mut seen = 0u64;
            let mut since = Instant::now();
            loop {
                match rx.recv_timeout(Duration::from_millis(200)) {
                    Ok(()) | Err(std::sync::mpsc::RecvTimeoutError::Disconnected) => break,
                    Err(std::sync::mpsc::RecvTimeoutError::Timeout) => {
                        let n = LAST_N.load(Ordering::SeqCst);
                        if n != seen {
                            seen = n;
                            since = Instant::now();
                        } else if since.elapsed() > Duration::from_secs(12) {
                            if let Ok(mut f) = std::fs::OpenOptions::new().append(true).open(trace) {
                                let _ = writeln!(
                                    f,
                                    "{}",
                                    json!({"ev": "Crash", "sc": scr["sc"], "n": n + 1, "ret": "hang",
                                           "step": CUR_STEP.lock().ok().and_then(|g| g.clone()).unwrap_or(json!({"op": "?"}))})
                                );
                            }
                            std::process::exit(EXIT_HANG_REPORTED);
                        }
                    }
                }
            }
            let _ = hd.join();
        });
    }
    env.out.flush().ok();
}

// ------------------------------------------------------------------------------------------------
// format functions by name
// ------------------------------------------------------------------------------------------------
fn fmt_id(w: &mut dyn Write, _now: &mut DeferredNow, r: &log::Record) -> std::io::Result<()> {
    write!(w, "{}", r.args())
}

fn fmt_by_name(n: &str) -> FormatFunction {
    match n {
        "default" => flexi_logger::default_format,
        "detailed" => flexi_logger::detailed_format,
        "opt" => flexi_logger::opt_format,
        "thread" => flexi_logger::with_thread,
        "cdefault" => flexi_logger::colored_default_format,
        "cdetailed" => flexi_logger::colored_detailed_format,
        "copt" => flexi_logger::colored_opt_format,
        "cthread" => flexi_logger::colored_with_thread,
        "json" => flexi_logger::json_format,
        _ => fmt_id,
    }
}

fn level_of(i: i64) -> log::Level {
    match i {
        1 => log::Level::Error,
        2 => log::Level::Warn,
        3 => log::Level::Info,
        4 => log::Level::Debug,
        _ => log::Level::Trace,
    }
}
fn filter_of(i: i64) -> log::LevelFilter {
    match i {
        0 => log::LevelFilter::Off,
        1 => log::LevelFilter::Error,
        2 => log::LevelFilter::Warn,
        3 => log::LevelFilter::Info,
        4 => log::LevelFilter::Debug,
        _ => log::LevelFilter::Trace,
    }
}
fn dup_of(i: i64) -> Duplicate {
    match i {
        0 => Duplicate::None,
        1 => Duplicate::Error,
        2 => Duplicate::Warn,
        3 => Duplicate::Info,
        4 => Duplicate::Debug,
        5 => Duplicate::Trace,
        _ => Duplicate::All,
    }
}
fn spec_of(dflt: i64, m: i64) -> LogSpecification {
    let mut b = LogSpecification::builder();
    b.default(filter_of(dflt));
    if m >= 0 {
        b.module("m", filter_of(m));
    }
    b.build()
}

// ------------------------------------------------------------------------------------------------
// recording LogWriter (additional writer of kind "rec", and the primary writer "pw")
// ------------------------------------------------------------------------------------------------
type Store = Arc<Mutex<Vec<Vec<u8>>>>;
struct RecWriter {
    fmt: FormatFunction,
    ceil: log::LevelFilter,
    store: Store,
    fail: bool, // every write() is recorded and then reported as failed (an additional writer with an I/O problem)
}
impl LogWriter for RecWriter {
    fn write(&self, now: &mut DeferredNow, record: &log::Record) -> std::io::Result<()> {
        // records every hand-over; the declared ceiling is not applied here, on purpose
        let mut v = Vec::new();
        let _ = (self.fmt)(&mut v, now, record);
        self.store.lock().unwrap().push(v);
        if self.fail {
            return Err(std::io::Error::other("this writer always fails (verif harness)"));
        }
        Ok(())
    }
    fn flush(&self) -> std::io::Result<()> {
        Ok(())
    }
    fn max_log_level(&self) -> log::LevelFilter {
        self.ceil
    }
    fn format(&mut self, format: FormatFunction) {
        self.fmt = format;
    }
}

// ------------------------------------------------------------------------------------------------
// records
// ------------------------------------------------------------------------------------------------
#[derive(Clone)]
enum Kv {
    S(String),
    I(i64),
}
#[derive(Clone)]
struct RecSpec {
    lvl: log::Level,
    target: String,
    mp: Option<String>,
    file: Option<String>,
    line: Option<u32>,
    kvs: Vec<(String, Kv)>,
    msg: String,
    recursive: bool,
    inner_target: String, // target of the record the Display implementation logs
    respec: bool,         // while the record is being formatted another thread reconfigures the logger (set_new_spec)
}

/// handle and start-up specification for the reconfiguring helper thread of `respec` records
static RESPEC: Mutex<Option<(LoggerHandle, LogSpecification)>> = Mutex::new(None);
static RESPEC_JOIN: Mutex<Option<std::thread::JoinHandle<()>>> = Mutex::new(None);

thread_local! {
    static QUIET: Cell<bool> = const { Cell::new(false) };
    static INNER: Cell<u32> = const { Cell::new(0) };
    static LOGGER: RefCell<Option<Arc<dyn Log>>> = const { RefCell::new(None) };
}

fn inner_spec(outer: &RecSpec, k: u32) -> RecSpec {
    RecSpec {
        lvl: outer.lvl,
        target: outer.inner_target.clone(),
        mp: Some("m".to_string()),
        file: Some("inner.rs".to_string()),
        line: Some(k),
        kvs: Vec::new(),
        msg: format!("inner record {k}"),
        recursive: false,
        inner_target: String::new(),
        respec: false,
    }
}

struct Disp<'a>(&'a RecSpec);
impl fmt::Display for Disp<'_> {
    fn fmt(&self, f: &mut fmt::Formatter<'_>) -> fmt::Result {
        if self.0.recursive && !QUIET.with(|q| q.get()) {
            // a Display implementation that logs: once per formatting of the outer record
            let k = INNER.with(|c| {
                c.set(c.get() + 1);
                c.get()
            });
            if self.0.respec {
                // another thread calls set_new_spec (with the specification that is active anyway) while this record is
                // being formatted; the inner record is logged when that call has had ample time to start
                let hs = RESPEC.lock().unwrap().clone();
                if let Some((hd, spec)) = hs {
                    let j = std::thread::spawn(move || hd.set_new_spec(spec));
                    *RESPEC_JOIN.lock().unwrap() = Some(j);
                    std::thread::sleep(Duration::from_millis(40));
                }
            }
            let lg = LOGGER.with(|l| l.borrow().clone());
            if let Some(lg) = lg {
                let inner = inner_spec(self.0, k);
                with_record(&inner, |r| lg.log(r));
            }
        }
        f.write_str(&self.0.msg)
    }
}

fn with_record<R>(rs: &RecSpec, f: impl FnOnce(&log::Record) -> R) -> R {
    let kv: Vec<(&str, log::kv::Value)> = rs
        .kvs
        .iter()
        .map(|(k, v)| {
            (
                k.as_str(),
                match v {
                    Kv::S(s) => log::kv::Value::from(s.as_str()),
                    Kv::I(i) => log::kv::Value::from(*i),
                },
            )
        })
        .collect();
    let kvr: &[(&str, log::kv::Value)] = &kv;
    let d = Disp(rs);
    f(&log::Record::builder()
        .args(format_args!("{}", d))
        .level(rs.lvl)
        .target(&rs.target)
        .module_path(rs.mp.as_deref())
        .file(rs.file.as_deref())
        .line(rs.line)
        .key_values(&kvr)
        .build())
}

/// the public format function called by the harness itself (no side effects of a recursive Display)
fn expected(fmt: FormatFunction, rs: &RecSpec) -> Vec<u8> {
    QUIET.with(|q| q.set(true));
    let mut v = Vec::new();
    let mut now = DeferredNow::new();
    with_record(rs, |r| {
        let _ = fmt(&mut v, &mut now, r);
    });
    QUIET.with(|q| q.set(false));
    v
}

// ------------------------------------------------------------------------------------------------
// decoders: one small parser per provided format, written independently of formats.rs
// ------------------------------------------------------------------------------------------------
const TS_FMT: &str = "%Y-%m-%d %H:%M:%S%.6f %:z";
const LEVELS: [log::Level; 5] = [
    log::Level::Error,
    log::Level::Warn,
    log::Level::Info,
    log::Level::Debug,
    log::Level::Trace,
];

fn ts_to_civil(s: &str) -> i64 {
    match chrono::DateTime::parse_from_str(s, TS_FMT) {
        Ok(dt) => naive_to_civil(&dt.naive_local()),
        Err(_) => -1,
    }
}

/// ANSI prefix / suffix the palette uses for a level ("" / "" when the level is not coloured)
fn paint_of(l: log::Level) -> (String, String) {
    let s = flexi_logger::style(l).paint("\u{1}").to_string();
    match s.split_once('\u{1}') {
        Some((a, b)) => (a.to_string(), b.to_string()),
        None => (String::new(), String::new()),
    }
}

struct Cur<'a> {
    s: &'a str,
}
impl<'a> Cur<'a> {
    fn lit(&mut self, l: &str) -> Option<()> {
        self.s = self.s.strip_prefix(l)?;
        Some(())
    }
    /// text up to the first occurrence of `stop`; consumes the stop
    fn until(&mut self, stop: &str) -> Option<&'a str> {
        let i = self.s.find(stop)?;
        let r = &self.s[..i];
        self.s = &self.s[i + stop.len()..];
        Some(r)
    }
    /// painted item followed by `stop`
    fn painted(&mut self, p: &(String, String), stop: &str) -> Option<&'a str> {
        self.lit(&p.0)?;
        let full = format!("{}{}", p.1, stop);
        self.until(&full)
    }
}

fn parse_kv(s: &str) -> Option<(Vec<(String, String)>, usize)> {
    // {k=v, k2="text with \" quote"} followed by one blank
    let b = s.as_bytes();
    if b.first() != Some(&b'{') {
        return None;
    }
    let mut i = 1;
    let mut out = Vec::new();
    loop {
        let eq = s[i..].find('=')? + i;
        let key = s[i..eq].to_string();
        i = eq + 1;
        let start = i;
        if b.get(i) == Some(&b'"') {
            i += 1;
            loop {
                match b.get(i)? {
                    b'\\' => i += 2,
                    b'"' => {
                        i += 1;
                        break;
                    }
                    _ => i += 1,
                }
            }
        } else {
            while !matches!(b.get(i)?, b',' | b'}') {
                i += 1;
            }
        }
        out.push((key, s[start..i].to_string()));
        if s[i..].starts_with(", ") {
            i += 2;
        } else if s[i..].starts_with("} ") {
            return Some((out, i + 2));
        } else {
            return None;
        }
    }
}

/// TLC integers are 32 bit: a decoded number outside that range is reported as -2
fn clamp(x: i64) -> i64 {
    if (0..=i32::MAX as i64).contains(&x) {
        x
    } else {
        -2
    }
}

fn split_file_line(fl: &str) -> Option<(String, i64)> {
    let (f, l) = fl.rsplit_once(':')?;
    Some((f.to_string(), clamp(l.parse::<i64>().ok()?)))
}

fn decode_text(fmtname: &str, s: &str, hint_kv: bool, p: &(String, String)) -> Option<Map<String, Value>> {
    let colored = fmtname.starts_with('c');
    let base = fmtname.trim_start_matches('c');
    let none = (String::new(), String::new());
    let pp = if colored { p } else { &none };
    let mut c = Cur { s };
    let mut d = Map::new();
    let level = |c: &mut Cur, stop: &str| -> Option<String> {
        let l = c.painted(pp, stop)?;
        if LEVELS.iter().any(|x| x.as_str() == l) {
            Some(l.to_string())
        } else {
            None
        }
    };
    match base {
        "default" => {
            d.insert("lvl".into(), json!(level(&mut c, " [")?));
            d.insert("mp".into(), json!(c.until("] ")?));
        }
        "detailed" => {
            c.lit("[")?;
            let ts = c.painted(pp, "] ")?;
            d.insert("ts".into(), json!(ts));
            d.insert("t".into(), json!(ts_to_civil(ts)));
            d.insert("lvl".into(), json!(level(&mut c, " [")?));
            d.insert("mp".into(), json!(c.until("] ")?));
            // file:line: - the first ":<digits>: "
            let re = regex::Regex::new(r"^(?s)(.*?):(\d+): ").unwrap();
            let m = re.captures(c.s)?;
            d.insert("file".into(), json!(m.get(1)?.as_str()));
            d.insert("line".into(), json!(clamp(m.get(2)?.as_str().parse::<i64>().ok()?)));
            c.s = &c.s[m.get(0)?.end()..];
        }
        "opt" | "thread" => {
            c.lit("[")?;
            let ts = if base == "opt" {
                c.painted(pp, "] ")?
            } else {
                let ts = c.painted(pp, "] T[")?;
                d.insert("thread".into(), json!(c.painted(pp, "] ")?));
                ts
            };
            d.insert("ts".into(), json!(ts));
            d.insert("t".into(), json!(ts_to_civil(ts)));
            d.insert("lvl".into(), json!(level(&mut c, " [")?));
            let (f, l) = split_file_line(c.until("] ")?)?;
            d.insert("file".into(), json!(f));
            d.insert("line".into(), json!(l));
        }
        _ => return None,
    }
    let mut kvs: Vec<Value> = Vec::new();
    if hint_kv && c.s.starts_with('{') {
        let (pairs, used) = parse_kv(c.s)?;
        c.s = &c.s[used..];
        kvs = pairs.iter().map(|(k, v)| json!([k, v])).collect();
    }
    d.insert("kv".into(), json!(kvs));
    let msg = if colored {
        c.s.strip_prefix(pp.0.as_str())?
            .strip_suffix(pp.1.as_str())?
    } else {
        c.s
    };
    d.insert("msghex".into(), json!(hex(msg.as_bytes())));
    Some(d)
}

fn decode_json(body: &[u8]) -> Option<Map<String, Value>> {
    let v: Value = serde_json::from_slice(body).ok()?;
    let o = v.as_object()?;
    let mut d = Map::new();
    d.insert("lvl".into(), json!(o.get("level")?.as_str()?));
    let ts = o.get("timestamp")?.as_str()?;
    d.insert("ts".into(), json!(ts));
    d.insert("t".into(), json!(ts_to_civil(ts)));
    d.insert("msghex".into(), json!(hex(o.get("text")?.as_str()?.as_bytes())));
    d.insert("hasthread".into(), json!(o.contains_key("thread")));
    d.insert(
        "thread".into(),
        json!(o.get("thread").and_then(|x| x.as_str()).unwrap_or("")),
    );
    d.insert("hasmp".into(), json!(o.contains_key("module_path")));
    d.insert(
        "mp".into(),
        json!(o.get("module_path").and_then(|x| x.as_str()).unwrap_or("")),
    );
    d.insert("hasfile".into(), json!(o.contains_key("file")));
    d.insert(
        "file".into(),
        json!(o.get("file").and_then(|x| x.as_str()).unwrap_or("")),
    );
    d.insert("hasline".into(), json!(o.contains_key("line")));
    d.insert(
        "line".into(),
        json!(clamp(o.get("line").and_then(|x| x.as_i64()).unwrap_or(0))),
    );
    let mut kvs: Vec<Value> = Vec::new();
    if let Some(kv) = o.get("kv").and_then(|x| x.as_object()) {
        for (k, v) in kv {
            match v {
                Value::String(s) => kvs.push(json!([k, "s", s])),
                Value::Number(n) => kvs.push(json!([k, "i", n.to_string()])),
                other => kvs.push(json!([k, "?", other.to_string()])),
            }
        }
    }
    d.insert("kvj".into(), json!(kvs));
    // every key of the object, so that an unexpected extra field is visible
    d.insert(
        "keys".into(),
        json!(o.keys().cloned().collect::<Vec<String>>()),
    );
    Some(d)
}

/// decoded fields of one output body (bytes without the line ending); `ok` = the parser accepted it
fn decode(fmtname: &str, body: &[u8], hint_kv: bool) -> Value {
    let lf = body.iter().filter(|b| **b == b'\n').count();
    let cr = body.iter().filter(|b| **b == b'\r').count();
    let mut res: Option<Map<String, Value>> = None;
    if fmtname == "json" {
        res = decode_json(body);
    } else if let Ok(s) = std::str::from_utf8(body) {
        if fmtname.starts_with('c') {
            for l in LEVELS {
                let p = paint_of(l);
                if let Some(d) = decode_text(fmtname, s, hint_kv, &p) {
                    if d.get("lvl").and_then(|x| x.as_str()) == Some(l.as_str()) {
                        res = Some(d);
                        break;
                    }
                }
            }
        } else {
            res = decode_text(fmtname, s, hint_kv, &(String::new(), String::new()));
        }
    }
    let mut d = res.clone().unwrap_or_default();
    d.insert("ok".into(), json!(res.is_some()));
    d.insert("lf".into(), json!(lf));
    d.insert("cr".into(), json!(cr));
    Value::Object(d)
}

/// RFC 5424 datagram of the SyslogWriter: <pri>1 timestamp host app pid msgid (-|[log_kv ..]) msg
fn decode_syslog(body: &[u8]) -> Value {
    let s = String::from_utf8_lossy(body);
    let re = regex::Regex::new(r"^(?s)<(\d+)>1 (\S+) ").unwrap();
    match re.captures(&s) {
        Some(m) => {
            let t = chrono::DateTime::parse_from_rfc3339(&m[2])
                .map(|dt| naive_to_civil(&dt.naive_local()))
                .unwrap_or(-1);
            json!({"ok": true, "pri": m[1].parse::<i64>().unwrap_or(-1), "ts": &m[2], "t": t})
        }
        None => json!({"ok": false}),
    }
}

// ------------------------------------------------------------------------------------------------
// one scenario
// ------------------------------------------------------------------------------------------------
enum Sink {
    Rec(Store, usize),      // recording writer: store, entries already seen
    File(Tail),             // FileLogWriter (additional or primary)
    Sock(UnixDatagram),     // SyslogWriter
    // Logger::log_to_buffer: the memory buffer, read through LoggerHandle::update_snapshot (handle slot filled after build)
    Buf(Arc<Mutex<Option<LoggerHandle>>>, flexi_logger::Snapshot, Vec<usize>),
}
struct Output {
    name: String, // writer name, or "file" "pw" "err" "out"
    fmt: String,
    le: &'static str,
    sink: Option<Sink>, // None: stdout / stderr (tails live in Env)
}

fn set_error_channel(errfile: &Path) {
    // the error channel is process-global and only settable through Logger::build()
    let _ = Logger::with(LogSpecification::off())
        .do_not_log()
        .error_channel(ErrorChannel::File(errfile.to_path_buf()))
        .build();
}

/// new error-channel lines: names of "bad writer spec" reports, and codes of all other reports
fn new_errs(t: &mut Tail) -> (Vec<String>, Vec<String>) {
    let s = String::from_utf8_lossy(&t.grow()).to_string();
    let re = regex::Regex::new(r"^\[flexi_logger\]\[ERRCODE::(\w+)\] (.*)$").unwrap();
    let mut names = Vec::new();
    let mut other = Vec::new();
    for line in s.lines() {
        if let Some(c) = re.captures(line) {
            if &c[1] == "WriterSpec" {
                names.push(
                    c[2].strip_prefix("bad writer spec: ")
                        .unwrap_or(&c[2])
                        .to_string(),
                );
            } else if &c[1] != "Palette" {
                other.push(c[1].to_string());
            }
        }
    }
    (names, other)
}

fn write_mode(mode: &str) -> WriteMode {
    match mode {
        "buf" => WriteMode::BufferDontFlushWith(256),
        "async" => WriteMode::AsyncWith {
            pool_capa: 4,
            message_capa: 64,
            flush_interval: Duration::from_secs(0),
        },
        "capture" => WriteMode::SupportCapture,
        _ => WriteMode::Direct,
    }
}

fn gs<'a>(v: &'a Value, k: &str, d: &'a str) -> &'a str {
    v.get(k).and_then(|x| x.as_str()).unwrap_or(d)
}
fn gi(v: &Value, k: &str, d: i64) -> i64 {
    v.get(k).and_then(|x| x.as_i64()).unwrap_or(d)
}
fn gb(v: &Value, k: &str, d: bool) -> bool {
    v.get(k).and_then(|x| x.as_bool()).unwrap_or(d)
}

/// splits the bytes a sink received during one call into frames by the line ending
fn frames_by_le<'a>(b: &'a [u8], le: &str) -> (Vec<&'a [u8]>, bool) {
    let le = le.as_bytes();
    let mut out = Vec::new();
    let mut i = 0;
    let mut start = 0;
    while i + le.len() <= b.len() {
        if &b[i..i + le.len()] == le {
            out.push(&b[start..i]);
            i += le.len();
            start = i;
        } else {
            i += 1;
        }
    }
    (out, start == b.len())
}

fn run_scenario(sc: &Value, env: &mut Env) -> usize {
    let scid = sc["sc"].clone();
    let cfg = &sc["cfg"];
    let kind = gs(cfg, "kind", "route").to_string();
    let frame_kind = kind == "frame";
    let mode = gs(cfg, "mode", "direct").to_string();
    let asyncm = mode == "async";
    let crlf = gb(cfg, "crlf", false);
    let le: &'static str = if crlf { "\r\n" } else { "\n" };
    let tick = gi(cfg, "tick", 0);
    let primary = gs(cfg, "primary", "file").to_string();
    let dir = env.root.join(format!("sc{}", scid));
    let _ = std::fs::remove_dir_all(&dir);
    std::fs::create_dir_all(&dir).unwrap();
    let errfile = env.root.join(format!("errs-sc{}.txt", scid));
    let _ = std::fs::remove_file(&errfile);
    set_error_channel(&errfile);
    let mut errtail = Tail::from_start(errfile.clone());
    let hh = h();
    hh.autotick.store(0, Ordering::SeqCst);
    hh.set_clock(gi(sc, "t0", 86400 * 400));
    // anything still sitting in the capture files belongs to nobody
    env.so.grow();
    env.se.grow();

    let mut n = 0usize;
    let mut emit = |env: &mut Env, mut v: Value| {
        n += 1;
        v["sc"] = scid.clone();
        v["n"] = json!(n);
        let mut line = v.to_string();
        line.push('\n');
        env.out.write_all(line.as_bytes()).unwrap();
        LAST_N.store(n as u64, Ordering::SeqCst);
    };

    // ---- build the logger
    let mut outputs: Vec<Output> = Vec::new();
    let wcfg: Vec<Value> = cfg["writers"].as_array().cloned().unwrap_or_default();
    let spec0 = &cfg["spec0"];
    let mut build_err: Option<String> = None;
    let bufslot: Arc<Mutex<Option<LoggerHandle>>> = Arc::new(Mutex::new(None));
    let built = catch_unwind(AssertUnwindSafe(|| -> Result<(Box<dyn Log>, LoggerHandle), String> {
        let mut lg = Logger::with(spec_of(gi(spec0, "dflt", 3), gi(spec0, "m", -1)))
            .error_channel(ErrorChannel::File(errfile.clone()))
            .duplicate_to_stderr(dup_of(gi(cfg, "dupe0", 0)))
            .duplicate_to_stdout(dup_of(gi(cfg, "dupo0", 0)))
            .format_for_files(fmt_by_name(gs(cfg, "ffile", "id")))
            .format_for_stderr(fmt_by_name(gs(cfg, "ferr", "id")))
            .format_for_stdout(fmt_by_name(gs(cfg, "fout", "id")))
            .format_for_writer(fmt_by_name(gs(cfg, "fpw", "id")))
            .write_mode(write_mode(&mode));
        if crlf {
            lg = lg.use_windows_line_ending();
        }
        for w in &wcfg {
            let name = gs(w, "name", "?").to_string();
            let ceil = filter_of(gi(w, "ceil", 5));
            let fname = gs(cfg, &format!("f{name}"), "id").to_string();
            match gs(w, "kind", "rec") {
                "flw" => {
                    let mut b = FileLogWriter::builder(
                        FileSpec::default()
                            .directory(&dir)
                            .basename(format!("w{name}"))
                            .suppress_timestamp(),
                    )
                    .format(fmt_by_name(&fname))
                    .write_mode(write_mode(&mode))
                    .max_level(ceil);
                    if crlf {
                        b = b.use_windows_line_ending();
                    }
                    let fw = b.try_build().map_err(|e| format!("{e:?}"))?;
                    lg = lg.add_writer(name.clone(), Box::new(fw));
                    outputs.push(Output {
                        name: name.clone(),
                        fmt: fname,
                        le,
                        sink: Some(Sink::File(Tail::from_start(dir.join(format!("w{name}.log"))))),
                    });
                }
                "syslog" => {
                    let path = dir.join(format!("s{name}.sock"));
                    let sock = UnixDatagram::bind(&path).map_err(|e| format!("bind: {e:?}"))?;
                    sock.set_nonblocking(true).ok();
                    let sw = SyslogWriter::builder(
                        SyslogConnection::try_datagram(&path).map_err(|e| format!("{e:?}"))?,
                        SyslogLineHeader::Rfc5424("flv".to_owned()),
                        SyslogFacility::LocalUse0,
                    )
                    .max_log_level(ceil)
                    .build()
                    .map_err(|e| format!("{e:?}"))?;
                    lg = lg.add_writer(name.clone(), sw);
                    outputs.push(Output {
                        name: name.clone(),
                        fmt: "syslog".into(),
                        le: "",
                        sink: Some(Sink::Sock(sock)),
                    });
                }
                _ => {
                    let store: Store = Arc::new(Mutex::new(Vec::new()));
                    lg = lg.add_writer(
                        name.clone(),
                        Box::new(RecWriter {
                            fmt: fmt_by_name(&fname),
                            ceil,
                            store: store.clone(),
                            fail: gb(w, "fail", false),
                        }),
                    );
                    outputs.push(Output {
                        name: name.clone(),
                        fmt: fname,
                        le: "",
                        sink: Some(Sink::Rec(store, 0)),
                    });
                }
            }
        }
        outputs.push(Output {
            name: "err".into(),
            fmt: gs(cfg, "ferr", "id").into(),
            le: "\n",
            sink: None,
        });
        outputs.push(Output {
            name: "out".into(),
            fmt: gs(cfg, "fout", "id").into(),
            le: "\n",
            sink: None,
        });
        let fs = FileSpec::default()
            .directory(&dir)
            .basename("main")
            .suppress_timestamp();
        let pstore: Store = Arc::new(Mutex::new(Vec::new()));
        let pw = || {
            Box::new(RecWriter {
                fmt: fmt_id,
                ceil: log::LevelFilter::Trace,
                store: pstore.clone(),
                fail: false,
            })
        };
        let has_file = primary == "file" || primary == "both";
        let has_pw = primary == "pw" || primary == "both";
        if primary == "buffer" {
            outputs.push(Output {
                name: "pw".into(),
                fmt: gs(cfg, "fpw", "id").into(),
                le: "",
                sink: Some(Sink::Buf(bufslot.clone(), flexi_logger::Snapshot::new(), Vec::new())),
            });
        }
        lg = match primary.as_str() {
            "buffer" => lg.log_to_buffer(gi(cfg, "bufmax", 1 << 20) as usize, Some(fmt_by_name(gs(cfg, "fpw", "id")))),
            "file" => lg.log_to_file(fs),
            "pw" => lg.log_to_writer(pw()),
            "both" => lg.log_to_file_and_writer(fs, pw()),
            "stdout" => lg.log_to_stdout(),
            "stderr" => lg.log_to_stderr(),
            _ => lg.do_not_log(),
        };
        if has_file {
            outputs.push(Output {
                name: "file".into(),
                fmt: gs(cfg, "ffile", "id").into(),
                le,
                sink: Some(Sink::File(Tail::from_start(dir.join("main.log")))),
            });
        }
        if has_pw {
            outputs.push(Output {
                name: "pw".into(),
                fmt: gs(cfg, "fpw", "id").into(),
                le: "",
                sink: Some(Sink::Rec(pstore.clone(), 0)),
            });
        }
        lg.build().map_err(|e| format!("{e:?}"))
    }));
    let (logger, mut handle): (Option<Arc<dyn Log>>, Option<LoggerHandle>) = match built {
        Ok(Ok((l, hd))) => (Some(Arc::from(l)), Some(hd)),
        Ok(Err(e)) => {
            build_err = Some(format!("err:{e}"));
            (None, None)
        }
        Err(e) => {
            build_err = Some(format!("panic:{}", panic_msg(e)));
            (None, None)
        }
    };
    if let Ok(mut g) = bufslot.lock() {
        *g = handle.clone();
    }
    LOGGER.with(|l| *l.borrow_mut() = logger.clone());
    *RESPEC.lock().unwrap() = handle.clone().map(|hd| (hd, spec_of(gi(spec0, "dflt", 3), gi(spec0, "m", -1))));
    let tname = std::thread::current()
        .name()
        .map(|s| s.to_string())
        .unwrap_or_default();
    let mut begin = json!({
        "ev": "Begin", "cfg": cfg.clone(), "origin": sc.get("origin").cloned().unwrap_or(json!("")),
        "ret": build_err.clone().unwrap_or_else(|| "ok".to_string()),
        "norm": {
            // (the memory buffer is a LogWriter in the place of the primary writer)
            "kind": kind, "writers": wcfg, "primary": if primary == "buffer" { "pw" } else { primary.as_str() },
            "buffer": primary == "buffer", "bufmax": gi(cfg, "bufmax", 1 << 20), "dupe": gi(cfg, "dupe0", 0),
            "dupo": gi(cfg, "dupo0", 0), "spec": {"dflt": gi(spec0, "dflt", 3), "m": gi(spec0, "m", -1)},
            "mode": mode, "crlf": crlf, "tick": tick, "thread": tname,
            "le": hex(le.as_bytes()),
            "fmts": outputs.iter().map(|o| json!([o.name, o.fmt])).collect::<Vec<_>>(),
            "gate": log::max_level() as usize,
        },
        "t": hh.get_clock()});
    if let Some(x) = sc.get("tag") {
        begin["tag"] = x.clone();
    }
    emit(env, begin);
    // bytes written while building (print_message etc.) belong to no record
    let _ = new_errs(&mut errtail);

    // per-record collection of what every output received
    let collect = |outputs: &mut Vec<Output>, env: &mut Env| -> Vec<(String, Vec<Vec<u8>>)> {
        let mut res = Vec::new();
        for o in outputs.iter_mut() {
            let chunks: Vec<Vec<u8>> = match &mut o.sink {
                None => {
                    let t = if o.name == "err" { &mut env.se } else { &mut env.so };
                    vec![t.grow()]
                }
                Some(Sink::File(t)) => vec![t.grow()],
                Some(Sink::Rec(store, seen)) => {
                    let st = store.lock().unwrap();
                    let v: Vec<Vec<u8>> = st[*seen..].to_vec();
                    *seen = st.len();
                    v
                }
                Some(Sink::Buf(slot, snap, lens)) => {
                    // what the record added: the text behind the previous snapshot if nothing was evicted,
                    // else the last line
                    let before = snap.text.clone();
                    let upd = slot
                        .lock()
                        .ok()
                        .and_then(|g| g.as_ref().map(|hd| hd.update_snapshot(snap)))
                        .and_then(|r| r.ok())
                        .unwrap_or(false);
                    if upd {
                        *lens = snap.text.split_terminator('\n').map(|x| x.len()).collect();
                        let t = snap.text.strip_suffix('\n').unwrap_or(&snap.text);
                        let add = match t.strip_prefix(before.as_str()) {
                            Some(a) if !before.is_empty() || !t.contains('\n') => a,
                            _ => t.rsplit('\n').next().unwrap_or(""),
                        };
                        vec![add.as_bytes().to_vec()]
                    } else {
                        Vec::new()
                    }
                }
                Some(Sink::Sock(sock)) => {
                    let mut v = Vec::new();
                    let mut buf = vec![0u8; 65536];
                    while let Ok(k) = sock.recv(&mut buf) {
                        v.push(buf[..k].to_vec());
                    }
                    v
                }
            };
            res.push((o.name.clone(), chunks));
        }
        res
    };

    let mut next_id: u64 = 0;
    let mut totals: std::collections::BTreeMap<String, Vec<u8>> = Default::default();
    let steps = sc["steps"].as_array().cloned().unwrap_or_default();
    for st in steps {
        let op = gs(&st, "op", "?").to_string();
        if let Ok(mut g) = CUR_STEP.lock() {
            *g = Some(json!({"op": op, "rec": gb(&st, "rec", false), "brace": gb(&st, "brace", false),
                "toks": st.get("toks").cloned().unwrap_or(json!([])),
                "itoks": st.get("itoks").cloned().unwrap_or(json!([]))}));
        }
        let mut ev = json!({"ev": op});
        let ret: String = match op.as_str() {
            "Log" => {
                next_id += 1;
                let id = next_id;
                let lvl = gi(&st, "lvl", 3);
                let brace = gb(&st, "brace", false);
                let toks: Vec<String> = st["toks"]
                    .as_array()
                    .map(|a| a.iter().map(|x| x.as_str().unwrap_or("").to_string()).collect())
                    .unwrap_or_default();
                let plain = gs(&st, "plain", "").to_string();
                let target = match st.get("raw").and_then(|x| x.as_str()) {
                    Some(r) => r.to_string(),
                    None if brace => format!("{{{}}}", toks.join(",")),
                    None => plain.clone(),
                };
                let module = gs(&st, "mod", "").to_string();
                let marker = format!("r{id}");
                let msg = match st.get("msghex").and_then(|x| x.as_str()) {
                    Some(hx) => String::from_utf8_lossy(&unhex(hx)).to_string(),
                    None => marker.clone(),
                };
                let kvs: Vec<(String, Kv)> = st["kvs"]
                    .as_array()
                    .map(|a| {
                        a.iter()
                            .map(|p| {
                                let k = p[0].as_str().unwrap_or("k").to_string();
                                let v = if p[1] == "i" {
                                    Kv::I(p[2].as_i64().unwrap_or(0))
                                } else {
                                    Kv::S(p[2].as_str().unwrap_or("").to_string())
                                };
                                (k, v)
                            })
                            .collect()
                    })
                    .unwrap_or_default();
                // target of the inner record of a recursive call (default: plain "m")
                let ibrace = gb(&st, "ibrace", false);
                let itoks: Vec<String> = st["itoks"]
                    .as_array()
                    .map(|a| a.iter().map(|x| x.as_str().unwrap_or("").to_string()).collect())
                    .unwrap_or_default();
                let iplain = gs(&st, "iplain", "m").to_string();
                let rs = RecSpec {
                    lvl: level_of(lvl),
                    target,
                    mp: if module.is_empty() { None } else { Some(module.clone()) },
                    file: st.get("file").and_then(|x| x.as_str()).map(|s| s.to_string()),
                    line: st.get("line").and_then(|x| x.as_u64()).map(|x| x as u32),
                    kvs: kvs.clone(),
                    msg: msg.clone(),
                    recursive: gb(&st, "rec", false),
                    respec: gb(&st, "respec", false),
                    inner_target: if ibrace {
                        format!("{{{}}}", itoks.join(","))
                    } else {
                        iplain.clone()
                    },
                };
                ev["id"] = json!(id);
                ev["lvl"] = json!(lvl);
                ev["brace"] = json!(brace);
                ev["toks"] = json!(toks);
                ev["plain"] = json!(plain);
                ev["mod"] = json!(module);
                ev["rec"] = json!(rs.recursive);
                ev["ibrace"] = json!(ibrace);
                ev["itoks"] = json!(itoks);
                ev["iplain"] = json!(iplain);
                let t = hh.get_clock();
                ev["t"] = json!(t);
                // expected bytes: the public format function, called here, same instant, plus line ending
                let mut exp: Vec<(String, Vec<u8>)> = Vec::new();
                if frame_kind {
                    for o in &outputs {
                        if o.fmt != "syslog" {
                            let mut b = expected(fmt_by_name(&o.fmt), &rs);
                            b.extend_from_slice(o.le.as_bytes());
                            exp.push((o.name.clone(), b));
                        }
                    }
                    hh.set_clock(t);
                    if !rs.recursive {
                        hh.autotick.store(tick, Ordering::SeqCst);
                    }
                }
                INNER.with(|c| c.set(0));
                let r = match &logger {
                    None => "noop".to_string(),
                    Some(lg) => match catch_unwind(AssertUnwindSafe(|| with_record(&rs, |r| lg.log(r)))) {
                        Ok(()) => "ok".to_string(),
                        Err(e) => format!("panic:{}", panic_msg(e)),
                    },
                };
                if let Some(j) = RESPEC_JOIN.lock().unwrap().take() {
                    let _ = j.join();
                }
                hh.autotick.store(0, Ordering::SeqCst);
                let reads_after = hh.get_clock();
                let _ = catch_unwind(AssertUnwindSafe(|| {
                    if let Some(hd) = &handle {
                        hd.flush();
                    }
                    std::io::stdout().flush().ok();
                    std::io::stderr().flush().ok();
                }));
                let got = collect(&mut outputs, env);
                let (names, other) = new_errs(&mut errtail);
                ev["errs"] = json!(names);
                ev["oerrs"] = json!(other);
                if !frame_kind {
                    // routing: count the frames that carry this record's marker
                    let mut g = Map::new();
                    let mut stray = 0usize;
                    for ((name, chunks), o) in got.iter().zip(outputs.iter()) {
                        let mut cnt = 0usize;
                        for c in chunks {
                            match &o.sink {
                                Some(Sink::Sock(_)) => {
                                    if c.ends_with(format!(" {marker}").as_bytes()) {
                                        cnt += 1
                                    } else {
                                        stray += 1
                                    }
                                }
                                Some(Sink::Rec(..)) => {
                                    if c == marker.as_bytes() {
                                        cnt += 1
                                    } else {
                                        stray += 1
                                    }
                                }
                                _ => {
                                    let (fr, whole) = frames_by_le(c, o.le);
                                    for f in fr {
                                        if f == marker.as_bytes() {
                                            cnt += 1
                                        } else {
                                            stray += 1
                                        }
                                    }
                                    if !whole {
                                        stray += 1;
                                    }
                                }
                            }
                        }
                        g.insert(name.clone(), json!(cnt));
                    }
                    for k in ["file", "pw"] {
                        if !g.contains_key(k) {
                            g.insert(k.to_string(), json!(-1));
                        }
                    }
                    ev["got"] = Value::Object(g);
                    ev["stray"] = json!(stray);
                } else {
                    // framing: raw bytes, expected bytes, decoded fields per output
                    let tsx = crate::handler::civil_to_dt(t).format(TS_FMT).to_string();
                    ev["ts"] = json!(tsx);
                    ev["clk"] = json!(reads_after - t);
                    ev["msghex"] = json!(hex(msg.as_bytes()));
                    ev["hasmp"] = json!(rs.mp.is_some());
                    ev["hasfile"] = json!(rs.file.is_some());
                    ev["file"] = json!(rs.file.clone().unwrap_or_default());
                    ev["hasline"] = json!(rs.line.is_some());
                    ev["line"] = json!(rs.line.unwrap_or(0));
                    ev["thread"] = json!(tname);
                    let mut kvtxt: Vec<Value> = Vec::new();
                    let mut kvj: Vec<(String, Value)> = Vec::new();
                    for (k, v) in &kvs {
                        match v {
                            Kv::S(s) => {
                                kvtxt.push(json!([k, format!("{s:?}")]));
                                kvj.push((k.clone(), json!([k, "s", s])));
                            }
                            Kv::I(i) => {
                                kvtxt.push(json!([k, i.to_string()]));
                                kvj.push((k.clone(), json!([k, "i", i.to_string()])));
                            }
                        }
                    }
                    kvj.sort_by(|a, b| a.0.cmp(&b.0));
                    ev["kvtxt"] = json!(kvtxt);
                    ev["kvj"] = json!(kvj.into_iter().map(|x| x.1).collect::<Vec<_>>());
                    let ninner = INNER.with(|c| c.get());
                    let mut inner: Vec<Value> = Vec::new();
                    if rs.recursive {
                        hh.set_clock(t);
                        for k in 1..=ninner {
                            let is = inner_spec(&rs, k);
                            let mut m = Map::new();
                            for o in &outputs {
                                if o.fmt != "syslog" {
                                    let mut b = expected(fmt_by_name(&o.fmt), &is);
                                    b.extend_from_slice(o.le.as_bytes());
                                    m.insert(o.name.clone(), json!(hex(&b)));
                                }
                            }
                            inner.push(Value::Object(m));
                        }
                    }
                    ev["inner"] = json!(inner);
                    let mut outs: Vec<Value> = Vec::new();
                    for ((name, chunks), o) in got.iter().zip(outputs.iter()) {
                        let all: Vec<u8> = chunks.concat();
                        let is_file = matches!(o.sink, Some(Sink::File(_)));
                        if is_file {
                            totals.entry(name.clone()).or_default().extend_from_slice(&all);
                        }
                        let mut x = json!({"sink": name, "fmt": o.fmt, "n": chunks.len(),
                            "hex": hex(&all), "le": hex(o.le.as_bytes()),
                            "defer": asyncm && (is_file || (primary == "stdout" && name == "out")
                                || (primary == "stderr" && name == "err"))});
                        if o.fmt == "syslog" {
                            x["exp"] = json!("");
                            x["dec"] = if chunks.len() == 1 {
                                decode_syslog(&chunks[0])
                            } else {
                                json!({"ok": false})
                            };
                        } else {
                            let e = exp.iter().find(|e| &e.0 == name).map(|e| e.1.clone()).unwrap_or_default();
                            x["exp"] = json!(hex(&e));
                            let body = all.strip_suffix(o.le.as_bytes()).unwrap_or(&all);
                            x["dec"] = if all.is_empty() || rs.recursive {
                                json!({"ok": false, "lf": 0, "cr": 0})
                            } else {
                                decode(&o.fmt, body, !kvs.is_empty())
                            };
                        }
                        outs.push(x);
                    }
                    ev["outs"] = json!(outs);
                    for o in &outputs {
                        if let Some(Sink::Buf(_, _, lens)) = &o.sink {
                            // the memory buffer after the call: byte lengths of its lines, oldest first (BufW.tla)
                            ev["snap"] = json!(lens);
                            ev["bufmax"] = json!(gi(cfg, "bufmax", 1 << 20));
                        }
                    }
                    hh.set_clock(t + 10);
                }
                r
            }
            "AdaptErr" | "AdaptOut" => {
                let d = gi(&st, "d", 0);
                ev["d"] = json!(d);
                match &mut handle {
                    None => "noop".to_string(),
                    Some(hd) => {
                        let r = catch_unwind(AssertUnwindSafe(|| {
                            if op == "AdaptErr" {
                                hd.adapt_duplication_to_stderr(dup_of(d))
                            } else {
                                hd.adapt_duplication_to_stdout(dup_of(d))
                            }
                        }));
                        match r {
                            Ok(Ok(())) => "ok".to_string(),
                            Ok(Err(e)) => format!("err:{e:?}"),
                            Err(e) => format!("panic:{}", panic_msg(e)),
                        }
                    }
                }
            }
            "SetSpec" => {
                let (d, m) = (gi(&st, "dflt", 3), gi(&st, "m", -1));
                ev["dflt"] = json!(d);
                ev["m"] = json!(m);
                match &handle {
                    None => "noop".to_string(),
                    Some(hd) => match catch_unwind(AssertUnwindSafe(|| hd.set_new_spec(spec_of(d, m)))) {
                        Ok(()) => "ok".to_string(),
                        Err(e) => format!("panic:{}", panic_msg(e)),
                    },
                }
            }
            x => format!("unknown:{x}"),
        };
        ev["ret"] = json!(ret);
        emit(env, ev);
    }
    // ---- end of scenario: shut down, report what arrived outside of any Log call
    *RESPEC.lock().unwrap() = None;
    LOGGER.with(|l| *l.borrow_mut() = None);
    let r = catch_unwind(AssertUnwindSafe(|| {
        if let Some(hd) = &handle {
            hd.flush();
            hd.shutdown();
        }
        drop(handle.take());
        drop(logger);
        std::io::stdout().flush().ok();
    }));
    let late = collect(&mut outputs, env);
    let (names, other) = new_errs(&mut errtail);
    let mut fin = json!({"ev": "Final", "ret": match r { Ok(()) => "ok".to_string(), Err(e) => format!("panic:{}", panic_msg(e)) },
        "errs": names, "oerrs": other});
    let mut late_v: Vec<Value> = Vec::new();
    for ((name, chunks), o) in late.iter().zip(outputs.iter()) {
        let all: Vec<u8> = chunks.concat();
        if matches!(o.sink, Some(Sink::File(_))) {
            totals.entry(name.clone()).or_default().extend_from_slice(&all);
        }
        late_v.push(json!({"sink": name, "len": all.len(), "hex": if frame_kind && !asyncm { hex(&all) } else { String::new() }}));
    }
    fin["late"] = json!(late_v);
    if frame_kind {
        fin["tot"] = json!(totals
            .iter()
            .map(|(k, v)| json!({"sink": k, "hex": hex(v)}))
            .collect::<Vec<_>>());
    }
    emit(env, fin);
    env.out.flush().ok();
    if !gb(sc, "keep", false) {
        let _ = std::fs::remove_dir_all(&dir);
        let _ = std::fs::remove_file(&errfile);
    }
    n
}
