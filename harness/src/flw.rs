//! Executor for file-writer scenarios: runs the steps of a scenario on the real code and
//! records one trace event (with a full observation) per step. It never judges.
use crate::handler::{h, FaultPlan};
use crate::obs::{self, Cfg};
use flexi_logger::writers::{ArcFileLogWriter, FileLogWriter, FileLogWriterHandle, LogWriter};
use flexi_logger::{
    Age, Cleanup, Criterion, DeferredNow, ErrorChannel, FileSpec, LogSpecification, Logger,
    LoggerHandle, LogfileSelector, Naming, WriteMode,
};
use log::Log;
use serde_json::{json, Value};
use std::io::Write;
use std::panic::{catch_unwind, AssertUnwindSafe};
use std::path::{Path, PathBuf};
use std::sync::atomic::{AtomicBool, Ordering};
use std::sync::Arc;
use std::time::Duration;

pub fn fmt_plain(
    w: &mut dyn Write,
    _now: &mut DeferredNow,
    r: &log::Record,
) -> std::io::Result<()> {
    write!(w, "{}", r.args())
}

/// A message whose Display implementation logs another record (recursive logging on one thread); `chain` holds
/// the messages of the nested records, outermost first: each of them logs the rest of the chain while it is formatted.
struct RecMsg<'a> {
    l: &'a dyn log::Log,
    chain: Vec<String>,
    outer: String,
    lvl: log::Level,
}
impl std::fmt::Display for RecMsg<'_> {
    fn fmt(&self, f: &mut std::fmt::Formatter<'_>) -> std::fmt::Result {
        if let Some((first, rest)) = self.chain.split_first() {
            let inner = RecMsg { l: self.l, chain: rest.to_vec(), outer: first.clone(), lvl: self.lvl };
            self.l.log(
                &log::Record::builder()
                    .args(format_args!("{}", inner))
                    .level(self.lvl)
                    .target("m")
                    .module_path(Some("m"))
                    .build(),
            );
        }
        f.write_str(&self.outer)
    }
}

/// The same through the bare FileLogWriter (LogWriter::write called from inside a Display implementation).
struct RecMsgW<'a> {
    a: &'a dyn LogWriter,
    chain: Vec<String>,
    outer: String,
    lvl: log::Level,
}
impl std::fmt::Display for RecMsgW<'_> {
    fn fmt(&self, f: &mut std::fmt::Formatter<'_>) -> std::fmt::Result {
        if let Some((first, rest)) = self.chain.split_first() {
            let inner = RecMsgW { a: self.a, chain: rest.to_vec(), outer: first.clone(), lvl: self.lvl };
            let mut now = DeferredNow::new();
            let _ = self.a.write(
                &mut now,
                &log::Record::builder()
                    .args(format_args!("{}", inner))
                    .level(self.lvl)
                    .target("m")
                    .module_path(Some("m"))
                    .build(),
            );
        }
        f.write_str(&self.outer)
    }
}

fn leak(s: &str) -> &'static str {
    Box::leak(s.to_string().into_boxed_str())
}

pub fn file_spec(cfg: &Cfg, root: &Path) -> FileSpec {
    let mut fs = FileSpec::default()
        .directory(root.join(&cfg.subdir))
        .basename(cfg.basename.clone())
        .o_suffix(cfg.suffix.clone())
        .use_timestamp(cfg.use_ts);
    if let Some(d) = &cfg.discr {
        fs = fs.discriminant(d.clone());
    }
    fs
}
pub fn naming(cfg: &Cfg) -> Naming {
    match cfg.naming.as_str() {
        "Num" => Naming::Numbers,
        "NumD" => Naming::NumbersDirect,
        "Ts" => Naming::Timestamps,
        "TsD" => Naming::TimestampsDirect,
        "TsC" => Naming::TimestampsCustomFormat {
            current_infix: Some(leak(&cfg.cur)),
            format: leak(&cfg.fmt),
        },
        "TsCD" => Naming::TimestampsCustomFormat {
            current_infix: None,
            format: leak(&cfg.fmt),
        },
        x => panic!("unknown naming {x}"),
    }
}
fn age(a: &str) -> Age {
    match a {
        "s" => Age::Second,
        "m" => Age::Minute,
        "h" => Age::Hour,
        _ => Age::Day,
    }
}
pub fn criterion(cfg: &Cfg) -> Criterion {
    match (cfg.size >= 0, !cfg.age.is_empty()) {
        (true, true) => Criterion::AgeOrSize(age(&cfg.age), cfg.size as u64),
        (true, false) => Criterion::Size(cfg.size as u64),
        (false, true) => Criterion::Age(age(&cfg.age)),
        (false, false) => Criterion::Size(u64::MAX),
    }
}
pub fn cleanup(cfg: &Cfg) -> Cleanup {
    match (cfg.k >= 0, cfg.m >= 0) {
        (false, false) => Cleanup::Never,
        (true, false) => Cleanup::KeepLogFiles(cfg.k as usize),
        (false, true) => Cleanup::KeepCompressedFiles(cfg.m as usize),
        (true, true) => Cleanup::KeepLogAndCompressedFiles(cfg.k as usize, cfg.m as usize),
    }
}
pub fn write_mode(cfg: &Cfg) -> WriteMode {
    match cfg.mode.as_str() {
        "direct" => WriteMode::Direct,
        "capture" => WriteMode::SupportCapture,
        "buf" => WriteMode::BufferDontFlushWith(cfg.cap),
        "bufflush" => {
            WriteMode::BufferAndFlushWith(cfg.cap, Duration::from_millis(cfg.flush_ms.max(1)))
        }
        "async" => WriteMode::AsyncWith {
            pool_capa: cfg.pool,
            message_capa: cfg.mcapa,
            flush_interval: Duration::from_millis(cfg.flush_ms),
        },
        x => panic!("unknown mode {x}"),
    }
}
fn level(s: &str) -> log::Level {
    match s {
        "error" => log::Level::Error,
        "warn" => log::Level::Warn,
        "debug" => log::Level::Debug,
        "trace" => log::Level::Trace,
        _ => log::Level::Info,
    }
}

pub struct Run {
    pub logger: Option<Box<dyn Log>>,
    pub handle: Option<LoggerHandle>,
    pub clones: Vec<LoggerHandle>,
    pub arc: Option<ArcFileLogWriter>,
    pub fh: Option<FileLogWriterHandle>,
}
impl Run {
    fn none() -> Run {
        Run {
            logger: None,
            handle: None,
            clones: Vec::new(),
            arc: None,
            fh: None,
        }
    }
    fn active(&self) -> bool {
        self.logger.is_some() || self.arc.is_some()
    }
}

pub fn flw_builder(
    cfg: &Cfg,
    root: &Path,
    link: Option<&PathBuf>,
) -> flexi_logger::writers::FileLogWriterBuilder {
    let mut b = FileLogWriter::builder(file_spec(cfg, root))
        .format(fmt_plain)
        .write_mode(write_mode(cfg))
        .cleanup_in_background_thread(cfg.bg)
        .o_append(cfg.append);
    if cfg.rot {
        b = b.rotate(criterion(cfg), naming(cfg), cleanup(cfg));
    }
    if cfg.crlf {
        b = b.use_windows_line_ending();
    }
    if cfg.utc {
        b = b.use_utc();
    }
    if let Some(l) = link {
        b = b.create_symlink(l.clone());
    }
    if !cfg.maxlvl.is_empty() {
        b = b.max_level(level(&cfg.maxlvl).to_level_filter());
    }
    b
}

fn start(cfg: &Cfg, root: &Path, link: Option<&PathBuf>, errfile: &Path) -> Result<Run, String> {
    if cfg.via == "flw" {
        let (arc, fh) = flw_builder(cfg, root, link)
            .try_build_with_handle()
            .map_err(|e| format!("{e:?}"))?;
        let mut r = Run::none();
        r.arc = Some(arc);
        r.fh = Some(fh);
        Ok(r)
    } else {
        if cfg.asadd {
            // the file writer as ADDITIONAL writer "A" of a logger whose default channel is stderr; the records are
            // addressed to {A}
            let w = flw_builder(cfg, root, link).try_build().map_err(|e| format!("{e:?}"))?;
            let (logger, handle) = Logger::with(LogSpecification::trace())
                .log_to_stderr()
                .add_writer("A", Box::new(w))
                .error_channel(ErrorChannel::File(errfile.to_path_buf()))
                .build()
                .map_err(|e| format!("{e:?}"))?;
            let mut r = Run::none();
            r.logger = Some(logger);
            r.handle = Some(handle);
            return Ok(r);
        }
        let l0 = Logger::with(LogSpecification::trace());
        // "fw": the default channel is the file AND a writer (log_to_file_and_writer), a second file writer in a
        // sibling directory; everything else as with log_to_file
        let l0 = if cfg.fw {
            let w = FileLogWriter::builder(FileSpec::default().directory(root.join("addw")).basename("w").suppress_timestamp())
                .format(fmt_plain)
                .try_build()
                .map_err(|e| format!("{e:?}"))?;
            l0.log_to_file_and_writer(file_spec(cfg, root), Box::new(w))
        } else {
            l0.log_to_file(file_spec(cfg, root))
        };
        let mut l = l0
            .format_for_files(fmt_plain)
            .write_mode(write_mode(cfg))
            .cleanup_in_background_thread(cfg.bg)
            .o_append(cfg.append)
            .error_channel(ErrorChannel::File(errfile.to_path_buf()));
        if cfg.rot {
            l = l.rotate(criterion(cfg), naming(cfg), cleanup(cfg));
        }
        if cfg.crlf {
            l = l.use_windows_line_ending();
        }
        if let Some(lk) = link {
            l = l.create_symlink(lk.clone());
        }
        if cfg.addw {
            // an additional writer "A" (a second file writer in a sibling directory) for brace targets
            let w = FileLogWriter::builder(FileSpec::default().directory(root.join("addw")).basename("a").suppress_timestamp())
                .format(fmt_plain)
                .try_build()
                .map_err(|e| format!("{e:?}"))?;
            l = l.add_writer("A", Box::new(w));
        }
        let (logger, handle) = l.build().map_err(|e| format!("{e:?}"))?;
        let mut r = Run::none();
        r.logger = Some(logger);
        r.handle = Some(handle);
        Ok(r)
    }
}

pub fn set_error_channel(errfile: &Path) {
    // the error channel is process-global and only settable through Logger::build()
    let _ = Logger::with(LogSpecification::off())
        .do_not_log()
        .error_channel(ErrorChannel::File(errfile.to_path_buf()))
        .build();
}

/// new error-channel lines since `pos`, as list of ERRCODEs
pub fn new_errs(errfile: &Path, pos: &mut usize) -> Vec<String> {
    let s = std::fs::read_to_string(errfile).unwrap_or_default();
    let new = if *pos <= s.len() { &s[*pos..] } else { "" };
    *pos = s.len();
    let re = regex::Regex::new(r"\[flexi_logger\]\[ERRCODE::(\w+)\]").unwrap();
    re.captures_iter(new).map(|c| c[1].to_string()).collect()
}

fn current_file(dir: &Path, cfg: &Cfg) -> Option<String> {
    let o = obs::observe(dir, cfg, None, false);
    let files = o["files"].as_array().unwrap().clone();
    if !cfg.rot {
        // with a start time in the name every run has its own file: the newest one is the current one
        let mut c: Vec<&Value> = files.iter().filter(|f| f["k"] == "plain").collect();
        c.sort_by_key(|f| f["st"].as_i64().unwrap_or(-1));
        return c.last().map(|f| f["name"].as_str().unwrap().to_string());
    }
    if !cfg.cur.is_empty() {
        return files
            .iter()
            .find(|f| f["k"] == "cur")
            .map(|f| f["name"].as_str().unwrap().to_string());
    }
    let mut c: Vec<&Value> = files.iter().filter(|f| f["z"] == false).collect();
    c.sort_by_key(|f| (f["i"].as_i64().unwrap(), f["r"].as_i64().unwrap()));
    c.last().map(|f| f["name"].as_str().unwrap().to_string())
}

fn rotated_sorted(dir: &Path, cfg: &Cfg) -> Vec<String> {
    let o = obs::observe(dir, cfg, None, false);
    let mut c: Vec<Value> = o["files"]
        .as_array()
        .unwrap()
        .iter()
        .filter(|f| f["k"] == "num" || f["k"] == "ts")
        .cloned()
        .collect();
    c.sort_by_key(|f| (f["i"].as_i64().unwrap(), f["r"].as_i64().unwrap()));
    c.iter()
        .map(|f| f["name"].as_str().unwrap().to_string())
        .collect()
}

pub struct Exec<'a> {
    pub out: &'a mut dyn Write,
    pub root: PathBuf,
    pub flush_each: bool,
    pub prev_err: &'a mut Option<PathBuf>,
}

pub fn panic_msg(e: Box<dyn std::any::Any + Send>) -> String {
    if let Some(s) = e.downcast_ref::<&str>() {
        s.to_string()
    } else if let Some(s) = e.downcast_ref::<String>() {
        s.clone()
    } else {
        "?".to_string()
    }
}

/// Runs one scenario; returns number of events written.
/// The configuration as the specification sees it (Begin.norm, Reset.norm).
fn norm_json(cfg: &Cfg) -> Value {
    use chrono::Offset;
    let utcoff = chrono::Local::now().offset().fix().local_minus_utc();
    json!({"naming": cfg.naming, "rot": cfg.rot, "size": cfg.size, "age": cfg.age, "k": cfg.k, "m": cfg.m,
        "clean": cfg.clean(), "mode": cfg.mode, "cap": cfg.cap as i64, "le": cfg.le().len(),
        "direct": cfg.cur.is_empty() && cfg.rot, "bg": cfg.bg, "fmt": cfg.fmt, "link": cfg.link,
        "append": cfg.append, "via": cfg.via, "suffix": cfg.suffix.clone().unwrap_or_default(),
        "has_suffix": cfg.suffix.is_some(), "basename": cfg.basename, "discr": cfg.discr.clone().unwrap_or_default(),
        "has_discr": cfg.discr.is_some(), "use_ts": cfg.use_ts, "cur": cfg.cur, "subdir": cfg.subdir,
        // use_utc() of the FileLogWriter builder: infixes are rendered in UTC; offset of the (fixed-offset) local zone
        "utc": cfg.utc && cfg.via == "flw",
        "utcoff": utcoff})
}

pub fn run_scenario(sc: &Value, ex: &mut Exec) -> usize {
    let scid = sc["sc"].clone();
    let mut cfg = Cfg::from_json(&sc["cfg"]);
    let root = ex.root.join(format!("sc{}", scid));
    // resume = continue in the directory a killed process left behind (C11)
    let resume = sc.get("resume").and_then(|v| v.as_bool()).unwrap_or(false);
    if !resume {
        let _ = std::fs::remove_dir_all(&root);
    }
    std::fs::create_dir_all(&root).unwrap();
    let errfile = ex.root.join(format!("errs-sc{}.txt", scid));
    let _ = std::fs::remove_file(&errfile);
    let mut errpos = 0usize;
    set_error_channel(&errfile);
    let hh = h();
    hh.reset_bt();
    hh.arm_fault(None);
    hh.fs_hits.store(0, Ordering::SeqCst);
    hh.injected.store(0, Ordering::SeqCst);
    hh.injected_names.lock().unwrap().clear();
    hh.autotick.store(0, Ordering::SeqCst);
    let virt = sc.get("virt").and_then(|v| v.as_bool()).unwrap_or(true);
    if virt {
        hh.set_clock(sc["t0"].as_i64().unwrap_or(86400 * 400));
    } else {
        hh.real_clock();
    }
    let want_pts = sc.get("points").and_then(|v| v.as_bool()).unwrap_or(false);
    hh.record.store(want_pts, Ordering::SeqCst);
    hh.take_points();
    hh.fx_on.store(sc.get("fxrec").and_then(|v| v.as_bool()).unwrap_or(false), Ordering::SeqCst);
    hh.take_fx();
    let obs_every = sc.get("obs").and_then(|v| v.as_str()).unwrap_or("every") == "every";
    let raw = sc.get("raw").and_then(|v| v.as_bool()).unwrap_or(false);
    let link: Option<PathBuf> = if cfg.link {
        Some(root.join("link_to_current"))
    } else {
        None
    };
    let mut n = sc.get("n0").and_then(|v| v.as_u64()).unwrap_or(0) as usize;
    let mut emit = |ex: &mut Exec, mut v: Value| {
        n += 1;
        v["sc"] = scid.clone();
        v["n"] = json!(n);
        writeln!(ex.out, "{}", v).unwrap();
        if ex.flush_each {
            ex.out.flush().unwrap();
        }
    };
    let mut begin = json!({"ev":"Begin","cfg": sc["cfg"].clone(), "origin": sc.get("origin").cloned().unwrap_or(json!("")),
        "norm": norm_json(&cfg),
        "t": hh.get_clock()});
    if let Some(x) = sc.get("tag") {
        begin["tag"] = x.clone();
    }
    if let Some(x) = sc.get("grp") {
        begin["grp"] = x.clone();
    }
    // is the scenario inside the domain of the conform-mode trace specification (TraceFlw.tla)?
    begin["conf"] = json!(sc.get("conf").and_then(|v| v.as_bool()).unwrap_or(false));
    // the time zone of this process (the shards of C09 run under different zones; a replay uses the same one)
    begin["tz"] = json!(std::env::var("TZ").unwrap_or_default());
    if !resume {
        emit(ex, begin);
    } else {
        // first observation after the kill, before anything is restarted
        let dir = root.join(&cfg.subdir);
        let mut o = obs::observe(&dir, &cfg, link.as_ref(), raw);
        o["prev"] = json!([]);
        o["moved"] = json!([]);
        o["outside"] = json!([]);
        o["pcur"] = json!("");
        o["cur"] = json!(current_file(&dir, &cfg).unwrap_or_default());
        emit(
            ex,
            json!({"ev": "Crashed", "ret": "ok", "retk": "ok", "o": true, "obs": o, "t": hh.get_clock(), "errs": [],
                   "inj": 0, "injp": [], "faultleft": 0, "at": sc.get("crashed_at").cloned().unwrap_or(json!("")),
                   // the call that was running when the process was killed, and the number (within that call) of the
                   // file-system effect it was killed in front of (conform mode with kills, TraceFlwF.tla)
                   "inflight": sc.get("inflight").cloned().unwrap_or(json!({"op": "?", "len": 0})),
                   "j": sc.get("j").cloned().unwrap_or(json!(0)), "fx": [], "fxf": []}),
        );
    }

    let mut run = Run::none();
    let mut shut_helper: Option<std::sync::mpsc::Receiver<String>> = None;
    let mut next_id: u64 = sc.get("id0").and_then(|v| v.as_u64()).unwrap_or(0);
    let mut old_fams: Vec<(PathBuf, Cfg)> = Vec::new();
    let mut moved: Vec<String> = Vec::new();
    let mut last_cur = String::new();
    let movedir = root.join("moved");
    let steps = sc["steps"].as_array().cloned().unwrap_or_default();
    for st in steps {
        let op = st["op"].as_str().unwrap_or("?").to_string();
        let mut ev = json!({"ev": op});
        if let Some(q) = st.get("q") {
            ev["q"] = q.clone(); // the action of the specification this step stands for (conform mode)
        }
        let mut pending_inner: Vec<(u64, usize)> = Vec::new();
        let dir = root.join(&cfg.subdir);
        let mut sync_point = false;
        let ret: String = match op.as_str() {
            "Start" => {
                if let Some(a) = st.get("append").and_then(|v| v.as_bool()) {
                    cfg.append = a;
                }
                ev["append"] = json!(cfg.append);
                let r = catch_unwind(AssertUnwindSafe(|| {
                    start(&cfg, &root, link.as_ref(), &errfile)
                }));
                match r {
                    Ok(Ok(r)) => {
                        run = r;
                        "ok".into()
                    }
                    Ok(Err(e)) => format!("err:{e}"),
                    Err(e) => format!("panic:{}", panic_msg(e)),
                }
            }
            "Log" => {
                let len = st["len"].as_u64().unwrap_or(10) as usize;
                let le = cfg.le().len();
                let anon = obs::is_anonymous(len, le);
                // the id of a record is its position among all Log steps of the scenario (anonymous records,
                // which are too short to carry it, count as well) - the same numbering the specification uses
                // recursive: the message logs an inner record while it is formatted; the inner record is written
                // first and takes the first id, the outer one the next
                let depth = match st.get("recursive") {
                    Some(Value::Bool(true)) => 1,
                    Some(v) => v.as_u64().unwrap_or(0) as usize,
                    None => 0,
                };
                let recursive = depth > 0 && (run.logger.is_some() || run.arc.is_some());
                let ilen = st.get("ilen").and_then(|v| v.as_u64()).unwrap_or(12).max(9 + le as u64) as usize;
                // the innermost record is written first: ids in the order of writing; chain = outermost nested first
                let mut chain: Vec<String> = Vec::new();
                if recursive {
                    for _ in 0..depth {
                        next_id += 1;
                        chain.insert(0, obs::message(next_id, ilen, le));
                        pending_inner.push((next_id, ilen));
                    }
                }
                next_id += 1;
                let id = if anon { 0 } else { next_id };
                let msg = match st.get("msg").and_then(|v| v.as_str()) {
                    Some(m) => m.to_string(),
                    None => obs::message(id, len, le),
                };
                if raw {
                    ev["hex"] = json!(obs::hex(format!("{}{}", msg, cfg.le()).as_bytes()));
                }
                let lvl = level(st.get("lvl").and_then(|v| v.as_str()).unwrap_or("info"));
                ev["id"] = json!(id);
                ev["probe"] = json!(st.get("probe").and_then(|v| v.as_bool()).unwrap_or(false));
                ev["len"] = json!(len.max(le));
                ev["lvl"] = json!(lvl.as_str().to_lowercase());
                if !run.active() {
                    "noop".into()
                } else {
                    let r = catch_unwind(AssertUnwindSafe(|| {
                        if let Some(l) = &run.logger {
                            // optional "weird record" parameters (C10): target string, absent optional fields
                            let target = st.get("target").and_then(|v| v.as_str()).unwrap_or(if cfg.asadd { "{A}" } else { "m" });
                            let nomod = st.get("nomod").and_then(|v| v.as_bool()).unwrap_or(false);
                            let file = st.get("file").and_then(|v| v.as_str());
                            let line = st.get("line").and_then(|v| v.as_u64()).map(|x| x as u32);
                            let md = log::Metadata::builder().level(lvl).target(target).build();
                            if st.get("query").and_then(|v| v.as_bool()).unwrap_or(false) {
                                let _ = l.enabled(&md);
                            }
                            let rm = RecMsg { l: &**l, chain: chain.clone(), outer: msg.clone(), lvl };
                            let plain_args = format_args!("{}", msg);
                            let rec_args = format_args!("{}", rm);
                            l.log(
                                &log::Record::builder()
                                    .args(if recursive { rec_args } else { plain_args })
                                    .level(lvl)
                                    .target(target)
                                    .module_path(if nomod { None } else { Some("m") })
                                    .file(file)
                                    .line(line)
                                    .build(),
                            );
                        } else if let Some(a) = &run.arc {
                            let mut now = DeferredNow::new();
                            let rm = RecMsgW { a: &**a, chain: chain.clone(), outer: msg.clone(), lvl };
                            let plain_args = format_args!("{}", msg);
                            let rec_args = format_args!("{}", rm);
                            let res = LogWriter::write(
                                &**a,
                                &mut now,
                                &log::Record::builder()
                                    .args(if recursive { rec_args } else { plain_args })
                                    .level(lvl)
                                    .target("m")
                                    .module_path(Some("m"))
                                    .build(),
                            );
                            if let Err(e) = res {
                                return format!("err:{:?}", e.kind());
                            }
                        }
                        "ok".to_string()
                    }));
                    match r {
                        Ok(s) => s,
                        Err(e) => format!("panic:{}", panic_msg(e)),
                    }
                }
            }
            "Chunk" => {
                let bytes = obs::unhex(st["hex"].as_str().unwrap_or(""));
                ev["hex"] = st["hex"].clone();
                ev["len"] = json!(bytes.len());
                match &mut run.arc {
                    Some(a) => match catch_unwind(AssertUnwindSafe(|| a.write(&bytes))) {
                        Ok(Ok(nw)) => {
                            ev["written"] = json!(nw);
                            "ok".into()
                        }
                        Ok(Err(e)) => format!("err:{:?}", e.kind()),
                        Err(e) => format!("panic:{}", panic_msg(e)),
                    },
                    None => "noop".into(),
                }
            }
            "Trigger" => {
                let r = catch_unwind(AssertUnwindSafe(|| {
                    if let Some(hd) = &run.handle {
                        hd.trigger_rotation().map_err(|e| format!("{e:?}"))
                    } else if let Some(a) = &run.arc {
                        a.rotate().map_err(|e| format!("{e:?}"))
                    } else {
                        Err("noop".to_string())
                    }
                }));
                match r {
                    Ok(Ok(())) => "ok".into(),
                    Ok(Err(e)) if e == "noop" => "noop".into(),
                    Ok(Err(e)) => format!("err:{e}"),
                    Err(e) => format!("panic:{}", panic_msg(e)),
                }
            }
            "Flush" => {
                sync_point = true;
                let r = catch_unwind(AssertUnwindSafe(|| {
                    if let Some(hd) = &run.handle {
                        hd.flush();
                    } else if let Some(a) = &run.arc {
                        LogWriter::flush(&**a).ok();
                    }
                }));
                match r {
                    Ok(()) => {
                        if run.active() {
                            "ok".into()
                        } else {
                            "noop".into()
                        }
                    }
                    Err(e) => format!("panic:{}", panic_msg(e)),
                }
            }
            "ReleaseWriter" => {
                hh.sched_off();
                "ok".into()
            }
            "Shutdown" => {
                sync_point = true;
                hh.sched_off(); // (a held writer thread is released: shutdown waits for it)
                let r = catch_unwind(AssertUnwindSafe(|| {
                    if let Some(hd) = &run.handle {
                        hd.shutdown();
                    } else if let Some(a) = &run.arc {
                        a.shutdown();
                    }
                }));
                match r {
                    Ok(()) => "ok".into(),
                    Err(e) => format!("panic:{}", panic_msg(e)),
                }
            }
            "HoldCleaner" => {
                // FlwCleanQ.tla on the code: the background cleanup thread is held in front of every recv, at the
                // start of every run and in front of every file-system effect; "CGo" lets it take one step
                hh.sched_reset_fs(&["flexi_logger-fs-cleanup"]);
                "ok".into()
            }
            "CGo" => {
                sync_point = true;
                let id = "flexi_logger-fs-cleanup";
                if !hh.sched_on.load(Ordering::SeqCst) {
                    // (an earlier step of this scenario found the thread elsewhere than the specification says: the thread
                    // runs freely from then on, the remaining steps are reported without waiting)
                    "blocked:off".into()
                } else if hh.wait_parked(id, std::time::Duration::from_millis(3000)).is_none() {
                    hh.sched_off();
                    "blocked:not-parked".into()
                } else {
                    let seen = hh.park_count(id);
                    ev["from"] = json!(hh.sched.lock().unwrap().parked.get(id).cloned().unwrap_or_default());
                    hh.release(id, 1);
                    if st.get("exit").and_then(|v| v.as_bool()).unwrap_or(false) {
                        // the thread receives Die and ends; the pending shutdown() joins it
                        ev["at"] = json!("exit");
                        "ok".into()
                    } else {
                        match hh.wait_new_park(id, seen, std::time::Duration::from_millis(3000)) {
                            Some(pt) => {
                                ev["at"] = json!(pt);
                                "ok".into()
                            }
                            None => {
                                hh.sched_off();
                                "blocked:no-park".into()
                            }
                        }
                    }
                }
            }
            "ShutdownBegin" => {
                // shutdown() in a helper thread: it sends Die to the cleanup thread and joins it
                let (tx, rx) = std::sync::mpsc::channel::<String>();
                if let Some(hd) = &run.handle {
                    let hd = hd.clone();
                    std::thread::spawn(move || {
                        let r = catch_unwind(AssertUnwindSafe(|| hd.shutdown()));
                        tx.send(if r.is_ok() { "ok".into() } else { "panic:shutdown".into() }).ok();
                        drop(hd);
                    });
                } else if let Some(a) = &run.arc {
                    let a = a.clone();
                    std::thread::spawn(move || {
                        let r = catch_unwind(AssertUnwindSafe(|| a.shutdown()));
                        tx.send(if r.is_ok() { "ok".into() } else { "panic:shutdown".into() }).ok();
                    });
                }
                shut_helper = Some(rx);
                // (give the helper the time to send Die; the cleanup thread is parked, nothing else moves)
                std::thread::sleep(std::time::Duration::from_millis(if st.get("nowait").is_some() { 0 } else { 15 }));
                "ok".into()
            }
            "ShutdownEnd" => {
                sync_point = true;
                let early = st.get("early").and_then(|v| v.as_bool()).unwrap_or(false);
                match shut_helper.take() {
                    Some(rx) => match rx.recv_timeout(std::time::Duration::from_millis(if early { 300 } else { 5000 })) {
                        Ok(r) => r,
                        Err(_) => {
                            // shutdown() has not returned: the cleanup thread is still held; let everything run
                            hh.sched_off();
                            let _ = rx.recv_timeout(std::time::Duration::from_millis(5000));
                            "blocked:shutdown".into()
                        }
                    },
                    None => "err:no-shutdown-pending".into(),
                }
            }
            "WStep" => {
                // the held asynchronous writer thread handles ONE message and parks at the next one (which must be queued
                // already); without a writer thread (synchronous modes) nothing to do
                let id = "flexi_logger-async_file_writer";
                if !hh.sched_on.load(Ordering::SeqCst) || cfg.mode != "async" {
                    "noop".into()
                } else if hh.wait_parked(id, std::time::Duration::from_millis(5000)).is_none() {
                    "blocked:not-parked".into()
                } else {
                    let seen = hh.park_count(id);
                    hh.release(id, 1);
                    match hh.wait_new_park(id, seen, std::time::Duration::from_millis(5000)) {
                        Some(_) => "ok".into(),
                        None => "blocked:no-park".into(),
                    }
                }
            }
            "WFree" => {
                hh.sched_off();
                "ok".into()
            }
            "HoldWriter" => {
                // the asynchronous writer thread parks at its next hook point (sc:writer_recv): what is logged from
                // now on stays in the channel until the thread is released
                hh.sched_reset(&["flexi_logger-async_file_writer"]);
                "ok".into()
            }
            "ShutdownRace" => {
                // n threads call shutdown() on clones of the handle at the same time (FlwShut.tla); the writer thread
                // is released only after 400 ms: a call that has returned by then returned although the backlog
                // was not written
                sync_point = true;
                let n = st.get("n").and_then(|v| v.as_u64()).unwrap_or(2) as usize;
                let mut dones = Vec::new();
                let mut joins = Vec::new();
                for _ in 0..n {
                    let d = Arc::new(AtomicBool::new(false));
                    dones.push(d.clone());
                    if let Some(hd) = &run.handle {
                        let hd = hd.clone();
                        joins.push(std::thread::spawn(move || {
                            let _ = catch_unwind(AssertUnwindSafe(|| hd.shutdown()));
                            d.store(true, Ordering::SeqCst);
                            drop(hd);
                        }));
                    } else if let Some(a) = &run.arc {
                        let a = a.clone();
                        joins.push(std::thread::spawn(move || {
                            let _ = catch_unwind(AssertUnwindSafe(|| a.shutdown()));
                            d.store(true, Ordering::SeqCst);
                        }));
                    }
                }
                let held = hh.sched_on.load(Ordering::SeqCst);
                if held {
                    std::thread::sleep(std::time::Duration::from_millis(400));
                }
                let early = dones.iter().filter(|d| d.load(Ordering::SeqCst)).count();
                let was = hh.record.swap(false, Ordering::SeqCst);
                let o = obs::observe(&dir, &cfg, None, raw);
                hh.record.store(was, Ordering::SeqCst);
                ev["held"] = json!(held);
                ev["early"] = json!(if held { early } else { 0 });
                ev["heldids"] = o["anyids"].clone();
                hh.sched_off();
                for j in joins {
                    let _ = j.join();
                }
                "ok".into()
            }
            "Stop" => {
                sync_point = true;
                hh.sched_off();
                let explicit = st
                    .get("shutdown")
                    .and_then(|v| v.as_bool())
                    .unwrap_or(true);
                let was = run.active();
                let r = catch_unwind(AssertUnwindSafe(|| {
                    if explicit {
                        if let Some(hd) = &run.handle {
                            hd.shutdown();
                        }
                    }
                    let old = std::mem::replace(&mut run, Run::none());
                    drop(old.clones);
                    drop(old.handle);
                    drop(old.logger);
                    drop(old.fh);
                    drop(old.arc);
                }));
                match r {
                    Ok(()) => {
                        if was {
                            "ok".into()
                        } else {
                            "noop".into()
                        }
                    }
                    Err(e) => {
                        run = Run::none();
                        format!("panic:{}", panic_msg(e))
                    }
                }
            }
            "Clone" => {
                if let Some(hd) = &run.handle {
                    let c = hd.clone();
                    run.clones.push(c);
                    "ok".into()
                } else {
                    "noop".into()
                }
            }
            "DropClone" => match run.clones.pop() {
                Some(c) => match catch_unwind(AssertUnwindSafe(|| drop(c))) {
                    Ok(()) => "ok".into(),
                    Err(e) => format!("panic:{}", panic_msg(e)),
                },
                None => "noop".into(),
            },
            "Adv" => {
                let dt = st["dt"].as_i64().unwrap_or(1);
                hh.set_clock(hh.get_clock() + dt);
                ev["dt"] = json!(dt);
                "ok".into()
            }
            "SetClock" => {
                let t = st["t"].as_i64().unwrap();
                hh.set_clock(t);
                "ok".into()
            }
            "Reopen" => {
                let r = catch_unwind(AssertUnwindSafe(|| {
                    if let Some(hd) = &run.handle {
                        hd.reopen_output().map_err(|e| format!("{e:?}"))
                    } else if let Some(a) = &run.arc {
                        a.reopen_outputfile().map_err(|e| format!("{e:?}"))
                    } else {
                        Err("noop".to_string())
                    }
                }));
                match r {
                    Ok(Ok(())) => "ok".into(),
                    Ok(Err(e)) if e == "noop" => "noop".into(),
                    Ok(Err(e)) => format!("err:{e}"),
                    Err(e) => format!("panic:{}", panic_msg(e)),
                }
            }
            "Reset" => {
                // new family: cfg delta in st["cfg"]
                let full = st
                    .get("cfg")
                    .and_then(|c| c.get("full"))
                    .and_then(|v| v.as_bool())
                    .unwrap_or(false);
                let mut merged = if full { json!({}) } else { sc["cfg"].clone() };
                if let Some(o) = st.get("cfg").and_then(|v| v.as_object()) {
                    for (k, v) in o {
                        merged[k] = v.clone();
                    }
                }
                let mut ncfg = Cfg::from_json(&merged);
                ncfg.append = st
                    .get("cfg")
                    .and_then(|c| c.get("append"))
                    .and_then(|v| v.as_bool())
                    .unwrap_or(cfg.append);
                ev["cfg"] = st.get("cfg").cloned().unwrap_or(json!({}));
                let b = flw_builder(&ncfg, &root, link.as_ref());
                let r = catch_unwind(AssertUnwindSafe(|| {
                    if let Some(hd) = &run.handle {
                        hd.reset_flw(&b).map_err(|e| format!("{e:?}"))
                    } else if let Some(a) = &run.arc {
                        a.reset(&b).map_err(|e| format!("{e:?}"))
                    } else {
                        Err("noop".to_string())
                    }
                }));
                match r {
                    Ok(Ok(())) => {
                        old_fams.push((dir.clone(), cfg.clone()));
                        cfg = ncfg;
                        ev["norm"] = norm_json(&cfg);
                        "ok".into()
                    }
                    Ok(Err(e)) if e == "noop" => "noop".into(),
                    Ok(Err(e)) => format!("err:{e}"),
                    Err(e) => format!("panic:{}", panic_msg(e)),
                }
            }
            "ExtRename" => {
                let which = st.get("which").and_then(|v| v.as_str()).unwrap_or("cur");
                let name = if which == "cur" {
                    current_file(&dir, &cfg)
                } else {
                    Some(which.to_string())
                };
                match name {
                    Some(nm) if dir.join(&nm).exists() => {
                        std::fs::create_dir_all(&movedir).ok();
                        let to = format!("mv{:03}", moved.len());
                        std::fs::rename(dir.join(&nm), movedir.join(&to)).unwrap();
                        moved.push(to);
                        ev["file"] = json!(nm);
                        "ok".into()
                    }
                    _ => "noop".into(),
                }
            }
            "ExtRemove" => {
                let which = if st.get("k").is_some() {
                    "struct"
                } else {
                    st.get("which").and_then(|v| v.as_str()).unwrap_or("cur")
                };
                let name = match which {
                    "struct" => obs::observe(&dir, &cfg, None, false)["files"]
                        .as_array()
                        .unwrap()
                        .iter()
                        .find(|f| {
                            f["k"] == st["k"] && f["i"] == st["i"] && f["r"] == st["r"] && f["z"] == st["z"]
                        })
                        .map(|f| f["name"].as_str().unwrap().to_string()),
                    "cur" => current_file(&dir, &cfg),
                    "oldest" => rotated_sorted(&dir, &cfg).first().cloned(),
                    "newest" => rotated_sorted(&dir, &cfg).last().cloned(),
                    x => Some(x.to_string()),
                };
                match name {
                    Some(nm) if dir.join(&nm).exists() => {
                        ev["file"] = json!(nm);
                        let p = dir.join(&nm);
                        if p.is_dir() {
                            std::fs::remove_dir_all(p).ok();
                        } else {
                            std::fs::remove_file(p).ok();
                        }
                        "ok".into()
                    }
                    _ => "noop".into(),
                }
            }
            "ExtCreate" => {
                let nm = st["name"].as_str().unwrap();
                let content = st
                    .get("content")
                    .and_then(|v| v.as_str())
                    .unwrap_or("foreign\n");
                std::fs::create_dir_all(&dir).ok();
                ev["name"] = json!(nm);
                if st.get("dir").and_then(|v| v.as_bool()).unwrap_or(false) {
                    std::fs::create_dir_all(dir.join(nm)).ok();
                } else if let Some(t) = st.get("symlink").and_then(|v| v.as_str()) {
                    std::os::unix::fs::symlink(t, dir.join(nm)).ok();
                } else {
                    let rep = st.get("repeat").and_then(|v| v.as_u64()).unwrap_or(1) as usize;
                    let body = content.repeat(rep);
                    if st.get("gz").and_then(|v| v.as_bool()).unwrap_or(false) {
                        let mut enc = flate2::write::GzEncoder::new(Vec::new(), flate2::Compression::fast());
                        enc.write_all(body.as_bytes()).ok();
                        std::fs::write(dir.join(nm), enc.finish().unwrap_or_default()).ok();
                    } else {
                        std::fs::write(dir.join(nm), body).ok();
                    }
                }
                "ok".into()
            }
            "RmDir" => {
                std::fs::remove_dir_all(&dir).ok();
                "ok".into()
            }
            "Chmod" => {
                use std::os::unix::fs::PermissionsExt;
                let mode = st["mode"].as_u64().unwrap_or(0o755) as u32;
                std::fs::set_permissions(&dir, std::fs::Permissions::from_mode(mode)).ok();
                "ok".into()
            }
            "Elf" => {
                let sel = &st["sel"];
                let mut s = if sel.get("plain").and_then(|v| v.as_bool()).unwrap_or(true) {
                    LogfileSelector::default()
                } else {
                    LogfileSelector::none()
                };
                if sel.get("cur").and_then(|v| v.as_bool()).unwrap_or(false) {
                    s = s.with_r_current();
                }
                if sel.get("gz").and_then(|v| v.as_bool()).unwrap_or(false) {
                    s = s.with_compressed_files();
                }
                if let Some(c) = sel.get("custom").and_then(|v| v.as_str()) {
                    s = s.with_custom_current(c);
                }
                ev["sel"] = sel.clone();
                let r = catch_unwind(AssertUnwindSafe(|| {
                    if let Some(hd) = &run.handle {
                        hd.existing_log_files(&s).map_err(|e| format!("{e:?}"))
                    } else if let Some(a) = &run.arc {
                        a.existing_log_files(&s).map_err(|e| format!("{e:?}"))
                    } else {
                        Err("noop".to_string())
                    }
                }));
                match r {
                    Ok(Ok(paths)) => {
                        let cdir = std::fs::canonicalize(&dir).ok();
                        let mut names: Vec<Value> = paths
                            .iter()
                            .map(|p| {
                                let indir = p
                                    .parent()
                                    .and_then(|q| std::fs::canonicalize(q).ok())
                                    == cdir;
                                json!({"name": p.file_name().map(|f| f.to_string_lossy().to_string()).unwrap_or_default(),
                                       "indir": indir, "exists": p.exists()})
                            })
                            .collect();
                        names.sort_by_key(|v| v["name"].as_str().unwrap().to_string());
                        ev["result"] = json!(names);
                        "ok".into()
                    }
                    Ok(Err(e)) if e == "noop" => "noop".into(),
                    Ok(Err(e)) => format!("err:{e}"),
                    Err(e) => format!("panic:{}", panic_msg(e)),
                }
            }
            "Fault" => {
                let kind = match st.get("kind").and_then(|v| v.as_str()).unwrap_or("other") {
                    "notfound" => std::io::ErrorKind::NotFound,
                    "denied" => std::io::ErrorKind::PermissionDenied,
                    _ => std::io::ErrorKind::Other,
                };
                hh.arm_fault(Some(FaultPlan {
                    name: st["name"].as_str().unwrap_or("*").to_string(),
                    from: st["from"].as_u64().unwrap_or(1),
                    burst: st["burst"].as_u64().unwrap_or(1),
                    kind,
                }));
                ev["name"] = st["name"].clone();
                ev["from"] = st["from"].clone();
                ev["burst"] = st["burst"].clone();
                "ok".into()
            }
            "FaultOff" => {
                hh.arm_fault(None);
                "ok".into()
            }
            "Nop" => "ok".into(),
            "ParseNew" => {
                let txt = st["spec"].as_str().unwrap_or("").to_string();
                match &run.handle {
                    Some(hd) => match catch_unwind(AssertUnwindSafe(|| hd.parse_new_spec(&txt))) {
                        Ok(Ok(())) => "ok".into(),
                        Ok(Err(_)) => "err:parse".into(),
                        Err(e) => format!("panic:{}", panic_msg(e)),
                    },
                    None => "noop".into(),
                }
            }
            "FromPath" => {
                // FileSpec::try_from(path) -> logger -> one record -> shutdown; then list everything below root
                let raw_path = st["path"].as_str().unwrap_or("x.log").to_string();
                let abs = raw_path.starts_with("ABS/");
                let path = if abs {
                    root.join(&raw_path[4..]).display().to_string()
                } else {
                    raw_path.clone()
                };
                ev["path"] = json!(raw_path);
                ev["expect"] = st.get("expect").cloned().unwrap_or(json!(""));
                std::env::set_current_dir(&root).ok();
                next_id += 1;
                let id = next_id;
                let msg = obs::message(id, 20, 1);
                ev["id"] = json!(id);
                let r = catch_unwind(AssertUnwindSafe(|| -> Result<(), String> {
                    let fs = FileSpec::try_from(path.clone()).map_err(|e| format!("try_from:{e:?}"))?;
                    let (logger, handle) = Logger::with(LogSpecification::trace())
                        .log_to_file(fs)
                        .format_for_files(fmt_plain)
                        .error_channel(ErrorChannel::File(errfile.to_path_buf()))
                        .build()
                        .map_err(|e| format!("build:{e:?}"))?;
                    logger.log(
                        &log::Record::builder()
                            .args(format_args!("{}", msg))
                            .level(log::Level::Info)
                            .target("m")
                            .build(),
                    );
                    handle.shutdown();
                    drop(handle);
                    drop(logger);
                    Ok(())
                }));
                std::env::set_current_dir("/").ok();
                let mut found = Vec::new();
                fn walk(base: &Path, d: &Path, out: &mut Vec<Value>) {
                    if let Ok(rd) = std::fs::read_dir(d) {
                        let mut es: Vec<_> = rd.flatten().map(|e| e.path()).collect();
                        es.sort();
                        for p in es {
                            if p.is_dir() {
                                walk(base, &p, out);
                            } else {
                                let rel = p.strip_prefix(base).unwrap_or(&p).display().to_string();
                                let b = std::fs::read(&p).unwrap_or_default();
                                let (recs, clean) = obs::decode(&b, "\n");
                                out.push(json!({"path": rel, "clean": clean,
                                    "recs": recs.iter().map(|(i, l)| json!([i, l])).collect::<Vec<_>>()}));
                            }
                        }
                    }
                }
                walk(&root, &root, &mut found);
                ev["found"] = json!(found);
                match r {
                    Ok(Ok(())) => "ok".into(),
                    Ok(Err(e)) => format!("err:{e}"),
                    Err(e) => format!("panic:{}", panic_msg(e)),
                }
            }
            "Sleep" => {
                std::thread::sleep(Duration::from_millis(st["ms"].as_u64().unwrap_or(1)));
                "ok".into()
            }
            x => format!("unknown:{x}"),
        };
        ev["ret"] = json!(ret);
        ev["t"] = json!(hh.get_clock());
        ev["tstr"] = json!((crate::handler::epoch() + chrono::Duration::seconds(hh.get_clock()))
            .format("%Y-%m-%d_%H-%M-%S")
            .to_string());
        ev["inj"] = json!(hh.injected.swap(0, Ordering::SeqCst));
        ev["injp"] = json!(std::mem::take(&mut *hh.injected_names.lock().unwrap()));
        // the file-system effects this step performed, in order, with the injected failures (conform mode with faults)
        let fx = hh.take_fx();
        ev["fx"] = json!(fx.iter().map(|(n, _)| json!(n)).collect::<Vec<_>>());
        ev["fxf"] = json!(fx.iter().map(|(_, f)| json!(*f)).collect::<Vec<_>>());
        ev["retk"] = json!(ret.split(':').next().unwrap_or("?"));
        let faultleft: i64 = match hh.fault.lock().unwrap().clone() {
            Some(p) => {
                let c = *hh.fault_hits.lock().unwrap().get(&p.name).unwrap_or(&0);
                let last = p.from + p.burst - 1; // last failing hit
                last.saturating_sub(c.max(p.from - 1)) as i64
            }
            None => 0,
        };
        ev["faultleft"] = json!(faultleft);
        ev["fshits"] = json!(hh.fs_hits.load(Ordering::SeqCst));
        ev["errs"] = json!(new_errs(&errfile, &mut errpos));
        if want_pts {
            ev["pts"] = json!(hh
                .take_points()
                .iter()
                .map(|(a, b, _)| json!([a, b]))
                .collect::<Vec<_>>());
        }
        // creation-time table: a file is born in the step that created it, also when this step is not observed
        if let Ok(rd) = std::fs::read_dir(root.join(&cfg.subdir)) {
            for e in rd.flatten() {
                let _ = hh.birth(&e.path());
            }
        }
        let observing = obs_every
            || sync_point
            || matches!(
                op.as_str(),
                "Start" | "Trigger" | "Reopen" | "Reset" | "Elf" | "ExtRename" | "ExtRemove" | "ShutdownBegin"
            );
        ev["o"] = json!(observing);
        if observing {
            let dir = root.join(&cfg.subdir);
            let was = hh.record.swap(false, Ordering::SeqCst);
            let mut o = obs::observe(&dir, &cfg, link.as_ref(), raw);
            o["prev"] = json!(old_fams
                .iter()
                .map(|(d, c)| obs::observe(d, c, None, raw)["files"].clone())
                .collect::<Vec<_>>());
            o["moved"] = json!(moved
                .iter()
                .map(|m| {
                    let b = std::fs::read(movedir.join(m)).unwrap_or_default();
                    let (recs, clean) = obs::decode(&b, cfg.le());
                    json!({"name": m, "clean": clean, "recs": recs.iter().map(|(i, l)| json!([i, l])).collect::<Vec<_>>()})
                })
                .collect::<Vec<_>>());
            let curf = current_file(&dir, &cfg).unwrap_or_default();
            // anything the logger created outside the configured directories
            let mut known: Vec<String> =
                vec![cfg.subdir.clone(), "moved".into(), "link_to_current".into(), "addw".into()];
            known.extend(old_fams.iter().map(|(_, c)| c.subdir.clone()));
            let mut outside: Vec<String> = std::fs::read_dir(&root)
                .map(|rd| {
                    rd.flatten()
                        .map(|e| e.file_name().to_string_lossy().to_string())
                        .filter(|n| !known.contains(n))
                        .collect()
                })
                .unwrap_or_default();
            outside.sort();
            o["outside"] = json!(outside);
            o["pcur"] = json!(last_cur);
            o["cur"] = json!(curf);
            last_cur = curf;
            hh.record.store(was, Ordering::SeqCst);
            ev["obs"] = o;
        }
        if ev["ret"] == "ok" {
            for (iid, ilen) in pending_inner {
                // a nested record of a recursive call: an event of its own, before the outer one, without observation
                let mut iv = ev.clone();
                iv["id"] = json!(iid);
                iv["len"] = json!(ilen);
                iv["o"] = json!(false);
                iv["inner"] = json!(true);
                iv["probe"] = json!(false);
                if let Some(o) = iv.as_object_mut() {
                    o.remove("obs");
                    o.remove("hex");
                }
                if raw {
                    // byte-exact comparison (C15): what the nested record contributes to the file
                    iv["hex"] = json!(obs::hex(
                        format!("{}{}", obs::message(iid, ilen, cfg.le().len()), cfg.le()).as_bytes()
                    ));
                }
                emit(ex, iv);
            }
        }
        emit(ex, ev);
    }
    // make sure nothing keeps running into the next scenario
    let _ = catch_unwind(AssertUnwindSafe(|| {
        let old = std::mem::replace(&mut run, Run::none());
        drop(old);
    }));
    hh.arm_fault(None);
    hh.record.store(false, Ordering::SeqCst);
    // the error channel keeps pointing to this scenario's file until the next scenario redirects it
    if let Some(prev) = ex.prev_err.replace(errfile.clone()) {
        let _ = std::fs::remove_file(prev);
    }
    if !sc
        .get("keep")
        .and_then(|v| v.as_bool())
        .unwrap_or(false)
    {
        let _ = std::fs::remove_dir_all(&root);
    }
    n
}
