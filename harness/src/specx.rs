//! `flv spec <scenarios.ndjson> <trace.ndjson>`: executor for the log-specification family
//! (C02 filtering, C05 reconfiguration, C12 concurrent reconfiguration, C17 text forms).
//! Executes scenario steps on the real flexi_logger and records what it observes; it never judges.
//!
//! Data conventions (shared with spec/SpecDefs.tla, spec/SpecText.tla):
//! * levels: 0 off, 1 error, 2 warn, 3 info, 4 debug, 5 trace;
//! * module names, targets, messages, literal text filters: arrays of "letters" that are joined here;
//! * a specification: {"f":[{"n":[letters],"l":lvl}],"d":lvl|-1,"hasre":bool,"re":[letters]};
//! * a token: {"k":"w|lvl|eq|comma|slash|ws","s":chars,"v":level value or -1};
//! * a target: {"w":addresses writer W,"d":addresses the default channel,"m":[letters]}.
//! Trace lines carry sc, n, ev, ret; JSON ints only, no nulls.
use crate::handler::h;
use flexi_logger::filter::{LogLineFilter, LogLineWriter};
use flexi_logger::writers::LogWriter;
use flexi_logger::{
    DeferredNow, FlexiLoggerError, LogSpecBuilder, LogSpecification, Logger, LoggerHandle,
    ModuleFilter,
};
use log::{Level, LevelFilter, Log};
use serde_json::{json, Value};
use std::io::{BufRead, BufWriter, Write};
use std::panic::{catch_unwind, AssertUnwindSafe};
use std::path::{Path, PathBuf};
use std::sync::atomic::{AtomicBool, AtomicU32, Ordering};
use std::sync::{Arc, Mutex};
use std::time::{Duration, Instant};

// ------------------------------------------------------------------ small conversions
fn lf(v: i64) -> LevelFilter {
    match v {
        1 => LevelFilter::Error,
        2 => LevelFilter::Warn,
        3 => LevelFilter::Info,
        4 => LevelFilter::Debug,
        5 => LevelFilter::Trace,
        _ => LevelFilter::Off,
    }
}
fn lf_int(f: LevelFilter) -> i64 {
    match f {
        LevelFilter::Off => 0,
        LevelFilter::Error => 1,
        LevelFilter::Warn => 2,
        LevelFilter::Info => 3,
        LevelFilter::Debug => 4,
        LevelFilter::Trace => 5,
    }
}
const LEVELS: [Level; 5] = [
    Level::Error,
    Level::Warn,
    Level::Info,
    Level::Debug,
    Level::Trace,
];
fn join(v: &Value) -> String {
    v.as_array()
        .map(|a| {
            a.iter()
                .map(|x| x.as_str().unwrap_or(""))
                .collect::<String>()
        })
        .unwrap_or_default()
}
fn join_toks(v: &Value) -> String {
    v.as_array()
        .map(|a| {
            a.iter()
                .map(|x| x["s"].as_str().unwrap_or(""))
                .collect::<String>()
        })
        .unwrap_or_default()
}
fn panic_full(p: Box<dyn std::any::Any + Send>) -> String {
    if let Some(s) = p.downcast_ref::<&str>() {
        (*s).to_string()
    } else if let Some(s) = p.downcast_ref::<String>() {
        s.clone()
    } else {
        "?".to_string()
    }
}
fn panic_msg(p: Box<dyn std::any::Any + Send>) -> String {
    format!(
        "panic:{}",
        panic_full(p).chars().take(120).collect::<String>()
    )
}

/// Builds a LogSpecification from its JSON description.
/// how = "builder": LogSpecBuilder (always has a default entry, Off if none is given);
/// how = "mf": LogSpecBuilder::from_module_filters (no default entry if none is given);
/// how = "parse": LogSpecification::parse of the given text.
fn build_spec(s: &Value, how: &str, text: &str) -> Result<LogSpecification, String> {
    let re = if s["hasre"].as_bool().unwrap_or(false) {
        Some(regex::Regex::new(&join(&s["re"])).map_err(|e| format!("harness regex: {e}"))?)
    } else {
        None
    };
    let d = s["d"].as_i64().unwrap_or(-1);
    let empty = Vec::new();
    let fs = s["f"].as_array().unwrap_or(&empty);
    match how {
        "parse" => LogSpecification::parse(text).map_err(|e| format!("err:{e}")),
        "builder" => {
            let mut b = LogSpecBuilder::new();
            if d >= 0 {
                b.default(lf(d));
            }
            for f in fs {
                b.module(join(&f["n"]), lf(f["l"].as_i64().unwrap_or(0)));
            }
            Ok(b.build_with_textfilter(re))
        }
        _ => {
            let mut mfs = Vec::new();
            for f in fs {
                mfs.push(ModuleFilter {
                    module_name: Some(join(&f["n"])),
                    level_filter: lf(f["l"].as_i64().unwrap_or(0)),
                });
            }
            if d >= 0 {
                mfs.push(ModuleFilter {
                    module_name: None,
                    level_filter: lf(d),
                });
            }
            Ok(LogSpecBuilder::from_module_filters(&mfs).build_with_textfilter(re))
        }
    }
}
fn filters_json(s: &LogSpecification) -> Value {
    Value::Array(
        s.module_filters()
            .iter()
            .map(|m| {
                json!({"name": m.module_name.clone().unwrap_or_default(), "dflt": m.module_name.is_none(),
                       "l": lf_int(m.level_filter)})
            })
            .collect(),
    )
}

// ------------------------------------------------------------------ lexer (input preprocessing only)
/// Splits a specification string into the tokens of spec/SpecText.tla. A word is a maximal run of
/// characters other than '=' ',' '/' and white space; it is a level word iff its lower-case form is one.
pub fn lex(text: &str) -> Value {
    let mut out: Vec<Value> = Vec::new();
    let mut word = String::new();
    let mut ws = String::new();
    fn flush_word(word: &mut String, out: &mut Vec<Value>) {
        if !word.is_empty() {
            let v = match word.to_lowercase().as_str() {
                "off" => 0,
                "error" => 1,
                "warn" => 2,
                "info" => 3,
                "debug" => 4,
                "trace" => 5,
                _ => -1,
            };
            out.push(json!({"k": if v >= 0 {"lvl"} else {"w"}, "s": word.clone(), "v": v}));
            word.clear();
        }
    }
    fn flush_ws(ws: &mut String, out: &mut Vec<Value>) {
        if !ws.is_empty() {
            out.push(json!({"k": "ws", "s": ws.clone(), "v": -1}));
            ws.clear();
        }
    }
    for c in text.chars() {
        if c.is_whitespace() {
            flush_word(&mut word, &mut out);
            ws.push(c);
            continue;
        }
        flush_ws(&mut ws, &mut out);
        match c {
            '=' | ',' | '/' => {
                flush_word(&mut word, &mut out);
                let k = match c {
                    '=' => "eq",
                    ',' => "comma",
                    _ => "slash",
                };
                out.push(json!({"k": k, "s": c.to_string(), "v": -1}));
            }
            _ => word.push(c),
        }
    }
    flush_word(&mut word, &mut out);
    flush_ws(&mut ws, &mut out);
    Value::Array(out)
}
/// Is the text behind a single '/' a valid regular expression? (input fact for the grammar; true if n/a)
fn regex_ok(text: &str) -> bool {
    let parts: Vec<&str> = text.split('/').collect();
    if parts.len() == 2 {
        regex::Regex::new(parts[1]).is_ok()
    } else {
        true
    }
}

// ------------------------------------------------------------------ recording sinks
type Got = Arc<Mutex<Vec<(Level, String, String)>>>;
struct RecWriter {
    got: Got,
    max: LevelFilter,
}
impl LogWriter for RecWriter {
    fn write(&self, _now: &mut DeferredNow, record: &log::Record) -> std::io::Result<()> {
        // a writer that honours its own ceiling
        if record.level() <= self.max {
            self.got.lock().unwrap().push((
                record.level(),
                record.target().to_string(),
                record.args().to_string(),
            ));
        }
        Ok(())
    }
    fn flush(&self) -> std::io::Result<()> {
        Ok(())
    }
    fn max_log_level(&self) -> LevelFilter {
        // foreign code called from WritersHandle::reconfigure: in race scenarios (handler noise on) it takes a
        // seeded random time, which widens the window between the specification update and the gate update
        let seed = h().noise.load(Ordering::Relaxed);
        if seed != 0 {
            let x = h().noise.fetch_add(0x9E37_79B9_7F4A_7C15, Ordering::Relaxed);
            let z = (x ^ (x >> 29)).wrapping_mul(0xBF58_476D_1CE4_E5B9);
            std::thread::sleep(Duration::from_micros((z >> 40) % 300));
        }
        self.max
    }
}
/// A user-supplied line filter that "alone decides": it drops one level and passes the rest on.
struct DropLevel {
    seen: Arc<AtomicU32>,
    drop: i64,
}
impl LogLineFilter for DropLevel {
    fn write(
        &self,
        now: &mut DeferredNow,
        record: &log::Record,
        w: &dyn LogLineWriter,
    ) -> std::io::Result<()> {
        self.seen.fetch_add(1, Ordering::SeqCst);
        if lf_int(record.level().to_level_filter()) == self.drop {
            Ok(())
        } else {
            w.write(now, record)
        }
    }
}

struct Sys {
    logger: Box<dyn Log>,
    handle: LoggerHandle,
    prim: Got,
    wr: Got,
    seen: Arc<AtomicU32>,
}
struct Env {
    targets: Vec<(bool, bool, String)>, // (addresses W, addresses default, module / plain target)
    msgs: Vec<String>,
    writer_on: bool,
    writer_c: i64,
    lf_on: bool,
    lf_drop: i64,
}
impl Env {
    fn from(sc: &Value) -> Env {
        let empty = Vec::new();
        Env {
            targets: sc["targets"]
                .as_array()
                .unwrap_or(&empty)
                .iter()
                .map(|t| {
                    (
                        t["w"].as_bool().unwrap_or(false),
                        t["d"].as_bool().unwrap_or(true),
                        join(&t["m"]),
                    )
                })
                .collect(),
            msgs: sc["msgs"]
                .as_array()
                .unwrap_or(&empty)
                .iter()
                .map(join)
                .collect(),
            writer_on: sc["writer"]["on"].as_bool().unwrap_or(false),
            writer_c: sc["writer"]["c"].as_i64().unwrap_or(0),
            lf_on: sc["lf"]["on"].as_bool().unwrap_or(false),
            lf_drop: sc["lf"]["drop"].as_i64().unwrap_or(0),
        }
    }
    fn target_str(&self, i: usize) -> (String, String) {
        let (w, d, m) = &self.targets[i];
        if *w {
            let t = if *d {
                "{W,_Default}".to_string()
            } else {
                "{W}".to_string()
            };
            (t, m.clone())
        } else {
            // plain target: flexi_logger filters on the target, the module path is irrelevant
            (m.clone(), "zz::harness".to_string())
        }
    }
}

fn build_sys(spec: LogSpecification, env: &Env) -> Result<Sys, String> {
    build_sys_sf(spec, env, None)
}
/// `specfile`: start with a specification file (created with `spec` as content if it does not exist) and the
/// inotify watcher that applies every later change of the file through WritersHandle::set_new_spec.
fn build_sys_sf(spec: LogSpecification, env: &Env, specfile: Option<&Path>) -> Result<Sys, String> {
    let prim: Got = Arc::new(Mutex::new(Vec::new()));
    let wr: Got = Arc::new(Mutex::new(Vec::new()));
    let seen = Arc::new(AtomicU32::new(0));
    let mut l = Logger::with(spec)
        .error_channel(flexi_logger::ErrorChannel::DevNull) // repeated builds: "palette already initialized"
        .log_to_writer(Box::new(RecWriter {
            got: prim.clone(),
            max: LevelFilter::Trace,
        }));
    if env.writer_on {
        l = l.add_writer(
            "W",
            Box::new(RecWriter {
                got: wr.clone(),
                max: lf(env.writer_c),
            }),
        );
    }
    if env.lf_on {
        l = l.filter(Box::new(DropLevel {
            seen: seen.clone(),
            drop: env.lf_drop,
        }));
    }
    let (logger, handle) = match specfile {
        Some(f) => l.build_with_specfile(f),
        None => l.build(),
    }
    .map_err(|e| format!("err:{e}"))?;
    Ok(Sys {
        logger,
        handle,
        prim,
        wr,
        seen,
    })
}

/// grid of Log::enabled: targets x levels
fn enabled_grid(logger: &dyn Log, env: &Env) -> Value {
    let mut g = Vec::new();
    for i in 0..env.targets.len() {
        let (t, _) = env.target_str(i);
        let row: Vec<Value> = LEVELS
            .iter()
            .map(|l| {
                Value::Bool(logger.enabled(&log::Metadata::builder().level(*l).target(&t).build()))
            })
            .collect();
        g.push(Value::Array(row));
    }
    Value::Array(g)
}
/// Full probe: enabled() grid; one record per (message, target, level) pushed through Log::log and the
/// number of copies that reached the recording writer (dl), the line filter (fl), the writer W (dw); gate.
fn probe(sys: &Sys, env: &Env, full: bool) -> Value {
    let en = enabled_grid(sys.logger.as_ref(), env);
    let (mut dl, mut fl, mut dw) = (Vec::new(), Vec::new(), Vec::new());
    if full {
        for m in &env.msgs {
            let (mut dl_m, mut fl_m, mut dw_m) = (Vec::new(), Vec::new(), Vec::new());
            for i in 0..env.targets.len() {
                let (t, mp) = env.target_str(i);
                let (mut a, mut b, mut c) = (Vec::new(), Vec::new(), Vec::new());
                for l in LEVELS.iter() {
                    sys.prim.lock().unwrap().clear();
                    sys.wr.lock().unwrap().clear();
                    sys.seen.store(0, Ordering::SeqCst);
                    sys.logger.log(
                        &log::Record::builder()
                            .args(format_args!("{}", m))
                            .level(*l)
                            .target(&t)
                            .module_path(Some(&mp))
                            .file(Some("specx.rs"))
                            .line(Some(1))
                            .build(),
                    );
                    a.push(json!(sys.prim.lock().unwrap().len()));
                    b.push(json!(sys.seen.load(Ordering::SeqCst)));
                    c.push(json!(sys.wr.lock().unwrap().len()));
                }
                dl_m.push(Value::Array(a));
                fl_m.push(Value::Array(b));
                dw_m.push(Value::Array(c));
            }
            dl.push(Value::Array(dl_m));
            fl.push(Value::Array(fl_m));
            dw.push(Value::Array(dw_m));
        }
    }
    json!({"en": en, "dl": dl, "fl": fl, "dw": dw, "gate": lf_int(log::max_level()), "full": full})
}
/// Reference observation: how a logger that is freshly built with this specification filters
/// (taken before the system under test exists: building a logger sets the global max level).
fn reference(spec: Result<LogSpecification, String>, env: &Env) -> Value {
    match catch_unwind(AssertUnwindSafe(|| {
        spec.and_then(|s| build_sys(s, env))
            .map(|sys| probe(&sys, env, true))
    })) {
        Ok(Ok(p)) => p,
        _ => no_probe(),
    }
}
fn no_probe() -> Value {
    json!({"en": [], "dl": [], "fl": [], "dw": [], "gate": -1, "full": false})
}

// ------------------------------------------------------------------ trace output
struct Out<'a> {
    w: &'a mut dyn Write,
    sc: Value,
    n: i64,
    events: usize,
}
impl Out<'_> {
    fn emit(&mut self, mut v: Value) {
        v["sc"] = self.sc.clone();
        v["n"] = json!(self.n);
        self.n += 1;
        self.events += 1;
        serde_json::to_writer(&mut *self.w, &v).unwrap();
        self.w.write_all(b"\n").unwrap();
    }
}

/// describes the outcome of a parse call: ret, carried filters, text filter present
fn parse_outcome(
    r: &Result<Result<LogSpecification, FlexiLoggerError>, String>,
) -> (String, Value, bool) {
    match r {
        Err(p) => (p.clone(), json!([]), false),
        Ok(Ok(s)) => ("ok".to_string(), filters_json(s), s.text_filter().is_some()),
        Ok(Err(FlexiLoggerError::Parse(_, s))) => (
            "err".to_string(),
            filters_json(s),
            s.text_filter().is_some(),
        ),
        Ok(Err(e)) => (format!("err:other:{e}"), json!([]), false),
    }
}
fn parse_fields(ev: &mut Value, step: &Value) -> String {
    let text = if step.get("text").is_some() {
        step["text"].as_str().unwrap_or("").to_string()
    } else {
        join_toks(&step["toks"])
    };
    ev["text"] = json!(text);
    ev["toks"] = lex(&text);
    ev["src"] = step.get("toks").cloned().unwrap_or(json!([]));
    ev["hassrc"] = json!(step.get("toks").is_some());
    ev["reok"] = json!(regex_ok(&text));
    text
}

// ------------------------------------------------------------------ kind "ops": C02, C05
fn run_ops(sc: &Value, out: &mut Out) {
    let env = Env::from(sc);
    let full = sc["probe"].as_str().unwrap_or("full") == "full";
    let mut sys: Option<Sys> = None;
    let empty = Vec::new();
    // references first (optional): for every step that names a specification or a string, the observation
    // of a fresh logger built with it
    let want_refs = sc["refs"].as_bool().unwrap_or(false);
    let mut refs: Vec<Value> = Vec::new();
    if want_refs {
        for step in sc["steps"].as_array().unwrap_or(&empty) {
            let how = step["how"].as_str().unwrap_or("mf");
            refs.push(match step["op"].as_str().unwrap_or("") {
                "Build" => reference(
                    build_spec(&step["spec"], how, &join_toks(&step["rtoks"])),
                    &env,
                ),
                "Set" | "Push" => reference(build_spec(&step["spec"], how, ""), &env),
                "ParseNew" | "ParsePush" => {
                    let text = if step.get("text").is_some() {
                        step["text"].as_str().unwrap_or("").to_string()
                    } else {
                        join_toks(&step["toks"])
                    };
                    reference(
                        catch_unwind(AssertUnwindSafe(|| LogSpecification::parse(&text)))
                            .map_err(panic_msg)
                            .and_then(|r| r.map_err(|e| format!("err:{e}"))),
                        &env,
                    )
                }
                _ => no_probe(),
            });
        }
    }
    for (k, step) in sc["steps"].as_array().unwrap_or(&empty).iter().enumerate() {
        let op = step["op"].as_str().unwrap_or("");
        let mut ev = json!({"ev": op});
        ev["ref"] = if want_refs {
            refs[k].clone()
        } else {
            no_probe()
        };
        let mut ret = "ok".to_string();
        match op {
            "Build" => {
                let how = step["how"].as_str().unwrap_or("mf");
                let text = join_toks(&step["rtoks"]);
                ev["how"] = json!(how);
                ev["spec"] = step["spec"].clone();
                ev["text"] = json!(text);
                sys = None; // the previous logger goes away first (log::max_level is global)
                let r = catch_unwind(AssertUnwindSafe(|| {
                    build_spec(&step["spec"], how, &text).and_then(|s| build_sys(s, &env))
                }));
                match r {
                    Ok(Ok(s)) => sys = Some(s),
                    Ok(Err(e)) => ret = e,
                    Err(p) => ret = panic_msg(p),
                }
            }
            "Set" | "Push" => {
                let how = step["how"].as_str().unwrap_or("mf");
                ev["how"] = json!(how);
                ev["spec"] = step["spec"].clone();
                if let Some(s) = sys.as_mut() {
                    let r = catch_unwind(AssertUnwindSafe(|| {
                        build_spec(&step["spec"], how, "").map(|spec| {
                            if op == "Set" {
                                s.handle.set_new_spec(spec)
                            } else {
                                s.handle.push_temp_spec(spec)
                            }
                        })
                    }));
                    match r {
                        Ok(Ok(())) => {}
                        Ok(Err(e)) => ret = e,
                        Err(p) => ret = panic_msg(p),
                    }
                } else {
                    ret = "nologger".to_string();
                }
            }
            "ParseNew" | "ParsePush" => {
                let text = parse_fields(&mut ev, step);
                ev["carried"] = json!([]);
                if let Some(s) = sys.as_mut() {
                    let r = catch_unwind(AssertUnwindSafe(|| {
                        if op == "ParseNew" {
                            s.handle.parse_new_spec(&text)
                        } else {
                            s.handle.parse_and_push_temp_spec(&text)
                        }
                    }));
                    match r {
                        Ok(Ok(())) => {}
                        Ok(Err(FlexiLoggerError::Parse(_, cs))) => {
                            ret = "err".to_string();
                            ev["carried"] = filters_json(&cs);
                        }
                        Ok(Err(e)) => ret = format!("err:other:{e}"),
                        Err(p) => ret = panic_msg(p),
                    }
                } else {
                    ret = "nologger".to_string();
                }
            }
            "Pop" => {
                if let Some(s) = sys.as_mut() {
                    if let Err(p) = catch_unwind(AssertUnwindSafe(|| s.handle.pop_temp_spec())) {
                        ret = panic_msg(p);
                    }
                } else {
                    ret = "nologger".to_string();
                }
            }
            x => ret = format!("unknown-op:{x}"),
        }
        ev["ret"] = json!(ret);
        ev["p"] = match sys.as_ref() {
            Some(s) => match catch_unwind(AssertUnwindSafe(|| probe(s, &env, full))) {
                Ok(p) => p,
                Err(p) => {
                    ev["ret"] = json!(panic_msg(p));
                    no_probe()
                }
            },
            None => no_probe(),
        };
        out.emit(ev);
    }
}

// ------------------------------------------------------------------ kind "text": C17
fn plain_grid(s: &LogSpecification, targets: &[String]) -> Value {
    Value::Array(
        targets
            .iter()
            .map(|t| {
                Value::Array(
                    LEVELS
                        .iter()
                        .map(|l| Value::Bool(s.enabled(*l, t)))
                        .collect(),
                )
            })
            .collect(),
    )
}
fn logger_grid(l: &dyn Log, targets: &[String]) -> Value {
    Value::Array(
        targets
            .iter()
            .map(|t| {
                Value::Array(
                    LEVELS
                        .iter()
                        .map(|lv| {
                            Value::Bool(
                                l.enabled(&log::Metadata::builder().level(*lv).target(t).build()),
                            )
                        })
                        .collect(),
                )
            })
            .collect(),
    )
}
fn run_text(sc: &Value, out: &mut Out, root: &Path) {
    let empty = Vec::new();
    let targets: Vec<String> = sc["targets"]
        .as_array()
        .unwrap_or(&empty)
        .iter()
        .map(join)
        .collect();
    for (k, step) in sc["steps"].as_array().unwrap_or(&empty).iter().enumerate() {
        let op = step["op"].as_str().unwrap_or("");
        match op {
            "Parse" => {
                let mut ev = json!({"ev": "Parse"});
                let text = parse_fields(&mut ev, step);
                let r = catch_unwind(AssertUnwindSafe(|| LogSpecification::parse(&text)))
                    .map_err(panic_msg);
                let (ret, filters, hasre) = parse_outcome(&r);
                ev["ret"] = json!(ret);
                ev["filters"] = filters;
                ev["hasre"] = json!(hasre);
                out.emit(ev);
            }
            "RoundTrip" => {
                let how = step["how"].as_str().unwrap_or("mf");
                let via = step["via"].as_str().unwrap_or("display");
                let mut ev = json!({"ev": "RoundTrip", "how": how, "via": via, "spec": step["spec"].clone(),
                                    "text": "", "g0": [], "g1": []});
                let attempt = || {
                    catch_unwind(AssertUnwindSafe(
                        || -> Result<(Value, Value, String), String> {
                            let s = build_spec(&step["spec"], how, "")?;
                            let g0 = plain_grid(&s, &targets);
                            match via {
                                "display" => {
                                    let text = s.to_string();
                                    let s1 = LogSpecification::parse(&text)
                                        .map_err(|e| format!("err:{e}"))?;
                                    Ok((g0, plain_grid(&s1, &targets), text))
                                }
                                "toml" => {
                                    let mut buf = Vec::new();
                                    s.to_toml(&mut buf).map_err(|e| format!("err:{e}"))?;
                                    let text = String::from_utf8_lossy(&buf).to_string();
                                    let s1 = LogSpecification::from_toml(&text)
                                        .map_err(|e| format!("err:{e}"))?;
                                    Ok((g0, plain_grid(&s1, &targets), text))
                                }
                                _ => {
                                    // specfile: the first start writes the file, the second start (with another
                                    // initial specification) must read the first one back
                                    let dir = root.join(format!("sf-{}-{}", sc["sc"], k));
                                    let _ = std::fs::remove_dir_all(&dir);
                                    let file = dir.join("spec.toml");
                                    let sink = || {
                                        Box::new(RecWriter {
                                            got: Arc::new(Mutex::new(Vec::new())),
                                            max: LevelFilter::Trace,
                                        })
                                    };
                                    {
                                        let (_l, _h) = Logger::with(s)
                                            .log_to_writer(sink())
                                            .build_with_specfile(&file)
                                            .map_err(|e| format!("err:{e}"))?;
                                    }
                                    let text = std::fs::read_to_string(&file)
                                        .map_err(|e| format!("err:{e}"))?;
                                    let other = if step["spec"]["d"].as_i64() == Some(5) {
                                        LogSpecification::off()
                                    } else {
                                        LogSpecification::trace()
                                    };
                                    let (l2, _h2) = Logger::with(other)
                                        .log_to_writer(sink())
                                        .build_with_specfile(&file)
                                        .map_err(|e| format!("err:{e}"))?;
                                    let g1 = logger_grid(l2.as_ref(), &targets);
                                    let _ = std::fs::remove_dir_all(&dir);
                                    Ok((g0, g1, text))
                                }
                            }
                        },
                    ))
                    .map_err(panic_full)
                };
                let mut r = attempt();
                if via == "specfile" {
                    // Every start with a specfile creates an inotify instance that lives until the
                    // debouncer thread notices the drop (up to 250 ms); the per-user limit (128) is
                    // an environment resource this harness must not exhaust: pace, and retry once
                    // the instances have been released.
                    let exhausted = |r: &Result<Result<(Value, Value, String), String>, String>| {
                        let m = match r {
                            Err(m) | Ok(Err(m)) => m.as_str(),
                            _ => "",
                        };
                        m.contains("Too many open files")
                            || m.contains("code: 24")
                            || m.contains("os error 24")
                            || m.contains("MaxFilesWatch")
                    };
                    let mut tries = 0;
                    while exhausted(&r) && tries < 4 {
                        std::thread::sleep(Duration::from_millis(1500));
                        r = attempt();
                        tries += 1;
                    }
                    std::thread::sleep(Duration::from_millis(12));
                }
                match r.map_err(|m| format!("panic:{}", m.chars().take(120).collect::<String>())) {
                    Ok(Ok((g0, g1, text))) => {
                        ev["g0"] = g0;
                        ev["g1"] = g1;
                        ev["text"] = json!(text);
                        ev["ret"] = json!("ok");
                    }
                    Ok(Err(e)) => ev["ret"] = json!(e),
                    Err(p) => ev["ret"] = json!(p),
                }
                out.emit(ev);
            }
            x => out.emit(json!({"ev": "Unknown", "ret": format!("unknown-op:{x}")})),
        }
    }
}

// ------------------------------------------------------------------ kind "conc": C12
static RACE_HOLD: AtomicBool = AtomicBool::new(false);
#[derive(Debug, PartialEq)]
enum Where {
    Parked(String),
    Done,
    Timeout,
}
/// waits until thread `id` has consumed its token and is parked again (or has finished)
fn wait_settled(id: &str, done: &AtomicBool, timeout: Duration) -> Where {
    let hh = h();
    let deadline = Instant::now() + timeout;
    let mut s = hh.sched.lock().unwrap();
    loop {
        let tokens = s.tokens.get(id).copied().unwrap_or(0);
        if tokens == 0 {
            if let Some(p) = s.parked.get(id) {
                return Where::Parked(p.clone());
            }
            if done.load(Ordering::SeqCst) {
                return Where::Done;
            }
        }
        let now = Instant::now();
        if now >= deadline {
            return Where::Timeout;
        }
        let (g, _) = hh
            .cv
            .wait_timeout(s, (deadline - now).min(Duration::from_millis(2)))
            .unwrap();
        s = g;
    }
}
fn where_str(w: &Where) -> String {
    match w {
        Where::Parked(p) => p.clone(),
        Where::Done => "done".to_string(),
        Where::Timeout => "timeout".to_string(),
    }
}

fn run_conc(sc: &Value, out: &mut Out, root: &Path) {
    let env = Env::from(sc);
    // a further source of concurrent changes: the specfile watcher (op "File" rewrites the file)
    let with_specfile = sc["specfile"].as_bool().unwrap_or(false);
    let sf_dir = root.join(format!("c12sf-{}", sc["sc"]));
    let sf_file = sf_dir.join("spec.toml");
    if with_specfile {
        let _ = std::fs::remove_dir_all(&sf_dir);
        let _ = std::fs::create_dir_all(&sf_dir);
    }
    let empty = Vec::new();
    let progs = sc["progs"].as_array().unwrap_or(&empty).clone();
    let nthreads = progs.len();
    let ids: Vec<String> = (1..=nthreads).map(|i| format!("T{i}")).collect();
    let block_ms = sc["block_ms"].as_u64().unwrap_or(300);

    // reference observations of the initial and of every submitted specification
    out.emit(
        json!({"ev": "Ref", "ret": "ok", "init": true, "spec": sc["init"].clone(),
                    "p": reference(build_spec(&sc["init"], "mf", ""), &env)}),
    );
    let mut seen: Vec<Value> = Vec::new();
    for prog in &progs {
        for call in prog.as_array().unwrap_or(&empty) {
            let op = call["op"].as_str().unwrap_or("");
            if (op == "Set" || op == "Push" || op == "File") && !seen.contains(&call["spec"]) {
                seen.push(call["spec"].clone());
                out.emit(
                    json!({"ev": "Ref", "ret": "ok", "init": false, "spec": call["spec"].clone(),
                                "p": reference(build_spec(&call["spec"], "mf", ""), &env)}),
                );
            }
        }
    }
    let mut ev = json!({"ev": "Build", "spec": sc["init"].clone(), "how": "mf"});
    let sys = match catch_unwind(AssertUnwindSafe(|| {
        build_spec(&sc["init"], "mf", "")
            .and_then(|s| build_sys_sf(s, &env, if with_specfile { Some(sf_file.as_path()) } else { None }))
    })) {
        Ok(Ok(s)) => s,
        Ok(Err(e)) => {
            ev["ret"] = json!(e);
            ev["p"] = no_probe();
            out.emit(ev);
            return;
        }
        Err(p) => {
            ev["ret"] = json!(panic_msg(p));
            ev["p"] = no_probe();
            out.emit(ev);
            return;
        }
    };
    ev["ret"] = json!("ok");
    ev["p"] = probe(&sys, &env, true);
    out.emit(ev);

    let id_refs: Vec<&str> = ids.iter().map(String::as_str).collect();
    h().sched_reset(&id_refs);
    let dones: Vec<Arc<AtomicBool>> = (0..nthreads)
        .map(|_| Arc::new(AtomicBool::new(false)))
        .collect();
    let panics: Arc<Mutex<Vec<String>>> = Arc::new(Mutex::new(Vec::new()));
    let mut joins = Vec::new();
    for (i, prog) in progs.iter().enumerate() {
        let id = ids[i].clone();
        let done = dones[i].clone();
        let panics = panics.clone();
        let mut hd = sys.handle.clone();
        let prog = prog.clone();
        let (sf_dir, sf_file) = (sf_dir.clone(), sf_file.clone());
        joins.push(std::thread::spawn(move || {
            crate::handler::set_tid(&id);
            let _ = flexi_logger::verif_hooks::point("sc:start", None);
            // free-running races: all threads leave this spin barrier within nanoseconds of each other
            while RACE_HOLD.load(Ordering::Acquire) {
                std::hint::spin_loop();
            }
            let r = catch_unwind(AssertUnwindSafe(|| {
                let empty = Vec::new();
                for call in prog.as_array().unwrap_or(&empty) {
                    match call["op"].as_str().unwrap_or("") {
                        "Set" => {
                            if let Ok(s) = build_spec(&call["spec"], "mf", "") {
                                hd.set_new_spec(s);
                            }
                        }
                        "Push" => {
                            if let Ok(s) = build_spec(&call["spec"], "mf", "") {
                                hd.push_temp_spec(s);
                            }
                        }
                        "Pop" => hd.pop_temp_spec(),
                        "Sleep" => std::thread::sleep(Duration::from_millis(call["ms"].as_u64().unwrap_or(1))),
                        "File" => {
                            // the user edits the specification file (atomically: write aside, rename over it)
                            if let Ok(s) = build_spec(&call["spec"], "mf", "") {
                                let mut buf = Vec::new();
                                if s.to_toml(&mut buf).is_ok() {
                                    let tmp = sf_dir.join(format!("edit-{}.tmp", id));
                                    if std::fs::write(&tmp, &buf).is_ok() {
                                        let _ = std::fs::rename(&tmp, &sf_file);
                                    }
                                }
                            }
                        }
                        _ => {}
                    }
                }
            }));
            if let Err(p) = r {
                panics.lock().unwrap().push(panic_msg(p));
            }
            // the clone must not be dropped while others still run their calls: keep it until released
            done.store(true, Ordering::SeqCst);
            h().cv.notify_all();
            hd
        }));
    }
    let long = Duration::from_millis(5000);
    let short = Duration::from_millis(block_ms);
    let mut diverged = false;
    for (i, id) in ids.iter().enumerate() {
        if wait_settled(id, &dones[i], long) != Where::Parked("sc:start".to_string()) {
            diverged = true;
        }
    }
    let mut calls_done = vec![0usize; nthreads];
    let release_and_wait = |i: usize, t: Duration| -> Where {
        h().release(&ids[i], 1);
        wait_settled(&ids[i], &dones[i], t)
    };
    for step in sc["steps"].as_array().unwrap_or(&empty) {
        if step.get("t").is_none() {
            continue; // the Build entry of the model's history
        }
        let t = step["t"].as_u64().unwrap_or(1) as usize;
        let st = step["st"].as_str().unwrap_or("");
        let mut ev = json!({"ev": "Step", "t": t as i64, "st": st});
        if diverged || t == 0 || t > nthreads {
            ev["ret"] = json!("skipped");
            ev["at"] = json!("-");
            ev["gate"] = json!(lf_int(log::max_level()));
            out.emit(ev);
            continue;
        }
        let i = t - 1;
        let mut ret = "ok";
        let at = match st {
            "prep" => release_and_wait(i, long),
            "spec" => {
                let cur = wait_settled(&ids[i], &dones[i], long);
                let mut w = cur;
                if w != Where::Parked("sc:sns_enter".to_string()) {
                    w = release_and_wait(i, long);
                }
                if w == Where::Parked("sc:sns_enter".to_string()) {
                    // may block on the specification lock if another thread holds it
                    w = release_and_wait(i, short);
                    if w == Where::Timeout {
                        ret = "blocked";
                    }
                }
                w
            }
            "gate" => {
                let mut w = release_and_wait(i, long);
                calls_done[i] += 1;
                let ncalls = progs[i].as_array().map(Vec::len).unwrap_or(0);
                if w == Where::Parked("sc:sns_exit".to_string()) && calls_done[i] >= ncalls {
                    w = release_and_wait(i, long); // the call returns, the thread ends
                }
                w
            }
            _ => Where::Timeout,
        };
        if ret == "blocked" || at == Where::Timeout {
            diverged = true;
        }
        ev["ret"] = json!(if at == Where::Timeout && ret == "ok" {
            "stuck"
        } else {
            ret
        });
        ev["at"] = json!(where_str(&at));
        ev["gate"] = json!(lf_int(log::max_level()));
        out.emit(ev);
    }
    // let everything that is still on its way finish, then observe
    let free_run = sc["steps"].as_array().map(|a| a.iter().all(|s| s.get("t").is_none())).unwrap_or(true);
    if free_run {
        h().noise.store(sc["sc"].as_u64().unwrap_or(1) * 2654435761 + 1, Ordering::SeqCst);
        RACE_HOLD.store(true, Ordering::Release);
    }
    h().sched_off();
    if free_run {
        std::thread::sleep(Duration::from_micros(300)); // everybody has left the controller and spins
        RACE_HOLD.store(false, Ordering::Release);
    }
    let mut clones = Vec::new();
    for j in joins {
        if let Ok(hd) = j.join() {
            clones.push(hd);
        }
    }
    if with_specfile {
        // "once all changes have returned": the watcher applies an edit about 1 s (its debounce time) after the
        // last change of the file; wait for that, then until two observations 400 ms apart agree
        std::thread::sleep(Duration::from_millis(2600));
        let mut last = probe(&sys, &env, false).to_string();
        for _ in 0..20 {
            std::thread::sleep(Duration::from_millis(400));
            let now = probe(&sys, &env, false).to_string();
            if now == last {
                break;
            }
            last = now;
        }
    }
    h().noise.store(0, Ordering::SeqCst);
    let ps = panics.lock().unwrap().clone();
    let mut ev = json!({"ev": "End", "sched": if diverged {"diverged"} else {"replayed"}});
    ev["ret"] = json!(if ps.is_empty() {
        "ok".to_string()
    } else {
        ps[0].clone()
    });
    ev["p"] = probe(&sys, &env, true);
    out.emit(ev);
    drop(clones);
    drop(sys);
    if with_specfile {
        let _ = std::fs::remove_dir_all(&sf_dir);
    }
}

// ------------------------------------------------------------------ driver
fn run_scenario(sc: &Value, w: &mut dyn Write, root: &Path) -> usize {
    let mut out = Out {
        w,
        sc: sc["sc"].clone(),
        n: 0,
        events: 0,
    };
    let kind = sc["kind"].as_str().unwrap_or("ops").to_string();
    let env = Env::from(sc);
    let nthreads = sc["progs"].as_array().map(Vec::len).unwrap_or(0);
    let mut begin = json!({"ev": "Begin", "ret": "ok", "kind": kind,
        "origin": sc.get("origin").cloned().unwrap_or(json!("")),
        "targets": sc.get("targets").cloned().unwrap_or(json!([])),
        "msgs": sc.get("msgs").cloned().unwrap_or(json!([])),
        "writer": {"on": env.writer_on, "c": env.writer_c},
        "lf": {"on": env.lf_on, "drop": env.lf_drop},
        "init": sc.get("init").cloned().unwrap_or(json!({"f": [], "d": -1, "hasre": false, "re": []})),
        "progs": sc.get("progs").cloned().unwrap_or(json!([])),
        "norm": {"kind": kind, "writer": env.writer_on, "ceiling": env.writer_c, "linefilter": env.lf_on,
                 "threads": nthreads as i64}});
    if let Some(x) = sc.get("tag") {
        begin["tag"] = x.clone();
    }
    out.emit(begin);
    match kind.as_str() {
        "ops" => run_ops(sc, &mut out),
        "text" => run_text(sc, &mut out, root),
        "conc" => run_conc(sc, &mut out, root),
        x => out.emit(json!({"ev": "Unknown", "ret": format!("unknown-kind:{x}")})),
    }
    out.events
}

pub fn run(args: &[String]) {
    if args.len() < 4 {
        eprintln!("usage: flv spec <scenarios.ndjson> <trace.ndjson>");
        std::process::exit(2);
    }
    let root: PathBuf = {
        let base = std::env::var("VERIF_TMP").unwrap_or_else(|_| {
            if Path::new("/dev/shm").is_dir() {
                "/dev/shm".to_string()
            } else {
                std::env::temp_dir().display().to_string()
            }
        });
        PathBuf::from(base).join(format!("flv-spec-{}", std::process::id()))
    };
    std::fs::create_dir_all(&root).unwrap();
    let f = std::fs::File::open(&args[2]).expect("scenario file");
    let mut out = BufWriter::new(std::fs::File::create(&args[3]).expect("trace file"));
    let (mut events, mut scs) = (0usize, 0usize);
    for line in std::io::BufReader::new(f).lines() {
        let line = line.unwrap();
        if line.trim().is_empty() {
            continue;
        }
        let sc: Value = serde_json::from_str(&line).expect("scenario json");
        // a fresh thread per scenario isolates thread-local state of the code under test
        let n = std::thread::scope(|s| {
            s.spawn(|| run_scenario(&sc, &mut out, &root))
                .join()
                .unwrap_or(0)
        });
        events += n;
        scs += 1;
    }
    out.flush().unwrap();
    let _ = std::fs::remove_dir_all(&root);
    println!("spec scenarios={scs} events={events}");
}
