//! Projection of the observable state: directory listing with the harness's own strict
//! parse of file names (independent of flexi_logger's file_spec.rs) and decoded contents.
use crate::handler::{h, naive_to_civil};
use chrono::{NaiveDate, NaiveDateTime};
use serde_json::{json, Value};
use std::io::Read;
use std::path::{Path, PathBuf};

#[derive(Clone, Debug)]
pub struct Cfg {
    pub naming: String, // Num NumD Ts TsD TsC TsCD
    pub fmt: String,    // timestamp infix format in use (std or custom)
    pub cur: String,    // current-file infix token ("" for direct namings)
    pub rot: bool,
    pub size: i64,   // -1 = no size criterion
    pub age: String, // "" s m h d
    pub k: i64,      // KeepLogFiles limit or -1
    pub m: i64,      // KeepCompressedFiles limit or -1
    pub append: bool,
    pub mode: String, // direct capture buf bufflush async
    pub cap: usize,
    pub pool: usize,
    pub mcapa: usize,
    pub flush_ms: u64,
    pub crlf: bool,
    pub basename: String,
    pub discr: Option<String>,
    pub suffix: Option<String>,
    pub use_ts: bool,
    pub link: bool,
    pub bg: bool,
    pub utc: bool,
    pub fw: bool,
    pub asadd: bool,
    pub via: String, // logger | flw
    pub subdir: String,
    pub maxlvl: String, // max level for the file writer (flw) - "" = default
    pub addw: bool,     // register an additional writer "A"
}

pub const STD_FMT: &str = "r%Y-%m-%d_%H-%M-%S";

fn gs(v: &Value, k: &str, d: &str) -> String {
    v.get(k).and_then(|x| x.as_str()).unwrap_or(d).to_string()
}
fn gi(v: &Value, k: &str, d: i64) -> i64 {
    v.get(k).and_then(|x| x.as_i64()).unwrap_or(d)
}
fn gb(v: &Value, k: &str, d: bool) -> bool {
    v.get(k).and_then(|x| x.as_bool()).unwrap_or(d)
}

impl Cfg {
    pub fn from_json(v: &Value) -> Cfg {
        let naming = gs(v, "naming", "Num");
        let rot = gb(v, "rot", true);
        let fmt = match naming.as_str() {
            "TsC" | "TsCD" => gs(v, "fmt", "r%Y-%m-%d_%H-%M"),
            _ => STD_FMT.to_string(),
        };
        let cur = match naming.as_str() {
            "Num" | "Ts" => "rCURRENT".to_string(),
            "TsC" => gs(v, "cur", "rNOW"),
            _ => String::new(),
        };
        Cfg {
            naming,
            fmt,
            cur,
            rot,
            size: gi(v, "size", -1),
            age: gs(v, "age", ""),
            k: gi(v, "k", -1),
            m: gi(v, "m", -1),
            append: gb(v, "append", false),
            mode: gs(v, "mode", "direct"),
            cap: gi(v, "cap", 64) as usize,
            pool: gi(v, "pool", 2) as usize,
            mcapa: gi(v, "mcapa", 32) as usize,
            flush_ms: gi(v, "flush_ms", 0) as u64,
            crlf: gb(v, "crlf", false),
            basename: gs(v, "basename", "app"),
            discr: v
                .get("discr")
                .and_then(|x| x.as_str())
                .map(|s| s.to_string()),
            suffix: match v.get("suffix") {
                None => Some("log".to_string()),
                Some(Value::String(s)) if s == "-" => None,
                Some(Value::String(s)) => Some(s.clone()),
                _ => None,
            },
            use_ts: gb(v, "use_ts", false),
            link: gb(v, "link", false),
            bg: gb(v, "bg", false),
            utc: gb(v, "utc", false),
            fw: gb(v, "fw", false),
            asadd: gb(v, "asadd", false),
            via: gs(v, "via", "logger"),
            subdir: gs(v, "subdir", "logs"),
            maxlvl: gs(v, "maxlvl", ""),
            addw: gb(v, "addw", false),
        }
    }
    pub fn clean(&self) -> bool {
        self.rot && (self.k >= 0 || self.m >= 0)
    }
    pub fn le(&self) -> &'static str {
        if self.crlf {
            "\r\n"
        } else {
            "\n"
        }
    }
    pub fn is_num(&self) -> bool {
        self.naming == "Num" || self.naming == "NumD"
    }
    /// regex matching the fixed name part (basename[_discr][_starttime])
    pub fn fixed_regex(&self) -> String {
        let mut parts: Vec<String> = Vec::new();
        if !self.basename.is_empty() {
            parts.push(regex::escape(&self.basename));
        }
        if let Some(d) = &self.discr {
            parts.push(regex::escape(d));
        }
        if self.use_ts {
            parts.push(r"(?P<st>\d{4}-\d{2}-\d{2}_\d{2}-\d{2}-\d{2})".to_string());
        }
        parts.join("_")
    }
    pub fn fixed_is_empty(&self) -> bool {
        self.basename.is_empty() && self.discr.is_none() && !self.use_ts
    }
}

pub fn parse_ts(infix: &str, fmt: &str) -> Option<i64> {
    if let Ok(dt) = NaiveDateTime::parse_from_str(infix, fmt) {
        // reject non-canonical renderings (parse_from_str tolerates missing padding)
        if dt.format(fmt).to_string() == infix {
            return Some(naive_to_civil(&dt));
        }
        return None;
    }
    if let Ok(d) = NaiveDate::parse_from_str(infix, fmt) {
        if d.format(fmt).to_string() == infix {
            return Some(naive_to_civil(&d.and_hms_opt(0, 0, 0).unwrap()));
        }
    }
    None
}

#[derive(Debug, Clone)]
pub struct Parsed {
    pub fam: bool,
    pub k: &'static str, // cur plain num ts | foreign
    pub i: i64,
    pub r: i64,
    pub z: bool,
    pub st: i64,
}

pub fn parse_name(cfg: &Cfg, name: &str) -> Parsed {
    let foreign = Parsed {
        fam: false,
        k: "foreign",
        i: -1,
        r: -1,
        z: false,
        st: -1,
    };
    let mut s = name;
    let mut z = false;
    if let Some(x) = s.strip_suffix(".gz") {
        z = true;
        s = x;
    }
    if let Some(sfx) = &cfg.suffix {
        match s.strip_suffix(&format!(".{sfx}")) {
            Some(x) => s = x,
            None => return foreign,
        }
    }
    let fx = cfg.fixed_regex();
    let re = regex::Regex::new(&format!("^{fx}(?P<rest>.*)$")).unwrap();
    let caps = match re.captures(s) {
        Some(c) => c,
        None => return foreign,
    };
    let st = caps
        .name("st")
        .and_then(|m| parse_ts(m.as_str(), "%Y-%m-%d_%H-%M-%S"))
        .unwrap_or(-1);
    let mut rest = caps.name("rest").map(|m| m.as_str()).unwrap_or("");
    if rest.is_empty() {
        // the name without infix belongs to the family only if no rotation is configured
        if z || cfg.fixed_is_empty() || cfg.rot {
            return foreign;
        }
        return Parsed {
            fam: true,
            k: "plain",
            i: -1,
            r: -1,
            z,
            st,
        };
    }
    if !cfg.rot {
        // without rotation there is no infix
        return foreign;
    }
    if !cfg.fixed_is_empty() {
        match rest.strip_prefix('_') {
            Some(x) => rest = x,
            None => return foreign,
        }
    }
    if !cfg.cur.is_empty() && rest == cfg.cur {
        if z {
            return foreign;
        }
        return Parsed {
            fam: true,
            k: "cur",
            i: -1,
            r: -1,
            z,
            st,
        };
    }
    if cfg.is_num() {
        let re = regex::Regex::new(r"^r(\d{5,})$").unwrap();
        if let Some(c) = re.captures(rest) {
            if let Ok(i) = c[1].parse::<i64>() {
                return Parsed {
                    fam: true,
                    k: "num",
                    i,
                    r: -1,
                    z,
                    st,
                };
            }
        }
        return foreign;
    }
    // timestamps
    let (base, r) = match rest.find(".restart-") {
        Some(p) => {
            let num = &rest[p + 9..];
            if num.len() == 4 && num.bytes().all(|b| b.is_ascii_digit()) {
                (&rest[..p], num.parse::<i64>().unwrap())
            } else {
                return foreign;
            }
        }
        None => (rest, -1),
    };
    match parse_ts(base, &cfg.fmt) {
        Some(i) => Parsed {
            fam: true,
            k: "ts",
            i,
            r,
            z,
            st,
        },
        None => foreign,
    }
}

/// message text for record `id` with a total line length `len` (incl. line ending)
pub fn message(id: u64, len: usize, le: usize) -> String {
    let mlen = len.saturating_sub(le);
    if mlen >= 8 {
        format!("{:07}|{}", id, "x".repeat(mlen - 8))
    } else {
        "~".repeat(mlen)
    }
}
pub fn is_anonymous(len: usize, le: usize) -> bool {
    len.saturating_sub(le) < 8
}

/// decode file bytes into records [[id,len],…]; clean=false on any stray byte
pub fn decode(bytes: &[u8], le: &str) -> (Vec<(u64, usize)>, bool) {
    let mut recs = Vec::new();
    let mut rest = bytes;
    let leb = le.as_bytes();
    while !rest.is_empty() {
        let pos = match rest.windows(leb.len()).position(|w| w == leb) {
            Some(p) => p,
            None => return (recs, false),
        };
        let line = &rest[..pos];
        let total = pos + leb.len();
        if line.iter().all(|b| *b == b'~') && line.len() < 8 {
            recs.push((0, total));
        } else if line.len() >= 8
            && line[..7].iter().all(|b| b.is_ascii_digit())
            && line[7] == b'|'
            && line[8..].iter().all(|b| *b == b'x')
        {
            let id: u64 = std::str::from_utf8(&line[..7]).unwrap().parse().unwrap();
            recs.push((id, total));
        } else {
            return (recs, false);
        }
        rest = &rest[total..];
    }
    (recs, true)
}

fn fnv(bytes: &[u8]) -> String {
    let mut hsh: u64 = 0xcbf29ce484222325;
    for b in bytes {
        hsh ^= *b as u64;
        hsh = hsh.wrapping_mul(0x100000001b3);
    }
    format!("{hsh:016x}")
}

pub fn read_maybe_gz(path: &Path, z: bool) -> (Vec<u8>, bool) {
    let raw = std::fs::read(path).unwrap_or_default();
    if z {
        let mut out = Vec::new();
        let ok = flate2::read::GzDecoder::new(&raw[..])
            .read_to_end(&mut out)
            .is_ok();
        (out, ok)
    } else {
        (raw, true)
    }
}

/// Observation of one directory. `raw` = include the raw bytes as hex (C15/C20).
pub fn observe(dir: &Path, cfg: &Cfg, link: Option<&PathBuf>, raw: bool) -> Value {
    let mut names: Vec<String> = match std::fs::read_dir(dir) {
        Ok(rd) => rd
            .flatten()
            .map(|e| e.file_name().to_string_lossy().to_string())
            .collect(),
        Err(_) => Vec::new(),
    };
    names.sort();
    let mut files = Vec::new();
    let mut foreign = Vec::new();
    for n in names {
        let p = dir.join(&n);
        let md = match std::fs::symlink_metadata(&p) {
            Ok(m) => m,
            Err(_) => continue,
        };
        let pr = if md.is_file() {
            parse_name(cfg, &n)
        } else {
            Parsed {
                fam: false,
                k: "foreign",
                i: -1,
                r: -1,
                z: false,
                st: -1,
            }
        };
        if pr.fam {
            let (bytes, gzok) = read_maybe_gz(&p, pr.z);
            let (recs, clean) = decode(&bytes, cfg.le());
            let bt = h().birth(&p).unwrap_or(-1);
            let mut f = json!({
                "name": n, "k": pr.k, "i": pr.i, "r": pr.r, "z": pr.z, "st": pr.st,
                "size": bytes.len(), "clean": clean && gzok, "bt": bt,
                "recs": recs.iter().map(|(id, l)| json!([id, l])).collect::<Vec<_>>(),
            });
            if raw {
                f["hex"] = json!(hex(&bytes));
            }
            // the harness's own rendering of the parsed instants (used by the name checks of C16)
            f["istr"] = json!(if pr.k == "ts" {
                (crate::handler::epoch() + chrono::Duration::seconds(pr.i))
                    .format(&cfg.fmt)
                    .to_string()
            } else {
                String::new()
            });
            f["ststr"] = json!(if pr.st >= 0 {
                (crate::handler::epoch() + chrono::Duration::seconds(pr.st))
                    .format("%Y-%m-%d_%H-%M-%S")
                    .to_string()
            } else {
                String::new()
            });
            files.push(f);
        } else {
            let (kind, bytes) = if md.is_file() {
                ("file", std::fs::read(&p).unwrap_or_default())
            } else if md.is_dir() {
                ("dir", Vec::new())
            } else {
                ("other", Vec::new())
            };
            use std::os::unix::fs::MetadataExt;
            foreign.push(json!({
                "name": n, "kind": kind, "size": bytes.len(), "sha": fnv(&bytes),
                "mtime": format!("{}.{}", md.mtime(), md.mtime_nsec()), "ino": md.ino(),
            }));
        }
    }
    // ids of whole records found in ANY regular file of the directory, whatever its name (C10)
    let mut anyids: Vec<u64> = Vec::new();
    if let Ok(rd) = std::fs::read_dir(dir) {
        for e in rd.flatten() {
            let p = e.path();
            if std::fs::symlink_metadata(&p).map(|m| m.is_file()).unwrap_or(false) {
                let z = p.extension().is_some_and(|x| x == "gz");
                let (bytes, _) = read_maybe_gz(&p, z);
                if bytes.len() < 4_000_000 {
                    for line in bytes.split(|b| *b == b'\n') {
                        let line = line.strip_suffix(b"\r").unwrap_or(line);
                        if line.len() >= 8 && line[..7].iter().all(|b| b.is_ascii_digit()) && line[7] == b'|' {
                            anyids.push(std::str::from_utf8(&line[..7]).unwrap().parse().unwrap());
                        }
                    }
                }
            }
        }
    }
    anyids.sort_unstable();
    anyids.dedup();
    let (lk, lk_ok) = match link {
        Some(l) => match std::fs::read_link(l) {
            Ok(t) => (
                t.file_name()
                    .map(|f| f.to_string_lossy().to_string())
                    .unwrap_or_default(),
                std::fs::metadata(l).map(|m| m.is_file()).unwrap_or(false)
                    && std::fs::canonicalize(l)
                        .ok()
                        .and_then(|c| c.parent().map(|p| p.to_path_buf()))
                        == std::fs::canonicalize(dir).ok(),
            ),
            Err(_) => (String::new(), false),
        },
        None => (String::new(), false),
    };
    // the structural name of the link's target (whether or not the target exists)
    let linkn = if lk.is_empty() {
        json!([])
    } else {
        let pn = parse_name(cfg, &lk);
        if pn.fam { json!([pn.k, pn.i, pn.r, pn.z]) } else { json!(["foreign", -1, -1, false]) }
    };
    json!({"files": files, "foreign": foreign, "link": lk, "link_ok": lk_ok, "linkn": linkn, "anyids": anyids})
}

pub fn hex(b: &[u8]) -> String {
    let mut s = String::with_capacity(b.len() * 2);
    for x in b {
        s.push_str(&format!("{x:02x}"));
    }
    s
}
pub fn unhex(s: &str) -> Vec<u8> {
    (0..s.len() / 2)
        .map(|i| u8::from_str_radix(&s[2 * i..2 * i + 2], 16).unwrap())
        .collect()
}
