//! flv - executes scenarios on the real flexi_logger and records traces. It never judges.
mod conc;
mod flw;
mod handler;
mod obs;
mod route;
mod specx;

use serde_json::Value;
use std::io::{BufRead, BufWriter, Write};
use std::path::PathBuf;

fn arg_after(args: &[String], flag: &str) -> Option<String> {
    args.iter()
        .position(|a| a == flag)
        .and_then(|i| args.get(i + 1).cloned())
}

fn default_root() -> PathBuf {
    let base = std::env::var("VERIF_TMP").unwrap_or_else(|_| {
        if std::path::Path::new("/dev/shm").is_dir() {
            "/dev/shm".to_string()
        } else {
            std::env::temp_dir().display().to_string()
        }
    });
    PathBuf::from(base).join(format!("flv-{}", std::process::id()))
}

fn main() {
    let args: Vec<String> = std::env::args().collect();
    if args.len() < 2 {
        eprintln!("usage: flv <flw|...> ...");
        std::process::exit(2);
    }
    // silence panic messages of the code under test; they are recorded as data
    std::panic::set_hook(Box::new(|_| {}));
    let _ = handler::h();
    match args[1].as_str() {
        "flw" => {
            let scen = &args[2];
            let trace = &args[3];
            let root = arg_after(&args, "--root")
                .map(PathBuf::from)
                .unwrap_or_else(default_root);
            let own_root = arg_after(&args, "--root").is_none();
            std::fs::create_dir_all(&root).unwrap();
            let flush_each = args.iter().any(|a| a == "--flush-each");
            if let Some(k) = arg_after(&args, "--crash-at") {
                handler::h()
                    .crash_at
                    .store(k.parse().unwrap(), std::sync::atomic::Ordering::SeqCst);
            }
            if let Some(n) = arg_after(&args, "--note") {
                *handler::h().crash_note.lock().unwrap() = Some(PathBuf::from(n));
            }
            let f = std::fs::File::open(scen).expect("scenario file");
            let mut out = BufWriter::new(std::fs::File::create(trace).expect("trace file"));
            let mut events = 0usize;
            let mut scs = 0usize;
            let mut prev_err: Option<PathBuf> = None;
            for line in std::io::BufReader::new(f).lines() {
                let line = line.unwrap();
                if line.trim().is_empty() {
                    continue;
                }
                let sc: Value = serde_json::from_str(&line).expect("scenario json");
                // one thread per scenario: flexi_logger formats into a thread-local buffer that keeps
                // stale bytes after a panic of the code under test; a fresh thread isolates scenarios
                let n = if flush_each {
                    // (crash children: every event line must reach the file before the next step)
                    std::thread::scope(|s| {
                        s.spawn(|| {
                            let mut ex = flw::Exec {
                                out: &mut out,
                                root: root.clone(),
                                flush_each,
                                prev_err: &mut prev_err,
                            };
                            flw::run_scenario(&sc, &mut ex)
                        })
                        .join()
                        .unwrap_or(0)
                    })
                } else {
                    // watchdog: the scenario thread writes into a shared buffer; if it makes no progress for
                    // `--hang-secs` (default 30 s), a Hang event is recorded for it and the process exits with
                    // status 5 (the driver restarts behind the scenario)
                    let buf: std::sync::Arc<std::sync::Mutex<Vec<u8>>> = Default::default();
                    let (tx, rx) = std::sync::mpsc::channel::<(usize, Option<PathBuf>)>();
                    let (b2, sc2, root2, pe) = (buf.clone(), sc.clone(), root.clone(), prev_err.clone());
                    std::thread::spawn(move || {
                        struct W(std::sync::Arc<std::sync::Mutex<Vec<u8>>>);
                        impl Write for W {
                            fn write(&mut self, b: &[u8]) -> std::io::Result<usize> {
                                self.0.lock().unwrap().extend_from_slice(b);
                                Ok(b.len())
                            }
                            fn flush(&mut self) -> std::io::Result<()> {
                                Ok(())
                            }
                        }
                        let mut w = W(b2);
                        let mut pe = pe;
                        let n = {
                            let mut ex = flw::Exec {
                                out: &mut w,
                                root: root2,
                                flush_each: false,
                                prev_err: &mut pe,
                            };
                            flw::run_scenario(&sc2, &mut ex)
                        };
                        tx.send((n, pe)).ok();
                    });
                    let hang_secs: u64 = arg_after(&args, "--hang-secs").and_then(|x| x.parse().ok()).unwrap_or(30);
                    let mut last_len = 0usize;
                    let n;
                    loop {
                        match rx.recv_timeout(std::time::Duration::from_secs(hang_secs)) {
                            Ok((k, pe)) => {
                                n = k;
                                prev_err = pe;
                                break;
                            }
                            Err(_) => {
                                let cur = buf.lock().map(|b| b.len()).unwrap_or(usize::MAX);
                                if cur != last_len && cur != usize::MAX {
                                    last_len = cur; // still making progress
                                    continue;
                                }
                                let partial = buf.lock().map(|b| b.clone()).unwrap_or_default();
                                out.write_all(&partial).unwrap();
                                let nlines = partial.iter().filter(|c| **c == b'\n').count();
                                writeln!(
                                    out,
                                    "{}",
                                    serde_json::json!({"sc": sc["sc"], "n": nlines + 1, "ev": "Hang", "ret": "hang", "retk": "hang",
                                        "o": false, "errs": [], "inj": 0, "injp": [], "faultleft": 0, "t": 0, "tstr": ""})
                                )
                                .unwrap();
                                out.flush().unwrap();
                                println!("flw scenarios={scs} events={events} HANG");
                                std::process::exit(5);
                            }
                        }
                    }
                    out.write_all(&buf.lock().unwrap()).unwrap();
                    n
                };
                events += n;
                scs += 1;
            }
            out.flush().unwrap();
            if own_root {
                let _ = std::fs::remove_dir_all(&root);
            }
            println!("flw scenarios={scs} events={events}");
        }
        "conc" => conc::run(&args),
        "conc-child" => conc::run_child(&args),
        "spec" => specx::run(&args),
        "route" => route::run(&args),
        "route-child" => route::run_child(&args),
        x => {
            eprintln!("unknown subcommand {x}");
            std::process::exit(2);
        }
    }
}
