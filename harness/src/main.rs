//! flv - executes scenarios on the real flexi_logger and records traces. It never judges.
mod flw;
mod handler;
mod obs;
mod route;
mod specx;

use serde_json::Value;
use std::io::{BufRead, BufWriter, Write};
use std::path::PathBuf;

fn arg_after(args: &[String], flag: &str) -> Option<String> {
    args.iter()
        .position(|a| a == flag)
        .and_then(|i| args.get(i + 1).cloned())
}

fn default_root() -> PathBuf {
    let base = std::env::var("VERIF_TMP").unwrap_or_else(|_| {
        if std::path::Path::new("/dev/shm").is_dir() {
            "/dev/shm".to_string()
        } else {
            std::env::temp_dir().display().to_string()
        }
    });
    PathBuf::from(base).join(format!("flv-{}", std::process::id()))
}

fn main() {
    let args: Vec<String> = std::env::args().collect();
    if args.len() < 2 {
        eprintln!("usage: flv <flw|...> ...");
        std::process::exit(2);
    }
    // silence panic messages of the code under test; they are recorded as data
    std::panic::set_hook(Box::new(|_| {}));
    let _ = handler::h();
    match args[1].as_str() {
        "flw" => {
            let scen = &args[2];
            let trace = &args[3];
            let root = arg_after(&args, "--root")
                .map(PathBuf::from)
                .unwrap_or_else(default_root);
            let own_root = arg_after(&args, "--root").is_none();
            std::fs::create_dir_all(&root).unwrap();
            let flush_each = args.iter().any(|a| a == "--flush-each");
            if let Some(k) = arg_after(&args, "--crash-at") {
                handler::h()
                    .crash_at
                    .store(k.parse().unwrap(), std::sync::atomic::Ordering::SeqCst);
            }
            if let Some(n) = arg_after(&args, "--note") {
                *handler::h().crash_note.lock().unwrap() = Some(PathBuf::from(n));
            }
            let f = std::fs::File::open(scen).expect("scenario file");
            let mut out = BufWriter::new(std::fs::File::create(trace).expect("trace file"));
            let mut events = 0usize;
            let mut scs = 0usize;
            let mut prev_err: Option<PathBuf> = None;
            for line in std::io::BufReader::new(f).lines() {
                let line = line.unwrap();
                if line.trim().is_empty() {
                    continue;
                }
                let sc: Value = serde_json::from_str(&line).expect("scenario json");
                // one thread per scenario: flexi_logger formats into a thread-local buffer that keeps
                // stale bytes after a panic of the code under test; a fresh thread isolates scenarios
                let n = std::thread::scope(|s| {
                    s.spawn(|| {
                        let mut ex = flw::Exec {
                            out: &mut out,
                            root: root.clone(),
                            flush_each,
                            prev_err: &mut prev_err,
                        };
                        flw::run_scenario(&sc, &mut ex)
                    })
                    .join()
                    .unwrap_or(0)
                });
                events += n;
                scs += 1;
            }
            out.flush().unwrap();
            if own_root {
                let _ = std::fs::remove_dir_all(&root);
            }
            println!("flw scenarios={scs} events={events}");
        }
        "spec" => specx::run(&args),
        "route" => route::run(&args),
        "route-child" => route::run_child(&args),
        x => {
            eprintln!("unknown subcommand {x}");
            std::process::exit(2);
        }
    }
}
