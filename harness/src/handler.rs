//! The one process-wide handler plugged into flexi_logger's verif_hooks:
//! virtual clock, creation-time table, and the `point` dispatcher
//! (record / fault / crash / schedule).
use chrono::{DateTime, Local, NaiveDate, NaiveDateTime, TimeZone};
use flexi_logger::verif_hooks as vh;
use std::collections::{HashMap, HashSet};
use std::os::unix::fs::MetadataExt;
use std::path::Path;
use std::sync::atomic::{AtomicBool, AtomicI64, AtomicU64, Ordering};
use std::sync::{Arc, Condvar, Mutex, OnceLock};
use std::time::{Duration, Instant};

/// civil seconds are counted from 2030-01-01T00:00:00 local wall time
pub fn epoch() -> NaiveDateTime {
    NaiveDate::from_ymd_opt(2030, 1, 1)
        .unwrap()
        .and_hms_opt(0, 0, 0)
        .unwrap()
}
pub fn civil_to_dt(c: i64) -> DateTime<Local> {
    let n = epoch() + chrono::Duration::seconds(c);
    Local
        .from_local_datetime(&n)
        .earliest()
        .expect("civil time not representable in this zone")
}
pub fn dt_to_civil(dt: &DateTime<Local>) -> i64 {
    (dt.naive_local() - epoch()).num_seconds()
}
pub fn naive_to_civil(n: &NaiveDateTime) -> i64 {
    (*n - epoch()).num_seconds()
}

#[derive(Clone, Debug)]
pub struct FaultPlan {
    pub name: String, // point name, e.g. "fs:open"; "*" = any fs point
    pub from: u64,    // first failing hit (1-based) of that point name after arming
    pub burst: u64,   // number of consecutive failing hits
    pub kind: std::io::ErrorKind,
}

#[derive(Default)]
pub struct Sched {
    /// threads (by registered id) currently parked: id -> point name
    pub parked: HashMap<String, String>,
    /// release tokens: id -> number of points the thread may pass
    pub tokens: HashMap<String, u64>,
    pub controlled: HashSet<String>,
    pub free_run: bool,
    /// controlled threads park at fs: points as well (the cleanup thread, FlwCleanQ.tla)
    pub park_fs: bool,
    /// number of times a thread has parked so far (to tell a new park from the one it is leaving)
    pub parks: HashMap<String, u64>,
}

pub struct H {
    pub virt: AtomicBool,
    pub clock: AtomicI64,
    pub autotick: AtomicI64, // added to the clock after every read (C20)
    pub clock_reads: AtomicU64,
    bt: Mutex<HashMap<(u64, u64, i128), i64>>,
    pub record: AtomicBool,
    pub points: Mutex<Vec<(String, String, String)>>, // (name, file, thread)
    pub fx: Mutex<Vec<(String, bool)>>, // file-system effects of the current step: (point, failure injected)
    pub fx_on: AtomicBool,
    pub fault: Mutex<Option<FaultPlan>>,
    pub fault_hits: Mutex<HashMap<String, u64>>,
    pub injected: AtomicU64,
    pub injected_names: Mutex<Vec<String>>,
    pub crash_at: AtomicI64, // abort at this global fs-point hit (1-based); -1 = never
    pub fs_hits: AtomicU64,
    pub crash_note: Mutex<Option<std::path::PathBuf>>, // file to write "name file" before abort
    pub sched_on: AtomicBool,
    pub sched: Mutex<Sched>,
    pub cv: Condvar,
    pub noise: AtomicU64, // seed for scheduling noise at sc: points; 0 = off
}

thread_local! {
    pub static TID: std::cell::RefCell<Option<String>> = const { std::cell::RefCell::new(None) };
}
pub fn set_tid(id: &str) {
    TID.with(|t| *t.borrow_mut() = Some(id.to_string()));
}
fn tid() -> String {
    TID.with(|t| t.borrow().clone()).unwrap_or_else(|| {
        std::thread::current()
            .name()
            .unwrap_or("unnamed")
            .to_string()
    })
}

pub fn h() -> &'static Arc<H> {
    static HH: OnceLock<Arc<H>> = OnceLock::new();
    HH.get_or_init(|| {
        let h = Arc::new(H {
            virt: AtomicBool::new(false),
            clock: AtomicI64::new(0),
            autotick: AtomicI64::new(0),
            clock_reads: AtomicU64::new(0),
            bt: Mutex::new(HashMap::new()),
            record: AtomicBool::new(false),
            points: Mutex::new(Vec::new()),
            fx: Mutex::new(Vec::new()),
            fx_on: AtomicBool::new(false),
            fault: Mutex::new(None),
            fault_hits: Mutex::new(HashMap::new()),
            injected: AtomicU64::new(0),
            injected_names: Mutex::new(Vec::new()),
            crash_at: AtomicI64::new(-1),
            fs_hits: AtomicU64::new(0),
            crash_note: Mutex::new(None),
            sched_on: AtomicBool::new(false),
            sched: Mutex::new(Sched::default()),
            cv: Condvar::new(),
            noise: AtomicU64::new(0),
        });
        vh::set_handler(Some(h.clone()));
        h
    })
}

impl H {
    pub fn set_clock(&self, c: i64) {
        self.virt.store(true, Ordering::SeqCst);
        self.clock.store(c, Ordering::SeqCst);
    }
    pub fn real_clock(&self) {
        self.virt.store(false, Ordering::SeqCst);
    }
    pub fn get_clock(&self) -> i64 {
        self.clock.load(Ordering::SeqCst)
    }
    pub fn reset_bt(&self) {
        self.bt.lock().unwrap().clear();
    }
    pub fn take_fx(&self) -> Vec<(String, bool)> {
        std::mem::take(&mut *self.fx.lock().unwrap())
    }
    pub fn take_points(&self) -> Vec<(String, String, String)> {
        std::mem::take(&mut *self.points.lock().unwrap())
    }
    pub fn arm_fault(&self, p: Option<FaultPlan>) {
        *self.fault.lock().unwrap() = p;
        self.fault_hits.lock().unwrap().clear();
    }
    /// virtual birth time of a file (None if it does not exist); registers it if unseen
    pub fn birth(&self, p: &Path) -> Option<i64> {
        let md = std::fs::metadata(p).ok()?;
        let bt = md
            .created()
            .ok()?
            .duration_since(std::time::UNIX_EPOCH)
            .ok()?
            .as_nanos() as i128;
        let key = (md.dev(), md.ino(), bt);
        let now = self.get_clock();
        Some(*self.bt.lock().unwrap().entry(key).or_insert(now))
    }

    // ----- schedule controller (used by the concurrency drivers)
    pub fn sched_reset(&self, controlled: &[&str]) {
        let mut s = self.sched.lock().unwrap();
        s.parked.clear();
        s.tokens.clear();
        s.controlled = controlled.iter().map(|x| x.to_string()).collect();
        s.free_run = false;
        s.park_fs = false;
        s.parks.clear();
        self.sched_on.store(true, Ordering::SeqCst);
    }
    /// as sched_reset, but the controlled threads are also held in front of every file-system effect
    pub fn sched_reset_fs(&self, controlled: &[&str]) {
        self.sched_reset(controlled);
        self.sched.lock().unwrap().park_fs = true;
    }
    pub fn park_count(&self, id: &str) -> u64 {
        *self.sched.lock().unwrap().parks.get(id).unwrap_or(&0)
    }
    /// wait until thread `id` has parked more than `seen` times; returns the point name
    pub fn wait_new_park(&self, id: &str, seen: u64, timeout: Duration) -> Option<String> {
        let deadline = Instant::now() + timeout;
        let mut s = self.sched.lock().unwrap();
        loop {
            if *s.parks.get(id).unwrap_or(&0) > seen {
                if let Some(p) = s.parked.get(id) {
                    return Some(p.clone());
                }
            }
            let now = Instant::now();
            if now >= deadline {
                return None;
            }
            let (g, _) = self.cv.wait_timeout(s, deadline - now).unwrap();
            s = g;
        }
    }
    pub fn sched_off(&self) {
        let mut s = self.sched.lock().unwrap();
        s.free_run = true;
        self.sched_on.store(false, Ordering::SeqCst);
        self.cv.notify_all();
    }
    /// wait until thread `id` is parked at some point; returns the point name
    pub fn wait_parked(&self, id: &str, timeout: Duration) -> Option<String> {
        let deadline = Instant::now() + timeout;
        let mut s = self.sched.lock().unwrap();
        loop {
            if let Some(p) = s.parked.get(id) {
                return Some(p.clone());
            }
            let now = Instant::now();
            if now >= deadline {
                return None;
            }
            let (g, _) = self.cv.wait_timeout(s, deadline - now).unwrap();
            s = g;
        }
    }
    /// let thread `id` pass `n` points
    pub fn release(&self, id: &str, n: u64) {
        let mut s = self.sched.lock().unwrap();
        *s.tokens.entry(id.to_string()).or_insert(0) += n;
        self.cv.notify_all();
    }
    pub fn is_parked(&self, id: &str) -> bool {
        self.sched.lock().unwrap().parked.contains_key(id)
    }
}

impl H {
    fn park_here(&self, name: &'static str) {
        if self.sched_on.load(Ordering::SeqCst) {
            let id = tid();
            let mut s = self.sched.lock().unwrap();
            if s.controlled.contains(&id) && !s.free_run && (s.park_fs || !name.starts_with("fs:")) {
                s.parked.insert(id.clone(), name.to_string());
                *s.parks.entry(id.clone()).or_insert(0) += 1;
                self.cv.notify_all();
                loop {
                    if s.free_run {
                        break;
                    }
                    if let Some(t) = s.tokens.get_mut(&id) {
                        if *t > 0 {
                            *t -= 1;
                            break;
                        }
                    }
                    s = self.cv.wait(s).unwrap();
                }
                s.parked.remove(&id);
                self.cv.notify_all();
            }
        }
    }
}

impl vh::Handler for H {
    fn now(&self) -> Option<DateTime<Local>> {
        if self.virt.load(Ordering::SeqCst) {
            self.clock_reads.fetch_add(1, Ordering::SeqCst);
            let tick = self.autotick.load(Ordering::SeqCst);
            let c = if tick != 0 {
                self.clock.fetch_add(tick, Ordering::SeqCst)
            } else {
                self.clock.load(Ordering::SeqCst)
            };
            Some(civil_to_dt(c))
        } else {
            None
        }
    }
    fn creation_time(&self, p: &Path) -> Option<DateTime<Local>> {
        if self.virt.load(Ordering::SeqCst) {
            self.birth(p).map(civil_to_dt)
        } else {
            None
        }
    }
    fn point(&self, name: &'static str, p: Option<&Path>) -> std::io::Result<()> {
        let is_fs = name.starts_with("fs:");
        if self.record.load(Ordering::SeqCst) {
            let f = p
                .and_then(|p| p.file_name())
                .map(|f| f.to_string_lossy().to_string())
                .unwrap_or_default();
            self.points
                .lock()
                .unwrap()
                .push((name.to_string(), f, tid()));
        }
        if is_fs {
            self.park_here(name);
            let n = self.fs_hits.fetch_add(1, Ordering::SeqCst) + 1;
            let at = self.crash_at.load(Ordering::SeqCst);
            if at >= 0 && n as i64 == at {
                if let Some(note) = self.crash_note.lock().unwrap().as_ref() {
                    let f = p.map(|p| p.display().to_string()).unwrap_or_default();
                    std::fs::write(note, format!("{name} {f}\n")).ok();
                }
                std::process::abort();
            }
            let plan = self.fault.lock().unwrap().clone();
            if let Some(plan) = plan {
                if plan.name == name || plan.name == "*" {
                    let mut hits = self.fault_hits.lock().unwrap();
                    let c = hits.entry(plan.name.clone()).or_insert(0);
                    *c += 1;
                    if *c >= plan.from && *c < plan.from + plan.burst {
                        self.injected.fetch_add(1, Ordering::SeqCst);
                        self.injected_names.lock().unwrap().push(name.to_string());
                        if self.fx_on.load(Ordering::SeqCst) {
                            self.fx.lock().unwrap().push((name.to_string(), true));
                        }
                        return Err(std::io::Error::new(plan.kind, "injected by verif harness"));
                    }
                }
            }
            if self.fx_on.load(Ordering::SeqCst) {
                self.fx.lock().unwrap().push((name.to_string(), false));
            }
        } else {
            // scheduling point
            let seed = self.noise.load(Ordering::Relaxed);
            if seed != 0 {
                let x = self
                    .noise
                    .fetch_add(0x9E37_79B9_7F4A_7C15, Ordering::Relaxed);
                let mut z = x ^ (x >> 30);
                z = z.wrapping_mul(0xBF58_476D_1CE4_E5B9);
                z ^= z >> 27;
                match z % 8 {
                    0 => std::thread::yield_now(),
                    1 => std::thread::sleep(Duration::from_micros(z % 200)),
                    _ => {}
                }
            }
            self.park_here(name);
        }
        Ok(())
    }
}
